#!/bin/bash
# tools/mutation_audit.sh [Cnn ...]  - regenerate the mutants and run each against its property's quick check, in parallel
HERE="$(cd "$(dirname "${BASH_SOURCE[0]}")/.." && pwd)"
cd "$HERE"
/venv/bin/python tools/mkmutants.py || exit 2
PROPS="${@:-$(ls mutants | grep '^C')}"
JOBS="${AUDIT_JOBS:-4}"
for p in $PROPS; do for m in mutants/$p/*.patch; do echo "$m $p"; done; done | \
  HV_JOBS=4 xargs -P "$JOBS" -L 1 bash -c 'tools/mutant.sh "$0" "$1" "${AUDIT_TIER:-quick}" 2>&1 | grep -v conda'
