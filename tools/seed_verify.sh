#!/bin/bash
# tools/seed_verify.sh <dir-with-patch.diff+demo.py> <Cnn> [tier]
# Confirms a seeded change in a scratch copy of /repo's working tree: demo passes before, patch applies, baseline OK,
# demo fails after; then runs the property's check against the patched copy. Removes the copy.
set -u
HERE="$(cd "$(dirname "${BASH_SOURCE[0]}")/.." && pwd)"
D="$(realpath "$1")"; PROP="$2"; TIER="${3:-quick}"
SCR="$(mktemp -d /tmp/hvseed.XXXXXX)"
trap 'rm -rf "$SCR"' EXIT
rsync -a --exclude .git --exclude '__pycache__' /repo/ "$SCR/repo/"
cd "$SCR/repo"
PYTHONDONTWRITEBYTECODE=1 timeout 600 /venv/bin/python "$D/demo.py" > "$SCR/demo0.txt" 2>&1; R0=$?
if ! patch -p1 --quiet < "$D/patch.diff" > "$SCR/patch.txt" 2>&1; then echo "SEED $PROP $(basename $D): PATCH-FAILED $(head -c 300 $SCR/patch.txt)"; exit 2; fi
PYTHONDONTWRITEBYTECODE=1 timeout 600 /venv/bin/python "$D/demo.py" > "$SCR/demo1.txt" 2>&1; R1=$?
BASE="skipped"
if [ "${SKIP_BASELINE:-0}" != "1" ]; then BASE="$("$HERE/tools/baseline.sh" "$SCR/repo" 2>&1 | grep -E "BASELINE" | head -1)"; fi
cd "$HERE"
HV_REPO="$SCR/repo" HV_EVIDENCE_OUT="$SCR/evidence.json" HV_REPLAY_DIR="$SCR/replays" "$HERE/check" "$PROP" --tier "$TIER" > "$SCR/out.txt" 2>&1
RC=$?
echo "SEED $PROP $(basename $(dirname $D))/$(basename $D): demo_before=$R0 demo_after=$R1 baseline='$BASE' check_rc=$RC"
grep -E "^(VIOLATION|  mechanism|INCONCLUSIVE|KNOWN)" "$SCR/out.txt" | cut -c1-220 | head -8
if [ "${KEEP:-0}" = "1" ] && [ $R0 -eq 0 ] && [ $R1 -ne 0 ]; then
  DEST="$HERE/seeded/$PROP-$(basename $D)"
  mkdir -p "$DEST"
  cp "$D/patch.diff" "$D/demo.py" "$DEST/"
  MECH="$(grep -m3 -E "^  mechanism" "$SCR/out.txt" | sed 's/^  //' | cut -c1-160 | tr '\n' ';')"
  /venv/bin/python - "$D/meta.json" "$DEST/meta.json" "$PROP" "$R0" "$R1" "$BASE" "$RC" "$TIER" "$MECH" <<'PY'
import json, sys
src, dst, prop, r0, r1, base, rc, tier, mech = sys.argv[1:10]
try:
    meta = json.load(open(src))
except Exception:
    meta = {"property": prop}
meta["property"] = prop
meta["confirmed"] = {
    "how": "tools/seed_verify.sh: scratch copy of /repo working tree; demo before patch, git-style patch apply, repository suite vs BASELINE.json, demo after patch, then ./check against the patched copy",
    "demo_exit_before_patch": int(r0), "demo_exit_after_patch": int(r1), "baseline": base,
    "check_tier": tier, "check_exit": int(rc), "caught": int(rc) == 1, "check_mechanisms": mech,
}
json.dump(meta, open(dst, "w"), indent=1)
PY
fi
[ $RC -eq 1 ] && exit 0 || exit 1
