#!/bin/bash
# Offline setup: install harness-only deps (icontract, deal) beside (not over) the repo's packages.
set -e
HERE="$(cd "$(dirname "${BASH_SOURCE[0]}")/.." && pwd)"
if [ ! -d "$HERE/.deps/icontract" ]; then
  PIP_NO_INDEX=1 /venv/bin/pip install --quiet --no-index --find-links /opt/veriftools/wheels \
      --target "$HERE/.deps" icontract deal
fi
mkdir -p "$HERE/evidence" "$HERE/replays"
echo "setup ok"
