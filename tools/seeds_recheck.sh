#!/bin/bash
# tools/seeds_recheck.sh [tier] - re-verify every kept seeded change against the CURRENT /repo tree (scratch copies, parallel)
HERE="$(cd "$(dirname "${BASH_SOURCE[0]}")/.." && pwd)"
cd "$HERE"
TIER="${1:-quick}"
ls -d seeded/C*-* | while read d; do p="$(basename "$d" | cut -d- -f1)"; echo "$d $p"; done | \
  HV_JOBS=4 SKIP_BASELINE="${SKIP_BASELINE:-1}" xargs -P "${SEED_JOBS:-4}" -L 1 bash -c 'tools/seed_verify.sh "$0" "$1" '"$TIER"' 2>&1 | grep -E "^SEED"'
