#!/bin/bash
# tools/baseline.sh [repo_dir]  - run the repository's suite (guard off) and compare with BASELINE.json stable_pass
DIR="${1:-/repo}"
cd "$DIR" || exit 2
J="$(mktemp /tmp/junit.XXXXXX.xml)"
env -u HIPPOLYZER_VERIF /venv/bin/python -m pytest -ra -q -p no:cacheprovider --timeout=900 --continue-on-collection-errors --junitxml="$J" >/dev/null 2>&1
/venv/bin/python - "$J" <<'PY'
import json, sys
import xml.etree.ElementTree as ET
base = json.load(open('/root/.vp/BASELINE.json'))
stable = set(base['stable_pass'])
passed = set()
for tc in ET.parse(sys.argv[1]).getroot().iter('testcase'):
    name = f"{tc.get('classname')}::{tc.get('name')}"
    if not any(ch.tag in ('failure', 'error', 'skipped') for ch in tc):
        passed.add(name)
missing = sorted(stable - passed)
import hippolyzer, os
print("hippolyzer imported from", os.path.dirname(hippolyzer.__file__), "(cwd-first)")
if missing:
    print(f"BASELINE BROKEN: {len(missing)} stable tests no longer pass:")
    for m in missing[:40]:
        print("  ", m)
    sys.exit(1)
print(f"BASELINE OK: all {len(stable)} stable tests pass")
PY
RC=$?
rm -f "$J"
exit $RC
