#!/venv/bin/python
"""Regenerates the generated part of DESIGN.md (between the GENERATED markers) from the check modules,
known_findings.json, mutants/AUDIT.txt (output of tools/mutation_audit.sh) and seeded/*/meta.json."""
import glob
import importlib
import json
import os
import re
import sys

ROOT = os.path.dirname(os.path.dirname(os.path.abspath(__file__)))
sys.path.insert(0, ROOT)
os.environ.setdefault("HV_ROOT", ROOT)
from hv import env  # noqa: E402

env.setup()
env.import_repo()

BEGIN, END = "<!-- BEGIN GENERATED (tools/gen_design_tables.py) -->", "<!-- END GENERATED -->"


def esc(s):
    return str(s).replace("|", "\\|").replace("\n", " ")


def main():
    out = [BEGIN, ""]
    # ---- A. per check
    out.append("### A. What each check explores (taken from the check modules)\n")
    for i in range(1, 21):
        pid = f"C{i:02d}"
        try:
            m = importlib.import_module(f"hv.props.c{i:02d}")
        except Exception as e:
            out.append(f"**{pid}** - module missing ({e})\n")
            continue
        out.append(f"**{pid}** (level `{m.LEVEL}`, shards quick/thorough = {m.SHARDS['quick']}/{m.SHARDS['thorough']})\n")
        out.append(f"* explores: {m.RULE}")
        for a in m.ASSUMPTIONS:
            out.append(f"* assumes: {a}")
        mr = m.MUST_REACH
        out.append("* must reach (a lower count makes the run *inconclusive*): " + ", ".join(f"{k} >= {v}" for k, v in mr.items()))
        ev = os.path.join(ROOT, "evidence", pid + ".json")
        if os.path.exists(ev):
            e = json.load(open(ev))
            c = e["coverage"]
            out.append(f"* last committed evidence: tier={e['tier']} seed={e['seed']} evaluations={c['evaluations']} "
                       f"distinct_nontrivial={c['distinct_nontrivial']} verdict={c.get('verdict')}")
        out.append("")
    # ---- B. defects
    kf = json.load(open(os.path.join(ROOT, "known_findings.json")))
    out.append("### B. Genuine defects found by the checks\n")
    out.append("Repaired (`fix:` commits in /repo, suite re-run after each):\n")
    out.append("| Property | Commit | What failed |")
    out.append("|---|---|---|")
    for e in kf["fixed"]:
        what = e["line"].split(e["commit"], 1)[1].strip()
        out.append(f"| {e['property']} | `{e['commit']}` | {esc(what)} |")
    out.append("\nRecorded, not repaired (`KNOWN-FINDING` lines, keyed by mechanism):\n")
    out.append("| Property | Key | What fails | Why not repaired |")
    out.append("|---|---|---|---|")
    for e in kf["known"]:
        out.append(f"| {e['property']} | `{esc(e['key'])}` | {esc(e['what'])} | {esc(e.get('why_not_fixed', ''))} |")
    out.append("")
    # ---- C. mutants
    audit = {}
    ap = os.path.join(ROOT, "mutants", "AUDIT.txt")
    if os.path.exists(ap):
        for line in open(ap):
            mm = re.match(r"(CAUGHT|MISSED|TIMEOUT|INCONCLUSIVE)\s+(\S+)\.patch by (C\d+)/(\w+)(?::\s+mechanism=(\S+))?", line)
            if mm:
                audit[(mm.group(3), mm.group(2))] = (mm.group(1), mm.group(5) or "")
    from mutants import defs  # noqa
    out.append("### C. Monitor validation: deliberate breaks (`mutants/defs.py`, run by `tools/mutation_audit.sh`, quick tier)\n")
    out.append("| Property | Break | Files | Result | First mechanism reported |")
    out.append("|---|---|---|---|---|")
    for prop, name, edits in sorted(defs.MUTANTS, key=lambda t: (t[0], t[1])):
        files = ", ".join(sorted({os.path.basename(f) for f, _, _ in edits}))
        res, mech = audit.get((prop, name), ("not run", ""))
        out.append(f"| {prop} | {name} | {files} | {res.lower()} | `{esc(mech)}` |")
    caught = sum(1 for v in audit.values() if v[0] == "CAUGHT")
    out.append(f"\n{caught} of {len(audit)} audited breaks caught at the quick tier (audit file: `mutants/AUDIT.txt`).\n")
    # ---- D. seeded changes
    out.append("### D. Seeded changes written by independent agents (`seeded/<id>/`)\n")
    out.append("Each was produced by a fresh agent that saw only the property text and a scratch worktree, passes the repository's "
               "330 stable tests, and comes with a demo that passes before and fails after the change.\n")
    out.append("| Seed | Change | Caught (tier) | Mechanisms reported |")
    out.append("|---|---|---|---|")
    for d in sorted(glob.glob(os.path.join(ROOT, "seeded", "C*"))):
        try:
            meta = json.load(open(os.path.join(d, "meta.json")))
        except Exception:
            continue
        c = meta.get("confirmed", {})
        title = meta.get("title") or meta.get("summary") or meta.get("what_it_breaks", "")[:120]
        out.append(f"| {os.path.basename(d)} | {esc(title)[:200]} | {'yes' if c.get('caught') else 'NO'} ({c.get('check_tier')}) | "
                   f"{esc(c.get('check_mechanisms', ''))[:220]} |")
    out.append("")
    out.append(END)
    text = "\n".join(out)
    p = os.path.join(ROOT, "DESIGN.md")
    s = open(p).read()
    if BEGIN in s and END in s:
        s = s[:s.index(BEGIN)] + text + s[s.index(END) + len(END):]
    else:
        s = s.rstrip() + "\n\n" + text + "\n"
    open(p, "w").write(s)
    print("DESIGN.md generated part updated:", len(text), "chars")


if __name__ == "__main__":
    main()
