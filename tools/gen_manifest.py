#!/venv/bin/python
"""Regenerates MANIFEST.json from the property modules present under hv/props (keeps it schema-valid)."""
import importlib
import json
import os
import sys

HERE = os.path.dirname(os.path.dirname(os.path.abspath(__file__)))
sys.path.insert(0, HERE)
os.environ.setdefault("HV_ROOT", HERE)

NOT_APPLICABLE = {
    # property_id: reason   (filled only for properties that are genuinely not claimed)
}

props = [json.loads(l) for l in open(os.path.join(HERE, "properties.jsonl"))]
checks = []
not_applicable = []
for p in props:
    pid = p["id"]
    path = os.path.join(HERE, "hv", "props", pid.lower() + ".py")
    if pid in NOT_APPLICABLE:
        not_applicable.append({"property_id": pid, "reason": NOT_APPLICABLE[pid]})
        continue
    if not os.path.exists(path):
        not_applicable.append({"property_id": pid, "reason": "check not built yet in this round (planned in DESIGN.md section 3); not claimed"})
        continue
    mod = importlib.import_module(f"hv.props.{pid.lower()}")
    checks.append({
        "property_id": pid,
        "quick_cmd": f"./check {pid} --tier quick",
        "thorough_cmd": f"./check {pid} --tier thorough",
        "evidence_file": f"evidence/{pid}.json",
        "replay_cmd_template": "./check --replay {path}",
        "engine": "hv",
        "level_claimed": {
            "category": mod.LEVEL,
            "text": getattr(mod, "LEVEL_TEXT", mod.RULE),
            "design_ref": f"DESIGN.md section 3, {pid}",
        },
        "level_note": getattr(mod, "LEVEL_NOTE", "; ".join(getattr(mod, "ASSUMPTIONS", [])) or "held on the executions produced, nothing more"),
        "technique": getattr(mod, "TECHNIQUE", "runtime monitoring: real code under generated workload, oracle over observed events"),
    })

manifest = {
    "version": 1,
    "setup_cmd": "./tools/setup.sh",
    "hooks": {
        "guard": "HIPPOLYZER_VERIF",
        "enable": "no in-tree hooks are needed: monitors attach from the harness (class-attribute wrappers, fake transports/queues, virtual clock); ./check exports HIPPOLYZER_VERIF=1 anyway",
        "baseline_off_cmd": "cd /repo && env -u HIPPOLYZER_VERIF /venv/bin/python -m pytest -ra -q -p no:cacheprovider --timeout=900 --continue-on-collection-errors",
        "source_commits": [],
        "add_only": True,
    },
    "engines": [{
        "name": "hv", "path": "hv/",
        "serves_properties": [c["property_id"] for c in checks],
        "kind_free_text": "runtime monitoring harness: runs the real functions from /repo's working tree in fresh /venv/bin/python processes under generated / enumerated / fault-injected workloads; reference-model, differential and history-checking oracles; three-valued verdicts",
    }],
    "checks": checks,
    "notes": "All checks import hippolyzer from /repo's working tree at run time (HV_REPO first on sys.path); exit 0 held, 1 violation (VIOLATION line + replay file), 2 inconclusive. Known findings: known_findings.json.",
    "not_applicable": not_applicable,
}
with open(os.path.join(HERE, "MANIFEST.json"), "w") as f:
    json.dump(manifest, f, indent=1)
    f.write("\n")
print(f"{len(checks)} checks, {len(not_applicable)} not claimed")
