"""pytest plugin: runs the repository's own test-suite with the ride-along monitors installed.

Installed monitors: the InjectionTracker postconditions (hv.monitors.tracker, C04 laws) and a spy on
Message ownership (a finalized message must never be emitted again, C07's last clause).  Anything the
monitors record is written to the file named by HV_RIDEALONG_OUT and makes the session fail.
"""
import json
import os
import sys

ROOT = os.path.dirname(os.path.dirname(os.path.dirname(os.path.abspath(__file__))))
sys.path.insert(0, ROOT)
os.environ.setdefault("HV_ROOT", ROOT)

_state = {}


def pytest_configure(config):
    from hv import env
    env.setup()
    env.import_repo()
    from hv.monitors import tracker
    tracker.install()
    _state["tracker"] = tracker
    # ownership spy
    from hippolyzer.lib.proxy import circuit as pcircuit
    rec = _state.setdefault("ownership", {"sends": 0, "violations": []})
    orig_prepare = pcircuit.ProxiedCircuit.prepare_message

    def prepare_message(self, message, *a, **k):
        was_final = bool(getattr(message, "finalized", False))
        try:
            res = orig_prepare(self, message, *a, **k)
        except RuntimeError:
            raise
        rec["sends"] += 1
        if was_final:
            rec["violations"].append({"message": message.name, "what": "a finalized message was prepared for sending again"})
        return res
    pcircuit.ProxiedCircuit.prepare_message = prepare_message


def pytest_sessionfinish(session, exitstatus):
    tracker = _state.get("tracker")
    out = {"tracker_stats": dict(tracker.STATS), "tracker_violations": [list(map(str, r)) for r in tracker.RECORD],
           "ownership": _state.get("ownership")}
    path = os.environ.get("HV_RIDEALONG_OUT")
    if path:
        json.dump(out, open(path, "w"), indent=1, default=str)
    if tracker.RECORD or _state["ownership"]["violations"]:
        session.exitstatus = 1
