#!/usr/bin/env python3-vt
"""Validate MANIFEST.json and every evidence file against the schemas (runs under the tooling venv)."""
import glob
import json
import sys

import jsonschema

ok = True
m = json.load(open('/verif/MANIFEST.json'))
try:
    jsonschema.validate(m, json.load(open('/root/.vp/MANIFEST.schema.json')))
except jsonschema.ValidationError as e:
    ok = False
    print("MANIFEST invalid:", e.message)
es = json.load(open('/root/.vp/EVIDENCE.schema.json'))
for c in m["checks"]:
    path = '/verif/' + c["evidence_file"]
    try:
        e = json.load(open(path))
        jsonschema.validate(e, es)
        if e["level"] != c["level_claimed"]["category"]:
            raise jsonschema.ValidationError(f"level {e['level']} != claimed {c['level_claimed']['category']}")
        print(f"{c['property_id']}: ok tier={e['tier']} ev={e['coverage'].get('evaluations')} "
              f"distinct={e['coverage'].get('distinct_nontrivial')} verdict={e['coverage'].get('verdict')} wall={e['wall_s']}")
    except Exception as ex:
        ok = False
        print(f"{c['property_id']}: INVALID {type(ex).__name__}: {str(ex)[:200]}")
sys.exit(0 if ok else 1)
