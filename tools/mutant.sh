#!/bin/bash
# tools/mutant.sh <patch> <Cnn> [tier] [seed]
# Copies HV_REPO (default /repo) working tree to a scratch dir outside /repo and /verif, applies the patch,
# runs the check against the scratch copy (evidence redirected to the scratch dir) and removes the copy.
# Exit: 0 if the check reported a VIOLATION (mutant caught), 1 if not, 2 if patch did not apply.
set -u
HERE="$(cd "$(dirname "${BASH_SOURCE[0]}")/.." && pwd)"
PATCH="$(realpath "$1")"; PROP="$2"; TIER="${3:-quick}"; SEED="${4:-0}"
SRC="${HV_REPO:-/repo}"
SCR="$(mktemp -d /tmp/hvmut.XXXXXX)"
trap 'rm -rf "$SCR"' EXIT
rsync -a --exclude .git --exclude '__pycache__' "$SRC"/ "$SCR/repo/"
if ! (cd "$SCR/repo" && patch -p1 --quiet < "$PATCH"); then echo "PATCH-FAILED $PATCH"; exit 2; fi
OUT="$SCR/out.txt"
HV_REPO="$SCR/repo" HV_EVIDENCE_OUT="$SCR/evidence.json" HV_REPLAY_DIR="$SCR/replays" "$HERE/check" "$PROP" --tier "$TIER" --seed "$SEED" > "$OUT" 2>&1
RC=$?
if grep -q "^VIOLATION property=$PROP" "$OUT" && [ $RC -eq 1 ]; then
  echo "CAUGHT $(basename "$PATCH") by $PROP/$TIER: $(grep -m1 'mechanism=' "$OUT" | cut -c1-160)"
  exit 0
fi
echo "MISSED $(basename "$PATCH") by $PROP/$TIER rc=$RC: $(head -c 600 "$OUT" | tr '\n' '|')"
exit 1
