#!/bin/bash
# tools/suite_with_monitors.sh [repo_dir]  - the repository's own tests with the ride-along monitors on
HERE="$(cd "$(dirname "${BASH_SOURCE[0]}")/.." && pwd)"
DIR="${1:-/repo}"
[ -d "$HERE/.deps" ] || "$HERE/tools/setup.sh" >/dev/null 2>&1
OUT="$(mktemp /tmp/hvride.XXXXXX.json)"
cd "$DIR" || exit 2
HV_REPO="$DIR" HV_ROOT="$HERE" HV_RIDEALONG_OUT="$OUT" PYTHONPATH="$HERE/tools/ridealong:$HERE:$HERE/.deps" \
  /venv/bin/python -m pytest -q -p no:cacheprovider -p hv_ridealong --timeout=900 --deselect tests/proxy/integration/test_http.py::TestMITMProxy::test_mitmproxy_works 2>&1 | tail -3
/venv/bin/python - "$OUT" <<'PY'
import json, sys
d = json.load(open(sys.argv[1]))
print("RIDEALONG tracker evaluations:", d["tracker_stats"], "violations:", len(d["tracker_violations"]))
print("RIDEALONG ownership sends observed:", d["ownership"]["sends"], "violations:", len(d["ownership"]["violations"]))
for v in d["tracker_violations"][:5] + d["ownership"]["violations"][:5]:
    print("  ", v)
sys.exit(1 if d["tracker_violations"] or d["ownership"]["violations"] else 0)
PY
RC=$?
rm -f "$OUT"
exit $RC
