#!/venv/bin/python
"""Generate mutants/<prop>/<name>.patch from mutants/defs.py (string replacement against HV_REPO's tree)."""
import difflib
import importlib.util
import os
import sys

HERE = os.path.dirname(os.path.dirname(os.path.abspath(__file__)))
REPO = os.environ.get("HV_REPO", "/repo")
spec = importlib.util.spec_from_file_location("defs", os.path.join(HERE, "mutants", "defs.py"))
defs = importlib.util.module_from_spec(spec)
spec.loader.exec_module(defs)
bad = 0
import glob
for old in glob.glob(os.path.join(HERE, "mutants", "C*", "*.patch")):
    os.remove(old)
for m in defs.MUTANTS:
    prop, name, edits = m[0], m[1], m[2]
    out = []
    ok = True
    for (path, old, new) in edits:
        src = open(os.path.join(REPO, path)).read()
        if src.count(old) != 1:
            print(f"!! {prop}/{name}: pattern occurs {src.count(old)} times in {path}")
            ok = False
            break
        dst = src.replace(old, new)
        out.extend(difflib.unified_diff(src.splitlines(True), dst.splitlines(True), "a/" + path, "b/" + path))
    if not ok:
        bad += 1
        continue
    d = os.path.join(HERE, "mutants", prop)
    os.makedirs(d, exist_ok=True)
    with open(os.path.join(d, name + ".patch"), "w") as f:
        f.writelines(out)
print(f"{len(defs.MUTANTS) - bad} mutants written, {bad} failed")
sys.exit(1 if bad else 0)
