"""Re-entrancy monitor: the same calls that were made one at a time are made from several threads at once (tiny switch
interval) and must give what they gave alone.  The library is used from more than one thread (the proxy's network thread, the
GUI, addon tasks in executors); its codec objects are shared and documented as safe to call concurrently."""
import sys
import threading


def run_concurrently(ctx, label, jobs, threads=4, reps=3, mechanism="not-reentrant"):
    """jobs: list of (callable, expected) - expected is what callable() returned when called alone (anything comparable with
    ==).  Returns True when every concurrent call agreed."""
    problems = []
    if not jobs:
        return True

    def worker(k):
        n = len(jobs)
        for rep in range(reps):
            for j in range(n):
                fn, expected = jobs[(j * (2 * k + 1) + k * 7) % n]
                try:
                    got = fn()
                except Exception as e:          # noqa: BLE001 - whatever it is, it did not happen single-threaded
                    problems.append((repr(e)[:200], (j * (2 * k + 1) + k * 7) % n))
                    return
                if got != expected:
                    problems.append(("differs", (j * (2 * k + 1) + k * 7) % n))
                    return
    old = sys.getswitchinterval()
    sys.setswitchinterval(1e-6)
    try:
        ts = [threading.Thread(target=worker, args=(k,)) for k in range(threads)]
        for t in ts:
            t.start()
        for t in ts:
            t.join()
    finally:
        sys.setswitchinterval(old)
    ctx.count("calls_from_concurrent_threads", threads * reps * len(jobs))
    if problems:
        what, idx = problems[0]
        ctx.violation(f"{mechanism}:{label}", "a call gave another result (or raised) when made from several threads at once than "
                      "it gives alone", {"what": what, "job_index": idx, "threads": threads, "label": label})
        return False
    return True
