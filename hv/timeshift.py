"""Time as part of the environment: a process-wide clock offset.  `time.time`, `time.monotonic`, `time.perf_counter` and, in
every loaded module of the library that imported `datetime`, `datetime.now()/utcnow()/today()` are replaced by versions that
add the offset, so that "ten minutes / a day later" can be an action in a history.  Nothing sleeps."""
import datetime as _dt
import sys
import time as _time


class TimeShift:
    def __init__(self):
        self.offset = 0.0
        self._saved = []

    def advance(self, seconds):
        self.offset += seconds

    def install(self):
        shift = self
        real = {n: getattr(_time, n) for n in ("time", "monotonic", "perf_counter")}
        for name, fn in real.items():
            self._saved.append((_time, name, fn))
            setattr(_time, name, (lambda fn=fn: fn() + shift.offset))

        class ShiftedDateTime(_dt.datetime):
            @classmethod
            def now(cls, tz=None):
                return _dt.datetime.now(tz) + _dt.timedelta(seconds=shift.offset)

            @classmethod
            def utcnow(cls):
                return _dt.datetime.utcnow() + _dt.timedelta(seconds=shift.offset)

            @classmethod
            def today(cls):
                return cls.now()

        class ShimModule:
            datetime = ShiftedDateTime
            timedelta = _dt.timedelta
            timezone = _dt.timezone
            date = _dt.date
            time = _dt.time
            tzinfo = _dt.tzinfo
            MINYEAR, MAXYEAR = _dt.MINYEAR, _dt.MAXYEAR

        for modname, mod in list(sys.modules.items()):
            if not modname.startswith("hippolyzer.") or mod is None:
                continue
            for attr in ("dt", "datetime"):
                val = getattr(mod, attr, None)
                if val is _dt:
                    self._saved.append((mod, attr, val))
                    setattr(mod, attr, ShimModule)
                elif val is _dt.datetime:
                    self._saved.append((mod, attr, val))
                    setattr(mod, attr, ShiftedDateTime)
        return self

    def uninstall(self):
        for obj, name, val in reversed(self._saved):
            setattr(obj, name, val)
        self._saved = []

    def __enter__(self):
        return self.install()

    def __exit__(self, *a):
        self.uninstall()
