"""Ride-along monitor for InjectionTracker (C04), attached with icontract postconditions on the class.

A shadow per tracker instance keeps the COMPLETE set of injected wire ids ever allocated, the newest
injection that aged out of the tracker's bounded window, and the wire id first handed out for each
original id.  Conditions record violations and return True (so they never change the behaviour of
the code they observe).
"""
import weakref

import icontract

from .. import env

env.import_repo()

from hippolyzer.lib.proxy import circuit as pcircuit  # noqa: E402

_SHADOWS = weakref.WeakKeyDictionary()
RECORD = []          # (mechanism, what, witness)
STATS = {"effective": 0, "original": 0, "inject": 0}
_installed = False


class Shadow:
    __slots__ = ("injected", "evicted_max", "first", "emitted", "window", "pending")

    def __init__(self):
        self.injected = set()
        self.evicted_max = -1
        self.first = {}       # original -> wire id at first translation
        self.emitted = set()  # wire ids handed to forwarded packets
        self.window = []
        self.pending = None   # (original, wire) of the last translation, committed when track_seen(wire) follows


def shadow_of(tracker) -> Shadow:
    # kept on the instance so that copies of a tracker carry their shadow along
    sh = tracker.__dict__.get("_hv_shadow")
    if sh is None:
        sh = Shadow()
        # a tracker may already carry injections if the monitor was attached late
        for i in tracker.injections:
            sh.injected.add(i)
            sh.window.append(i)
        if tracker._injection_base:
            sh.evicted_max = (sh.window[0] - 1) if sh.window else tracker._packet_id_base
        tracker.__dict__["_hv_shadow"] = sh
    return sh


def _rec(mech, what, wit):
    if len(RECORD) < 200:
        RECORD.append((mech, what, wit))


def _post_effective(self, orig_id, result):
    STATS["effective"] += 1
    sh = shadow_of(self)
    # scope by where the id should be, not by what was answered
    exp = orig_id
    while True:
        e2 = orig_id + sum(1 for i in sh.injected if i <= exp)
        if e2 == exp:
            break
        exp = e2
    if exp <= sh.evicted_max:
        return True   # belongs below an aged-out injection: outside the property's caveat
    if result <= sh.evicted_max:
        _rec("effective-id-below-aged-out-injection", "an id that belongs above every aged-out injection was translated to a wire "
             "id at or below one", {"orig": orig_id, "wire": result, "expected": exp})
        return True
    if result in sh.injected:
        _rec("effective-id-is-injected", "translation yielded a wire id used for an injected packet",
             {"orig": orig_id, "wire": result, "injected": sorted(sh.injected)[-8:]})
    sh.pending = (orig_id, result)
    prev = sh.first.get(orig_id)
    if prev is not None and prev != result and prev > sh.evicted_max:
        _rec("translation-unstable", "an id translated again got a different wire id",
             {"orig": orig_id, "first": prev, "now": result})
    return True


def _post_original(self, effective_id, result):
    STATS["original"] += 1
    sh = shadow_of(self)
    if effective_id <= sh.evicted_max:
        return True
    # the original whose first translation was this wire id, if we saw it
    for o, w in sh.first.items():
        if w == effective_id:
            if o != result:
                _rec("reverse-translation-wrong", "wire id translated back to a different original id",
                     {"wire": effective_id, "expected": o, "got": result, "injected": sorted(sh.injected)[-8:]})
            break
    return True


def _post_inject(self, result):
    STATS["inject"] += 1
    sh = shadow_of(self)
    if result in sh.injected:
        _rec("injected-id-reused", "an injected id was allocated twice", {"wire": result})
    if result in sh.emitted:
        _rec("injected-id-collides", "injected id equals a wire id already given to a forwarded packet",
             {"wire": result})
    sh.injected.add(result)
    sh.window.append(result)
    maxlen = self.injections.maxlen
    while maxlen is not None and len(sh.window) > maxlen:
        sh.evicted_max = max(sh.evicted_max, sh.window.pop(0))
    return True


def _post_seen(self, orig_id):
    # called with the WIRE id of a forwarded packet right after its translation (prepare_message)
    sh = shadow_of(self)
    sh.emitted.add(orig_id)
    if sh.pending is not None and sh.pending[1] == orig_id:
        sh.first.setdefault(sh.pending[0], orig_id)
    sh.pending = None
    return True


class TrackerContractBroken(Exception):
    pass


def install():
    """Attach the postconditions to the class attributes (idempotent)."""
    global _installed
    if _installed:
        return
    _installed = True
    cls = pcircuit.InjectionTracker
    cls.get_effective_id = icontract.ensure(_post_effective, error=TrackerContractBroken)(cls.get_effective_id)
    cls.get_original_id = icontract.ensure(_post_original, error=TrackerContractBroken)(cls.get_original_id)
    _orig_gen = cls.gen_injectable_id

    def gen_injectable_id(self):
        # track_seen() is called from inside; remember so it is not mistaken for a forwarded packet
        shadow_of(self)   # must exist before the call so the new id is not mistaken for an old one
        self.__dict__["_hv_in_gen"] = True
        try:
            return _orig_gen(self)
        finally:
            self.__dict__["_hv_in_gen"] = False

    cls.gen_injectable_id = icontract.ensure(_post_inject, error=TrackerContractBroken)(gen_injectable_id)
    _orig_seen = cls.track_seen

    def track_seen(self, orig_id):
        if not self.__dict__.get("_hv_in_gen"):
            _post_seen(self, orig_id)
        return _orig_seen(self, orig_id)

    cls.track_seen = track_seen


def drain(ctx, prefix="tracker:"):
    """Report and clear what the ride-along conditions recorded."""
    for mech, what, wit in RECORD:
        ctx.violation(prefix + mech, what, wit)
    del RECORD[:]
    for k, v in STATS.items():
        if v:
            ctx.count("tracker_contract_" + k, v)
        STATS[k] = 0
