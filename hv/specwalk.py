"""Deterministic walk over the serialization-spec object graph reachable from the repository's
registries and modules (no gc): SUBFIELD_SERIALIZERS, templates, llanim, mesh, namevalue, ...

Yields (path, object) for every object whose class is defined in the repository (plus containers).
"""
import dataclasses
import types

from . import env

env.import_repo()

import hippolyzer.lib.base.serialization as se  # noqa: E402


def _children(obj):
    """(label, child) pairs, deterministic order."""
    if isinstance(obj, dict):
        for k in obj:
            yield f"[{k!r}]", obj[k]
        return
    if isinstance(obj, (list, tuple)):
        for i, v in enumerate(obj):
            yield f"[{i}]", v
        return
    if isinstance(obj, se.ForwardSerializable):
        try:
            obj._ensure_evaled()
        except Exception:
            pass
        yield "._wrapped", object.__getattribute__(obj, "_wrapped")
        return
    if isinstance(obj, type):
        if dataclasses.is_dataclass(obj):
            for f in dataclasses.fields(obj):
                if "spec" in f.metadata:
                    yield f".{f.name}<spec>", f.metadata["spec"]
        for k, v in sorted(vars(obj).items(), key=lambda kv: kv[0]):
            if k.startswith("__"):
                continue
            yield f".{k}", v
        return
    # instances
    seen_names = set()
    d = getattr(obj, "__dict__", None)
    if isinstance(d, dict):
        for k in sorted(d):
            seen_names.add(k)
            yield f".{k}", d[k]
    for klass in type(obj).__mro__:
        slots = klass.__dict__.get("__slots__", ())
        if isinstance(slots, str):
            slots = (slots,)
        for s in slots:
            if s in seen_names:
                continue
            seen_names.add(s)
            try:
                yield f".{s}", object.__getattribute__(obj, s)
            except AttributeError:
                pass


def _interesting(obj):
    if isinstance(obj, (dict, list, tuple)):
        return True
    if isinstance(obj, (str, bytes, int, float, bool, type(None), types.ModuleType, types.FunctionType,
                        types.BuiltinFunctionType, types.MethodType, property, staticmethod, classmethod)):
        return False
    mod = getattr(obj if isinstance(obj, type) else type(obj), "__module__", "") or ""
    return mod.startswith("hippolyzer")


def walk(roots, max_depth=40):
    """roots: list of (name, object). Yields (path, obj) once per object identity."""
    seen = set()
    stack = [(name, obj, 0) for name, obj in reversed(roots)]
    while stack:
        path, obj, depth = stack.pop()
        if id(obj) in seen or not _interesting(obj):
            continue
        seen.add(id(obj))
        yield path, obj
        if depth >= max_depth:
            continue
        try:
            kids = list(_children(obj))
        except Exception:
            kids = []
        for label, child in reversed(kids):
            stack.append((path + label, child, depth + 1))


def default_roots():
    import hippolyzer.lib.base.templates as templates
    import hippolyzer.lib.base.llanim as llanim
    import hippolyzer.lib.base.mesh as mesh
    import hippolyzer.lib.base.namevalue as namevalue
    import hippolyzer.lib.proxy.templates as ptemplates  # noqa: F401  (registers proxy-side serializers)
    roots = [("SUBFIELD_SERIALIZERS", se.SUBFIELD_SERIALIZERS)]
    for mod in (templates, llanim, mesh, namevalue):
        for k in sorted(vars(mod)):
            v = vars(mod)[k]
            if isinstance(v, types.ModuleType):
                continue
            if isinstance(v, type) and getattr(v, "__module__", "") != mod.__name__:
                continue
            roots.append((f"{mod.__name__.rsplit('.', 1)[-1]}.{k}", v))
    return roots
