"""A message template that is NOT the stock one: same message names and numbers, but a good share of the variables have
another wire type.  Every codec class takes a `message_template=` argument; checks use this to run the non-default
configuration side by side with the default one in the same process (anything remembered per message NAME across
instances then shows)."""
import io
import re

from . import env

env.import_repo()

from hippolyzer.lib.base.helpers import get_resource_filename  # noqa: E402

_SWAP = {"U32": "S32", "S32": "U32", "U64": "U32", "S64": "S32", "IPADDR": "U32", "U16": "U64", "LLVector3": "LLVector4",
         "LLQuaternion": "LLVector3", "F32": "F64", "BOOL": "U8", "LLVector4": "LLVector3", "S16": "S64"}
_VAR_RE = re.compile(r"^(\s*\{\s*\w+\s+)(" + "|".join(_SWAP) + r")(\s*\}.*)$")


def custom_template_text(variant=0):
    path = get_resource_filename("lib/base/message/data/message_template.msg")
    out = []
    n = 0
    with open(path) as f:
        for line in f:
            m = _VAR_RE.match(line.rstrip("\n"))
            if m:
                n += 1
                if (n + variant) % 2 == 0:
                    line = m.group(1) + _SWAP[m.group(2)] + m.group(3) + "\n"
            out.append(line)
    return "".join(out)


def custom_template_file(variant=0):
    return io.StringIO(custom_template_text(variant))


# ------------------------------------------------------------------ the stock dictionary must stay the stock dictionary
# Fingerprint of what the library's default template dictionary says, taken when this module is imported - i.e. before any
# check has built a second dictionary, serializer or deserializer on the custom template.

def _fingerprint():
    import hashlib
    from hippolyzer.lib.base.message.template_dict import DEFAULT_TEMPLATE_DICT
    h = hashlib.sha256()
    n = 0
    for tmpl in DEFAULT_TEMPLATE_DICT:
        n += 1
        h.update(repr((tmpl.name, str(tmpl.frequency), tmpl.num, [(b.name, str(b.block_type), b.number,
                                                                   [(v.name, str(v.type), v.size) for v in b.variables])
                                                                  for b in tmpl.blocks])).encode())
        h.update(repr((DEFAULT_TEMPLATE_DICT[tmpl.name] is tmpl,)).encode())      # the lookup by name leads to the same object
    return n, h.hexdigest()


STOCK_FINGERPRINT = _fingerprint()


def check_stock_unchanged(ctx):
    """Creating and using codec objects on another template must leave the stock dictionary (and so every stock codec
    object in the process) exactly as it was."""
    now = _fingerprint()
    ctx.count("stock_dictionary_fingerprints_compared")
    if now != STOCK_FINGERPRINT:
        ctx.violation("stock-template-dictionary-changed", "building / using codec objects on a caller-supplied template changed "
                      "the process-wide stock template dictionary", {"templates_before": STOCK_FINGERPRINT[0], "templates_now": now[0]})
