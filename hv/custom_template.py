"""A message template that is NOT the stock one: same message names and numbers, but a good share of the variables have
another wire type.  Every codec class takes a `message_template=` argument; checks use this to run the non-default
configuration side by side with the default one in the same process (anything remembered per message NAME across
instances then shows)."""
import io
import re

from . import env

env.import_repo()

from hippolyzer.lib.base.helpers import get_resource_filename  # noqa: E402

_SWAP = {"U32": "S32", "S32": "U32", "U64": "U32", "S64": "S32", "IPADDR": "U32", "U16": "U64", "LLVector3": "LLVector4",
         "LLQuaternion": "LLVector3", "F32": "F64", "BOOL": "U8", "LLVector4": "LLVector3", "S16": "S64"}
_VAR_RE = re.compile(r"^(\s*\{\s*\w+\s+)(" + "|".join(_SWAP) + r")(\s*\}.*)$")


def custom_template_text(variant=0):
    path = get_resource_filename("lib/base/message/data/message_template.msg")
    out = []
    n = 0
    with open(path) as f:
        for line in f:
            m = _VAR_RE.match(line.rstrip("\n"))
            if m:
                n += 1
                if (n + variant) % 2 == 0:
                    line = m.group(1) + _SWAP[m.group(2)] + m.group(3) + "\n"
            out.append(line)
    return "".join(out)


def custom_template_file(variant=0):
    return io.StringIO(custom_template_text(variant))
