"""In-process LLUDP proxy rig.

Real SessionManager / Session / ProxiedRegion / ProxiedCircuit / InterceptingLLUDPProxyProtocol with the REAL
SOCKS5UDPTransport, over a recording fake asyncio DatagramTransport (no sockets).  Datagrams are fed to
`datagram_received()` exactly as asyncio would; everything the proxy hands to `sendto()` is logged.
"""
import asyncio
import datetime as dt
import socket
import struct

from . import env

env.import_repo()

import hippolyzer.lib.proxy.sessions as sessions_mod  # noqa: E402
from hippolyzer.lib.base.datatypes import UUID  # noqa: E402
from hippolyzer.lib.proxy.addons import AddonManager  # noqa: E402
from hippolyzer.lib.proxy.lludp_proxy import InterceptingLLUDPProxyProtocol  # noqa: E402
from hippolyzer.lib.proxy.settings import ProxySettings  # noqa: E402


class _FakeQueue:
    def __init__(self):
        self.items = []

    def put(self, item, *a, **k):
        self.items.append(item)

    def put_nowait(self, item):
        self.items.append(item)

    def get(self, *a, **k):
        raise RuntimeError("fake queue")

    def empty(self):
        return not self.items


class _FakeEvent:
    def __init__(self):
        self._set = False

    def set(self):
        self._set = True

    def is_set(self):
        return self._set

    def clear(self):
        self._set = False


class FakeFlowContext:
    """Stands in for HTTPFlowContext (which allocates multiprocessing queues = file descriptors)."""

    def __init__(self):
        self.from_proxy_queue = _FakeQueue()
        self.to_proxy_queue = _FakeQueue()
        self.shutdown_signal = _FakeEvent()
        self.mitmproxy_ready = _FakeEvent()


def stub_flow_context():
    sessions_mod.HTTPFlowContext = FakeFlowContext


class FakeDatagramTransport:
    """Records sendto() calls under the real SOCKS5UDPTransport."""

    def __init__(self, log, name):
        self.log = log
        self.name = name
        self.closed = False

    def sendto(self, data, addr=None):
        self.log.append((self.name, bytes(data), addr))

    def close(self):
        self.closed = True

    def abort(self):
        self.closed = True

    def get_extra_info(self, name, default=None):
        return default


def socks_wrap(dst_addr, payload: bytes) -> bytes:
    """What a viewer's SOCKS5 client sends: RSV(2) FRAG(1) ATYP(1) ADDR(4) PORT(2) + data (independent reference)."""
    return b"\x00\x00\x00\x01" + socket.inet_aton(dst_addr[0]) + struct.pack(">H", dst_addr[1]) + payload


def socks_unwrap_ref(data: bytes):
    """Independent reference parser for the SOCKS5 UDP header (IPv4 only)."""
    if len(data) < 10 or data[0:3] != b"\x00\x00\x00" or data[3] != 1:
        return None
    return (socket.inet_ntoa(data[4:8]), struct.unpack(">H", data[8:10])[0]), data[10:]


class VirtualClock:
    """Controllable replacement for `dt.datetime.now()` inside hippolyzer.lib.base.message.circuit."""

    def __init__(self, start=None):
        self.now_value = start or dt.datetime(2024, 1, 1, 12, 0, 0)

    def advance(self, seconds):
        self.now_value += dt.timedelta(seconds=seconds)

    def install(self):
        import hippolyzer.lib.base.message.circuit as circuit_mod
        clock = self

        class _DT(dt.datetime):
            @classmethod
            def now(cls, tz=None):
                return clock.now_value

        class _Shim:
            datetime = _DT
            timedelta = dt.timedelta

        self._orig = circuit_mod.dt
        circuit_mod.dt = _Shim
        return self

    def uninstall(self):
        import hippolyzer.lib.base.message.circuit as circuit_mod
        circuit_mod.dt = self._orig


class Association:
    """One SOCKS5 UDP association = one proxy protocol instance = one viewer."""

    def __init__(self, rig, name, client_addr):
        self.rig = rig
        self.name = name
        self.client_addr = client_addr
        self.protocol = InterceptingLLUDPProxyProtocol(client_addr, rig.session_manager)
        self.fake = FakeDatagramTransport(rig.sendlog, name)
        self.protocol.connection_made(self.fake)
        # the periodic resend task is driven explicitly by the workloads (virtual time)
        self.protocol.resend_task.cancel()

    def from_viewer(self, sim_addr, payload: bytes):
        """Viewer -> proxy datagram (SOCKS framed). Returns the exception that escaped, if any."""
        return self.raw(socks_wrap(sim_addr, payload), self.client_addr)

    def from_sim(self, sim_addr, payload: bytes):
        return self.raw(payload, sim_addr)

    def raw(self, data: bytes, source_addr):
        try:
            self.protocol.datagram_received(data, source_addr)
        except (KeyboardInterrupt, SystemExit):
            raise
        except BaseException as e:   # asyncio would log and carry on (CancelledError is not an Exception)
            return e
        return None


class Rig:
    def __init__(self, addons=(), settings=None, swallow=True):
        stub_flow_context()
        try:
            self.loop = asyncio.get_event_loop_policy().get_event_loop()
            if self.loop.is_closed():
                raise RuntimeError
        except Exception:
            self.loop = asyncio.new_event_loop()
            asyncio.set_event_loop(self.loop)
        self.settings = settings or ProxySettings()
        self.session_manager = sessions_mod.SessionManager(self.settings)
        AddonManager.init([], self.session_manager, addon_objects=list(addons), swallow_addon_exceptions=swallow)
        self.sendlog = []       # (association name, data, addr)
        self.associations = []
        self._n = 0

    def add_session(self, sim_addr, circuit_code=None, handle_xy=(1000, 1000)):
        self._n += 1
        login = {
            "session_id": UUID(int=0x1000 + self._n), "secure_session_id": UUID(int=0x2000 + self._n),
            "agent_id": UUID(int=0x3000 + self._n), "circuit_code": circuit_code or (100000 + self._n),
            "sim_ip": sim_addr[0], "sim_port": sim_addr[1], "region_x": handle_xy[0], "region_y": handle_xy[1],
            "seed_capability": f"https://sim{self._n}.example.invalid:12043/cap/{self._n:04d}",
        }
        return self.session_manager.create_session(login)

    def add_association(self, client_addr):
        a = Association(self, f"assoc{len(self.associations)}", client_addr)
        self.associations.append(a)
        return a

    def run_loop_once(self):
        self.loop.run_until_complete(asyncio.sleep(0))

    def close(self):
        for a in self.associations:
            try:
                a.protocol.close()
            except Exception:
                pass
        try:
            self.run_loop_once()
        except Exception:
            pass
        AddonManager.shutdown()
        AddonManager.FRESH_ADDON_MODULES.clear()
