"""In-process HTTP rig: real SessionManager / Session / ProxiedRegion + MITMProxyEventManager, sharing a
PicklingQueue pair with (optionally) the real mitmproxy-side IPCInterceptionAddon.

PicklingQueue pickles and unpickles every item exactly as multiprocessing.Queue would, but synchronously and
without file descriptors, and keeps a log of everything that was put on it.
"""
import asyncio
import pickle
import queue

from . import env

env.import_repo()

import hippolyzer.lib.proxy.sessions as sessions_mod  # noqa: E402
from hippolyzer.lib.base.datatypes import UUID  # noqa: E402
from hippolyzer.lib.proxy.addons import AddonManager  # noqa: E402
from hippolyzer.lib.proxy.settings import ProxySettings  # noqa: E402

from mitmproxy.test import tflow, tutils  # noqa: E402
from mitmproxy.http import HTTPFlow, Headers  # noqa: E402,F401


class PicklingQueue:
    def __init__(self, name):
        self.name = name
        self.items = []
        self.log = []        # every item ever put (after the pickle round trip)

    def put(self, item, block=True, timeout=None):
        item = pickle.loads(pickle.dumps(item))
        self.items.append(item)
        self.log.append(item)

    def put_nowait(self, item):
        self.put(item)

    def get(self, block=True, timeout=None):
        if not self.items:
            raise queue.Empty()
        return self.items.pop(0)

    def get_nowait(self):
        return self.get(False)

    def empty(self):
        return not self.items

    def qsize(self):
        return len(self.items)


class _Event:
    def __init__(self):
        self._set = False

    def set(self):
        self._set = True

    def is_set(self):
        return self._set

    def clear(self):
        self._set = False


class PicklingFlowContext:
    def __init__(self):
        self.from_proxy_queue = PicklingQueue("from_proxy")
        self.to_proxy_queue = PicklingQueue("to_proxy")
        self.shutdown_signal = _Event()
        self.mitmproxy_ready = _Event()


class HTTPRig:
    def __init__(self, addons=(), swallow=True):
        sessions_mod.HTTPFlowContext = PicklingFlowContext
        try:
            self.loop = asyncio.get_event_loop_policy().get_event_loop()
            if self.loop.is_closed():
                raise RuntimeError
        except Exception:
            self.loop = asyncio.new_event_loop()
            asyncio.set_event_loop(self.loop)
        self.session_manager = sessions_mod.SessionManager(ProxySettings())
        self.flow_context = self.session_manager.flow_context
        AddonManager.init([], self.session_manager, addon_objects=list(addons), swallow_addon_exceptions=swallow)
        from hippolyzer.lib.proxy.http_event_manager import MITMProxyEventManager
        self.manager = MITMProxyEventManager(self.session_manager, self.flow_context)
        self._n = 0

    def add_session(self, sim_addr=("10.1.0.1", 13001), seed=None):
        self._n += 1
        login = {
            "session_id": UUID(int=0x1000 + self._n), "secure_session_id": UUID(int=0x2000 + self._n),
            "agent_id": UUID(int=0x3000 + self._n), "circuit_code": 100000 + self._n,
            "sim_ip": sim_addr[0], "sim_port": sim_addr[1], "region_x": 1000 + self._n, "region_y": 1000,
            "seed_capability": seed or f"https://sim{self._n}.example.invalid:12043/cap/seed-{self._n:04d}",
        }
        sess = self.session_manager.create_session(login)
        sess.pending = False
        return sess

    def pump(self):
        """One pump_proxy_event(); returns the exception that escaped, if any."""
        try:
            self.loop.run_until_complete(self.manager.pump_proxy_event())
        except Exception as e:
            return e
        return None

    def send_event(self, event_type, flow: HTTPFlow):
        self.flow_context.from_proxy_queue.put((event_type, flow.get_state()), True)

    def close(self):
        try:
            self.loop.run_until_complete(asyncio.sleep(0))
        except Exception:
            pass
        AddonManager.shutdown()
        AddonManager.FRESH_ADDON_MODULES.clear()


def make_flow(url, method=b"GET", content=b"", headers=None, resp=None, resp_content=None, status=200, resp_headers=None):
    from urllib.parse import urlsplit
    parts = urlsplit(url)
    scheme = parts.scheme.encode()
    port = parts.port or (443 if parts.scheme == "https" else 80)
    path = parts.path or "/"
    if parts.query:
        path += "?" + parts.query
    hdrs = Headers([(k.encode() if isinstance(k, str) else k, v.encode() if isinstance(v, str) else v)
                    for k, v in (headers or {}).items()])
    req = tutils.treq(method=method, scheme=scheme, host=parts.hostname, port=port, path=path.encode(),
                      authority=parts.netloc.encode(), content=content, headers=hdrs)
    response = None
    if resp or resp_content is not None:
        rh = Headers([(k.encode(), v.encode()) for k, v in (resp_headers or {"Content-Type": "application/llsd+xml"}).items()])
        response = tutils.tresp(status_code=status, content=resp_content if resp_content is not None else b"", headers=rh)
    flow = tflow.tflow(req=req, resp=response if response is not None else False)
    return flow
