"""Process environment for every harness process.

Puts HV_REPO (default /repo) first on sys.path, the harness-only deps (.deps) last (so they never
shadow the repository's own third-party packages), refuses to run against any other copy of
hippolyzer, never writes bytecode into the tree, and silences the library's logging unless a
monitor attaches its own handler.
"""
import faulthandler
import logging
import os
import sys
import warnings

HV_ROOT = os.environ.get("HV_ROOT") or os.path.dirname(os.path.dirname(os.path.abspath(__file__)))
HV_REPO = os.path.realpath(os.environ.get("HV_REPO", "/repo"))

_done = False


def setup():
    global _done
    if _done:
        return
    _done = True
    sys.dont_write_bytecode = True
    os.environ["PYTHONDONTWRITEBYTECODE"] = "1"
    os.environ.setdefault("HIPPOLYZER_VERIF", "1")
    if HV_REPO in sys.path:
        sys.path.remove(HV_REPO)
    sys.path.insert(0, HV_REPO)
    deps = os.path.join(HV_ROOT, ".deps")
    if deps not in sys.path:
        sys.path.append(deps)
    try:
        faulthandler.enable()
    except Exception:
        pass
    warnings.filterwarnings("ignore")
    logging.lastResort = None
    root = logging.getLogger()
    root.addHandler(logging.NullHandler())
    root.setLevel(logging.CRITICAL + 10)


def import_repo():
    """Import hippolyzer and make sure it is the tree under HV_REPO."""
    setup()
    import hippolyzer
    path = os.path.realpath(hippolyzer.__file__)
    if not path.startswith(HV_REPO + os.sep):
        raise RuntimeError(f"hippolyzer imported from {path}, expected under {HV_REPO}")
    return hippolyzer
