"""Template-directed LLUDP message generator.

Produces *specs* (plain JSON-able structures) and builds real `Message` objects from them, so any
generated case can be written to a replay file and rebuilt without the generator.

Spec: {"name", "flags", "packet_id", "acks": [...], "extra": bytes,
       "blocks": [[block_name, [ {var: value_spec, ...}, ... ] | None], ...]}   (template order)
A block entry with None means "block list absent" (trailing omitted).  A value spec is one of
  ["i", int] ["f", float] ["b", bytes] ["s", str] ["u", hex] ["ip", str]
  ["v3", [x,y,z]] ["v4", [..]] ["q", [x,y,z]] ["unset"]   (unset: left to default filling)
"""
import math
import struct

from . import env

env.import_repo()

from hippolyzer.lib.base.datatypes import UUID, Vector3, Vector4, Quaternion  # noqa: E402
from hippolyzer.lib.base.message.message import Message, Block  # noqa: E402
from hippolyzer.lib.base.message.msgtypes import MsgType, MsgBlockType, PacketFlags  # noqa: E402
from hippolyzer.lib.base.message.template_dict import DEFAULT_TEMPLATE_DICT  # noqa: E402

INT_RANGES = {
    MsgType.MVT_U8: (0, 2 ** 8 - 1), MsgType.MVT_U16: (0, 2 ** 16 - 1), MsgType.MVT_U32: (0, 2 ** 32 - 1),
    MsgType.MVT_U64: (0, 2 ** 64 - 1), MsgType.MVT_S8: (-2 ** 7, 2 ** 7 - 1), MsgType.MVT_S16: (-2 ** 15, 2 ** 15 - 1),
    MsgType.MVT_S32: (-2 ** 31, 2 ** 31 - 1), MsgType.MVT_S64: (-2 ** 63, 2 ** 63 - 1),
    MsgType.MVT_IP_PORT: (0, 2 ** 16 - 1), MsgType.MVT_BOOL: (0, 1),
}

F32_SPECIALS = [0.0, -0.0, 1.0, -1.0, 0.5, float("inf"), float("-inf"), 1e-45, -1e-45, 3.4028234663852886e+38,
                1.1754943508222875e-38, 255.0, 256.0, 1 / 3]
F64_SPECIALS = [0.0, -0.0, 1.0, -1.0, float("inf"), float("-inf"), 5e-324, 1.7976931348623157e308, 1 / 3, 1e100]

AWKWARD_TEXT = [
    "", "a", "hello world", "line1\nline2", "tab\there", "quote\"s and 'single'", "back\\slash", "trailing\\",
    "#comment-like", "<1, 2, 3>", "<not a vector", "00000000-0000-0000-0000-000000000000", "=$ evil", "[Block]",
    "embedded\x00nul", "unicode é中\U0001f600", "  leading space", "trailing space  ", "a=b", "x\r\ny",
    "\\\n", "'''", '"""', "\x7f\x01\x02", "ends with backslash n \\n",
    # text that also looks like something else: a byte-order mark in front, numbers, literals, a message name, separators
    "\ufeffabc", "\ufeff", "abc\ufeff", "123", "-1", "1e5", "0x10", "nan", "inf", "True", "None", "b'abc'", "ChatFromViewer",
    "\u2028line", "e\u0301", "(1, 2, 3)", "[[AGENT_ID]]",
]

AWKWARD_BYTES = [
    b"", b"\x00", b"\x00\x00", b"\xff", b"\xff\xfe\x00", b"abc", b"abc\x00\x00", b"\x00abc", b"\xc3\x28\x00",
    b"\x80\x00", b"a\x00b", b"\n", b"'\"\\", b"\x00" * 7,
]


def f32(x: float) -> float:
    """Round to the nearest float32-representable double (no NaN)."""
    try:
        return struct.unpack("<f", struct.pack("<f", x))[0]
    except OverflowError:
        return math.copysign(float("inf"), x)


def rand_f32(rng) -> float:
    r = rng.random()
    if r < 0.25:
        return f32(rng.choice(F32_SPECIALS))
    if r < 0.5:
        return f32(rng.uniform(-1000, 1000))
    if r < 0.6:
        return float(rng.randint(-300, 300))
    # random bit pattern, NaN-free
    while True:
        v = struct.unpack("<f", struct.pack("<I", rng.getrandbits(32)))[0]
        if v == v:
            return v


def rand_f64(rng) -> float:
    r = rng.random()
    if r < 0.25:
        return rng.choice(F64_SPECIALS)
    if r < 0.45:
        return rng.uniform(-1e6, 1e6)
    if r < 0.65:
        # doubles that are also exact singles / short binary fractions (what global coordinates and counters look like):
        # many decimal digits, few bits
        return rng.choice([f32(rng.uniform(-1e6, 1e6)), f32(rng.uniform(0, 300000)), rng.randrange(0, 1 << 24) / 16.0,
                           256123.4375, f32(0.1), rng.randrange(-(1 << 30), 1 << 30) / 1024.0])
    while True:
        v = struct.unpack("<d", struct.pack("<Q", rng.getrandbits(64)))[0]
        if v == v:
            return v


def rand_int(rng, lo, hi) -> int:
    r = rng.random()
    if r < 0.35:
        return rng.choice([lo, hi, 0 if lo <= 0 else lo, min(hi, 1), max(lo, -1), min(hi, lo + 1), max(lo, hi - 1),
                           min(hi, 255), min(hi, 256), min(hi, 0x7fffffff)])
    if r < 0.6:
        return rng.randint(max(lo, -300), min(hi, 300))
    return rng.randint(lo, hi)


def _is_canonical_bytes_for_text(b: bytes) -> bool:
    """bytes the decoder would hand back as bytes (not as str) for a text-named field."""
    if not b.endswith(b"\x00"):
        return True
    try:
        b.decode("utf8")
    except UnicodeDecodeError:
        return True
    return False


def rand_bytes(rng, max_len, text_like=False):
    r = rng.random()
    if r < 0.2:
        b = rng.choice(AWKWARD_BYTES)
    elif r < 0.3:
        b = b""
    elif r < 0.4:
        b = bytes(rng.getrandbits(8) for _ in range(max_len if max_len <= 255 else rng.choice([255, 256, 300, 1000])))
    elif r < 0.5:
        n = rng.randint(0, min(max_len, 40))
        b = bytes(rng.choice([0, 0, 0, 1, 0xff, rng.getrandbits(8)]) for _ in range(n))
    else:
        b = bytes(rng.getrandbits(8) for _ in range(rng.randint(0, min(max_len, 24))))
    b = b[:max_len]
    if text_like and not _is_canonical_bytes_for_text(b):
        # make it something the decoder keeps as bytes: drop the terminator(s)
        b = b.rstrip(b"\x00")
    return b


def rand_text(rng, max_len, xml_safe=False):
    """A str in the decoder's canonical form: no trailing NUL, encoded length + NUL <= max_len."""
    if max_len < 1:
        return None
    r = rng.random()
    if r < 0.45:
        s = rng.choice(AWKWARD_TEXT)
    elif r < 0.55:
        s = "x" * (max_len - 1 if max_len <= 255 else rng.choice([254, 255, 256, 700]))
    else:
        alphabet = "abc XYZ019_-.,:;!?/\\'\"\n\t#<>=[]{}$|é中\x00"
        s = "".join(rng.choice(alphabet) for _ in range(rng.randint(0, 30)))
    if xml_safe:
        s = "".join(c for c in s if c in "\n\t" or (ord(c) >= 0x20 and c != "\x7f")).replace("\r", "")
    while len(s.encode("utf8")) + 1 > max_len:
        s = s[:-1]
    s = s.rstrip("\x00")
    return s


def var_max_len(var) -> int:
    if var.type == MsgType.MVT_FIXED:
        return var.size
    return (1 << (8 * var.size)) - 1


_TEXT_HINTS = ("Name", "Text", "Title", "Description", "Message", "Label", "Method", "Filename")
_BINARY_HINTS = ("Binary", "Data", "Handle", "Color", "Texture", "Params", "NameValue")


def is_text_like(var):
    """The harness's own copy of the naming convention that decides which Fixed/Variable fields the codec presents as
    text (a field matching a binary hint is never text).  Deliberately not read from the template object under test:
    the scope of a check must not move with the code it checks."""
    if var.type not in (MsgType.MVT_FIXED, MsgType.MVT_VARIABLE):
        return False
    if any(h in var.name for h in _BINARY_HINTS):
        return False
    return any(h in var.name for h in _TEXT_HINTS)


STATS = {"bool_bytes": 0}


def gen_value(rng, var, opts):
    """Return a value spec for one template variable, in the variable's wire domain."""
    t = var.type
    if t in INT_RANGES and t != MsgType.MVT_BOOL:
        lo, hi = INT_RANGES[t]
        return ["i", rand_int(rng, lo, hi)]
    if t == MsgType.MVT_BOOL:
        # a BOOL is one byte on the wire; callers that ask for it (round 11) also get the bytes that are neither 0 nor 1
        if opts.get("bool_bytes") and rng.random() < 0.25:
            STATS["bool_bytes"] += 1
            return ["i", rng.choice([2, 255, rng.randint(2, 255)])]
        return ["i", rng.randint(0, 1)]
    if t == MsgType.MVT_F32:
        return ["f", rand_f32(rng)]
    if t == MsgType.MVT_F64:
        return ["f", rand_f64(rng)]
    if t == MsgType.MVT_LLVector3:
        return ["v3", [rand_f32(rng) for _ in range(3)]]
    if t == MsgType.MVT_LLVector3d:
        return ["v3", [rand_f64(rng) for _ in range(3)]]
    if t == MsgType.MVT_LLVector4:
        return ["v4", [rand_f32(rng) for _ in range(4)]]
    if t == MsgType.MVT_LLQuaternion:
        if rng.random() < 0.6:
            # something like a unit quaternion's vector part
            return ["q", [f32(rng.uniform(-0.57, 0.57)) for _ in range(3)]]
        return ["q", [rand_f32(rng) for _ in range(3)]]
    if t == MsgType.MVT_LLUUID:
        r = rng.random()
        if r < 0.1:
            return ["u", "00000000-0000-0000-0000-000000000000"]
        if r < 0.15:
            return ["u", "ffffffff-ffff-ffff-ffff-ffffffffffff"]
        return ["u", str(UUID(int=rng.getrandbits(128)))]
    if t == MsgType.MVT_IP_ADDR:
        return ["ip", ".".join(str(rng.choice([0, 1, 127, 255, rng.randint(0, 255)])) for _ in range(4))]
    if t == MsgType.MVT_FIXED:
        n = var.size
        text_like = is_text_like(var)
        if text_like and n >= 1 and rng.random() < 0.3 and not opts.get("bytes_only"):
            return ["s", "".join(rng.choice("abcXYZ09") for _ in range(n - 1))]
        b = bytes(rng.choice([0, 0xff, rng.getrandbits(8)]) for _ in range(n))
        if text_like and not _is_canonical_bytes_for_text(b):
            b = b[:-1] + b"\x01"
        return ["b", b]
    if t == MsgType.MVT_VARIABLE:
        max_len = min(var_max_len(var), opts.get("max_var_len", 1 << 16))
        text_like = is_text_like(var)
        if text_like and not opts.get("bytes_only") and rng.random() < 0.7:
            s = rand_text(rng, max_len, xml_safe=opts.get("xml_safe", False))
            if s is not None:
                return ["s", s]
        return ["b", rand_bytes(rng, max_len, text_like=text_like)]
    raise ValueError(f"unhandled type {t}")


def build_value(vs):
    kind = vs[0]
    if kind in ("i", "f", "b", "s", "ip"):
        return vs[1]
    if kind == "u":
        return UUID(vs[1])
    if kind == "v3":
        return Vector3(*vs[1])
    if kind == "v4":
        return Vector4(*vs[1])
    if kind == "q":
        return Quaternion(*vs[1])
    raise ValueError(kind)


def choose_count(rng, tmpl_block, opts):
    if tmpl_block.block_type == MsgBlockType.MBT_SINGLE:
        return 1
    if tmpl_block.block_type == MsgBlockType.MBT_MULTIPLE:
        return tmpl_block.number
    r = rng.random()
    if r < 0.2:
        return 0
    if r < 0.55:
        return 1
    if r < 0.75:
        return rng.choice([2, 3])
    if r < 0.93:
        return rng.randint(0, 20)
    small = sum(v.type.size if v.type.size > 0 else 2 for v in tmpl_block.variables) <= opts.get("small_block", 24)
    return 255 if small else rng.randint(4, 40)


def _maybe_all_falsy(tb, ent, opts):
    """One entry in sixteen carries the 'nothing' value of every field's type at once (0, 0.0, zero vector, zero UUID, 0.0.0.0,
    empty string): legitimate values that `if x:` style code treats as absent. Decided from the entry's own content, so the
    random stream of the caller is the same with and without this."""
    import zlib
    if zlib.crc32(repr(sorted(ent.items())).encode("utf8", "replace")) % 16:
        return
    for var in tb.variables:
        vs = ent[var.name]
        kind = vs[0]
        if kind == "i":
            ent[var.name] = ["i", 0]
        elif kind == "f":
            ent[var.name] = ["f", 0.0]
        elif kind in ("v3", "v4", "q"):
            ent[var.name] = [kind, [0.0] * len(vs[1])]
        elif kind == "u":
            ent[var.name] = ["u", "00000000-0000-0000-0000-000000000000"]
        elif kind == "ip":
            ent[var.name] = ["ip", "0.0.0.0"]
        elif var.type == MsgType.MVT_VARIABLE and kind == "s":
            ent[var.name] = ["s", ""]
        elif var.type == MsgType.MVT_VARIABLE and kind == "b":
            ent[var.name] = ["b", b""]


def gen_spec(rng, tmpl, opts=None):
    """Generate one message spec for a template."""
    opts = opts or {}
    blocks = []
    nblocks = len(tmpl.blocks)
    # trailing omission: only Single blocks at the tail, never the whole message
    omit_from = nblocks
    if nblocks > 1 and rng.random() < opts.get("p_omit", 0.12):
        k = nblocks
        while k > 1 and tmpl.blocks[k - 1].block_type == MsgBlockType.MBT_SINGLE and rng.random() < 0.7:
            k -= 1
        omit_from = k
    fill = opts.get("fill_missing", False)
    for bi, tb in enumerate(tmpl.blocks):
        if bi >= omit_from:
            blocks.append([tb.name, None])
            continue
        n = choose_count(rng, tb, opts)
        entries = []
        for ei in range(n):
            ent = {}
            for var in tb.variables:
                # "mixed marks": the first entry of a list is complete (and will not be marked for filling)
                if fill and not (opts.get("fill_mixed") and ei == 0) and rng.random() < opts.get("p_unset", 0.4):
                    ent[var.name] = ["unset"]
                else:
                    ent[var.name] = gen_value(rng, var, opts)
            _maybe_all_falsy(tb, ent, opts)
            entries.append(ent)
        blocks.append([tb.name, entries])

    flags = 0
    for bit in (PacketFlags.ZEROCODED, PacketFlags.RELIABLE, PacketFlags.RESENT, PacketFlags.ACK):
        if rng.random() < 0.4:
            flags |= int(bit)
    if rng.random() < opts.get("p_lowbits", 0.15):
        flags |= rng.randint(1, 15)
    if opts.get("flags") is not None:
        flags = opts["flags"]
    acks = []
    if flags & int(PacketFlags.ACK):
        n = rng.choice([0, 1, 1, 2, 3, rng.randint(0, 30), 255])
        acks = [rng.choice([0, 1, 2 ** 31, 2 ** 32 - 1, rng.getrandbits(32)]) for _ in range(n)]
    extra = b""
    if rng.random() < opts.get("p_extra", 0.2):
        n = rng.choice([1, 2, 4, rng.randint(1, 40), 255])
        extra = bytes(rng.choice([0, 0, 1, 0xff, rng.getrandbits(8)]) for _ in range(n))
        if rng.random() < 0.3:
            # isolated zeros (each one doubles in size when the message is zero-coded), zeros only, no zeros at all
            n = rng.choice([6, 7, 8, 11, 12, 16, 24])
            extra = rng.choice([bytes([0, 7] * n)[:n], bytes([7, 0] * n)[:n], bytes(n), bytes([9] * n)])
    packet_id = rng.choice([0, 1, 2, 2 ** 31, 2 ** 32 - 1, rng.getrandbits(32), rng.randint(1, 100000)])
    return {"name": tmpl.name, "flags": flags, "packet_id": packet_id, "acks": acks, "extra": extra,
            "blocks": blocks, "fill": fill, "fill_mixed": bool(fill and opts.get("fill_mixed"))}


def approx_body_size(spec, tmpl=None) -> int:
    tmpl = tmpl or DEFAULT_TEMPLATE_DICT[spec["name"]]
    total = 4 + len(spec["extra"])
    for (bname, entries) in spec["blocks"]:
        if entries is None:
            continue
        tb = tmpl.get_block(bname)
        total += 1
        for ent in entries:
            for var in tb.variables:
                vs = ent[var.name]
                if var.type.size > 0:
                    total += var.type.size
                elif vs[0] == "b":
                    total += len(vs[1]) + 2
                elif vs[0] == "s":
                    total += len(vs[1].encode("utf8")) + 3
                else:
                    total += var.size if var.type == MsgType.MVT_FIXED else 2
    return total


def build_message(spec) -> Message:
    """Build the real Message for a spec (direction OUT)."""
    blocks = []
    empty_lists = []
    for (bname, entries) in spec["blocks"]:
        if entries is None:
            continue
        if not entries:
            empty_lists.append(bname)
        for ei, ent in enumerate(entries):
            kwargs = {k: build_value(v) for k, v in ent.items() if v[0] != "unset"}
            mark = bool(spec.get("fill"))
            if spec.get("fill_mixed"):
                # the mark is a per-block property: complete blocks are left unmarked here, incomplete ones are marked
                mark = any(v[0] == "unset" for v in ent.values())
            blocks.append(Block(bname, fill_missing=mark, **kwargs))
    msg = Message(spec["name"], packet_id=spec["packet_id"], flags=spec["flags"], acks=tuple(spec["acks"]))
    # keep template order, including present-but-empty block lists
    for (bname, entries) in spec["blocks"]:
        if entries is None:
            continue
        msg.create_block_list(bname)
    for b in blocks:
        msg.add_block(b)
    if spec["extra"]:
        msg.extra = spec["extra"]
    return msg


def shape_key(spec):
    """(message, block-count vector, flag set, acks?, extra?, fill pattern) - the distinctness rule."""
    counts = tuple(-1 if e is None else len(e) for (_, e) in spec["blocks"])
    unset = tuple(sorted({k for (_, e) in spec["blocks"] if e for ent in e for k, v in ent.items() if v[0] == "unset"}))
    return (spec["name"], counts, spec["flags"], len(spec["acks"]), len(spec["extra"]), unset)


def all_templates():
    return list(DEFAULT_TEMPLATE_DICT)


def limit_for_zerocode(rng, tmpl, opts, cap=0x2800, tries=8):
    """Generate a spec whose body stays under the zero-coding expansion cap when ZEROCODED is set
    (the cap itself is C03's subject, not C01's)."""
    for _ in range(tries):
        spec = gen_spec(rng, tmpl, opts)
        if not (spec["flags"] & int(PacketFlags.ZEROCODED)) or approx_body_size(spec, tmpl) <= cap:
            return spec
        opts = dict(opts, max_var_len=64, small_block=0)
    spec["flags"] &= ~int(PacketFlags.ZEROCODED)
    return spec
