"""C16 - capability URLs are attributed to the right cap, region and session.

Shadow-model monitor: an ordered list of grants per region is stepped in lock-step with the real
SessionManager / Session / ProxiedRegion under random operation sequences (seed grants - directly and through real
Seed request / response flows pumped through MITMProxyEventManager -, temporary / wrapper / proxy-only
registrations, lookups by name and by URL).
"""
import random

from .. import env

env.import_repo()

import hippolyzer.lib.base.llsd as llsd  # noqa: E402
from hippolyzer.lib.proxy.caps import CapType, is_asset_server_cap_name  # noqa: E402
from hippolyzer.lib.proxy.http_flow import HippoHTTPFlow  # noqa: E402

from ..harness_http import HTTPRig, make_flow  # noqa: E402

LEVEL = "exploration"
SHARDS = {"quick": 8, "thorough": 16}
TIMEOUT_S = {"quick": 600, "thorough": 3000}
BUDGET_S = {"quick": 120, "thorough": 1500}
RULE = ("random operation sequences of length 40 over 2 sessions x 3 regions: seed grants (repeated, overlapping names, "
        "prefix-related URLs, the same URL under several names / regions), Seed request+response flows through the real "
        "event manager, temporary / wrapper / proxy-only registrations (incl. repeated ones), lookups by name, resolution of "
        "granted URLs with suffixes and of unrelated URLs. quick 8 x 60 sequences, thorough 16 x 3000. distinct_nontrivial = distinct operation sequences + distinct (operation, outcome class) pairs"
        ". Round-5 additions: regions known by address and handle only whose seed arrives later; re-announcement of a known region with a fresh seed, the current one or an older one (A,B,A); the main grid's grid-wide asset URLs granted to several regions; no two regions may be shown the same wrapper URL"
        ". Round 7: the process clock is advanced by minutes / an hour / a day between steps (grants do not wear out); several proxy-only capabilities adjacent in the viewer's Seed request"
        ". Round 9: a proxy-only capability registered by an addon's request hook while the Seed request that names it passes through"
        ". Round 10: the simulator grants (unasked) a capability under a name an addon registered as proxy-only; the name stays out of later upstream requests and is presented")
ASSUMPTIONS = [
    "when several granted URLs are prefixes of a request URL any of them is an acceptable attribution",
    "asset-server caps (GetMesh*, GetTexture*, ViewerAsset*) that are not wrappers may resolve without region/session "
    "(they are global on the production grid)",
    "cap URLs are http(s) strings (anything else in a seed response is ignored by design)",
]
MUST_REACH = {"simulator_grants_under_a_proxy_only_name": 20, "proxy_only_caps_registered_by_a_request_hook": 30, "resolutions_checked": 2000, "name_lookups_checked": 1000, "temporary_caps_consumed": 50,
              "seed_flows": 100, "proxy_only_stripped": 30, "wrapper_caps_checked": 30, "proxy_cap_reregistrations": 30,
              "prefix_related_resolutions": 50, "regranted_names": 30, "old_urls_regranted": 20, "name_lookups_after_consumption_with_survivors": 10, "wrapper_redirects_checked": 30,
              "regions_reannounced": 50, "old_seeds_regranted": 10, "regions_registered_without_seed": 10,
              "grid_wide_asset_urls_granted": 20, "wrapper_uniqueness_checks": 30, "clock_advances": 50, "seed_requests_with_adjacent_proxy_only_caps": 40}

NAMES = ["Seed2", "EventQueueGet", "FetchInventory2", "GetTexture", "GetMesh2", "ViewerAsset", "UpdateScriptAgent",
         "ObjectMedia", "SimulatorFeatures", "UploadBakedTexture"]
PROXY_NAMES = ["HippoAlpha", "HippoBeta", "HippoGamma"]


class MRegion:
    def __init__(self, sess_idx, idx, region, seed_url):
        self.sess_idx = sess_idx
        self.idx = idx
        self.region = region
        self.grants = [("Seed", seed_url, CapType.NORMAL)] if seed_url else []    # newest first
        self.addr = region.circuit_addr

    def add(self, name, url, cap_type):
        self.grants.insert(0, (name, url, cap_type))

    def newest(self, name):
        for (n, u, t) in self.grants:
            if n == name:
                return u, t
        return None


def rand_url(rng, regions):
    base = f"https://sim{rng.randint(1, 3)}.example.invalid:12043/cap/{rng.getrandbits(32):08x}"
    r = rng.random()
    # (Seed URLs are unique per region by construction of the grid; they are never re-granted under another name)
    existing = [u for m in regions for (n, u, t) in m.grants if u.startswith("http") and n != "Seed" and
                t in (CapType.NORMAL, CapType.TEMPORARY)]     # the simulator never hands out the proxy's own URLs
    if existing and r < 0.2:
        return rng.choice(existing) + rng.choice(["a", "/x", "0", "-ext"])    # prefix-related
    if existing and r < 0.3:
        return rng.choice(existing)                                           # the very same URL again
    return base


def check_resolve(ctx, rig, regions, sessions, url, wit):
    ctx.ev()
    ctx.count("resolutions_checked")
    cands = []
    for m in regions:
        for (n, u, t) in m.grants:
            if url.startswith(u):
                cands.append((m, n, u, t))
    try:
        res = rig.session_manager.resolve_cap(url)
    except Exception as e:
        ctx.violation("resolve-raises", "resolve_cap raised", dict(wit, url=url, exc=repr(e)[:300]))
        return
    if len({c[2] for c in cands}) > 1:
        ctx.count("prefix_related_resolutions")
    if not cands:
        if res:
            ctx.violation("resolved-ungranted-url", "a URL that extends no granted capability resolved to one",
                          dict(wit, url=url, got=repr(res)[:200]))
        return
    if not res:
        ctx.violation("granted-url-unresolved", "a URL extending a granted capability did not resolve", dict(wit, url=url,
                      candidates=[(c[1], c[2], c[3].name) for c in cands][:4]))
        return
    got_region = res.region() if res.region else None
    got_session = res.session() if res.session else None
    match = None
    for (m, n, u, t) in cands:
        if res.cap_name != n or res.base_url != u or res.type != t:
            continue
        region_ok = got_region is m.region and got_session is sessions[m.sess_idx]
        asset_ok = is_asset_server_cap_name(n) and t != CapType.WRAPPER and got_region is None and got_session is None
        if region_ok or asset_ok:
            match = (m, n, u, t)
            break
    if match is None:
        ctx.violation("misattributed", "a URL resolved to a name/type/region/session that is not a granted capability it extends",
                      dict(wit, url=url, got=(res.cap_name, res.base_url, res.type.name,
                                              str(got_region.circuit_addr) if got_region else None),
                           candidates=[(c[1], c[2], c[3].name, c[0].idx) for c in cands][:4]))
        return
    m, n, u, t = match
    if t != CapType.TEMPORARY:
        # resolution of anything but a one-shot capability is repeatable
        try:
            res2 = rig.session_manager.resolve_cap(url)
            ctx.count("resolutions_repeated")
            if res2 is None or (res2.cap_name, res2.base_url, res2.type) != (res.cap_name, res.base_url, res.type) or \
                    (res2.region and res2.region()) is not (res.region and res.region()):
                ctx.violation("resolution-not-repeatable", "resolving the same URL twice gave different attributions",
                              dict(wit, url=url, first=(res.cap_name, res.base_url), second=None if res2 is None else (res2.cap_name, res2.base_url)))
        except Exception as e:
            ctx.violation("resolve-raises", "resolve_cap raised", dict(wit, url=url, exc=repr(e)[:300]))
    if t == CapType.TEMPORARY:
        # one-shot: consumed by this resolution
        m.grants.remove((n, u, t))
        ctx.count("temporary_caps_consumed")
        try:
            again = rig.session_manager.resolve_cap(url)
        except Exception as e:
            again = None
            ctx.violation("resolve-raises", "resolve_cap raised", dict(wit, url=url, exc=repr(e)[:300]))
        # what the model still holds after this one grant was used up (the same cap may have been granted twice)
        remaining = [(mm, g) for mm in regions for g in mm.grants if url.startswith(g[1])]
        if again and again.type == CapType.TEMPORARY:
            hit = None
            for mm, g in remaining:
                if g[0] == again.cap_name and g[1] == again.base_url and g[2] == CapType.TEMPORARY:
                    hit = (mm, g)
                    break
            if hit is None:
                ctx.violation("temporary-cap-resolved-twice", "a one-shot capability resolved a second time", dict(wit, url=url))
            else:
                hit[0].grants.remove(hit[1])
        # consuming one grant must leave the name pointing at the most recent of the remaining ones
        if sum(1 for g in m.grants if g[0] == n) >= 2:
            ctx.count("name_lookups_after_consumption_with_survivors")
        check_name_lookup(ctx, m, n, wit)
    ctx.nontrivial(("resolve", n if n in NAMES + PROXY_NAMES else "other", t.name, len(cands) > 1))


def check_name_lookup(ctx, m, name, wit):
    ctx.count("name_lookups_checked")
    want = m.newest(name)
    urls = m.region.cap_urls
    got = urls.get(name)
    got_caps = m.region.caps.get(name)
    if want is None:
        if got is not None:
            ctx.violation("name-lookup-phantom", "lookup by name returned a URL for a name that was never granted",
                          dict(wit, name=name, got=got))
        return
    if got != want[0] or got_caps is None or got_caps[1] != want[0] or got_caps[0] != want[1]:
        ctx.violation("name-lookup-not-most-recent", "lookup by name did not yield the most recently granted URL",
                      dict(wit, name=name, got=got, want=want[0], grants=[g for g in m.grants if g[0] == name][:4]))
    if sum(1 for g in m.grants if g[0] == name) > 1:
        ctx.count("regranted_names")
    ctx.nontrivial(("name", name))


def check_wrapper_unique(ctx, regions, m, name, wurl, wit):
    """The wrapper URL exists to tell regions apart where the granted URL cannot: no two regions may be shown the same one."""
    ctx.count("wrapper_uniqueness_checks")
    for other in regions:
        if other is m:
            continue
        if any(u == wurl for (n, u, t) in other.grants if t == CapType.WRAPPER):
            ctx.violation("wrapper-url-shared-between-regions", "two regions were given the same wrapper URL", dict(
                wit, name=name, wrapper=wurl, other_region=other.idx, other_session=other.sess_idx))
            return


def check_wrapper_stands_for(ctx, rig, name, granted_url, wrapper_url, wit):
    """A request the viewer makes through the presented wrapper URL must end up at the URL the simulator granted."""
    import copy
    import urllib.parse
    suffix = "/?texture_id=00000000-0000-0000-0000-00000000abcd"
    flow = make_flow(wrapper_url + suffix)
    rig.flow_context.to_proxy_queue.log.clear()
    rig.send_event("request", flow)
    exc = rig.pump()
    if exc is not None or len(rig.flow_context.to_proxy_queue.log) != 1:
        ctx.violation("wrapper-request-not-handed-back", "a request through a wrapper URL was not handed back once",
                      dict(wit, name=name, exc=repr(exc)[:200]))
        return
    back = HippoHTTPFlow.from_state(copy.deepcopy(rig.flow_context.to_proxy_queue.log[-1][2]), rig.session_manager)
    if back.response is not None and back.response.status_code in (301, 302, 307, 308):
        target = back.response.headers.get("Location", "")
    else:
        target = back.request.url
    ctx.count("wrapper_redirects_checked")
    got = urllib.parse.urlsplit(target)
    want = urllib.parse.urlsplit(granted_url + suffix)
    def_port = {"http": 80, "https": 443}
    got_port = got.port or def_port.get(got.scheme)
    want_port = want.port or def_port.get(want.scheme)
    # the wrapper forces plain http, so a granted https URL on its default port is reached on http's default port
    ports_ok = got_port == want_port or (want.port is None and got.port is None)
    if (got.hostname, got.path, got.query) != (want.hostname, want.path, want.query) or not ports_ok:
        ctx.violation("wrapper-does-not-stand-for-granted-url", "a request through the wrapper URL shown to the viewer does not "
                      "end up at the asset URL the simulator granted", dict(wit, name=name, granted=granted_url,
                                                                         wrapper=wrapper_url, target=target))


class LateCapAddon:
    """An addon that provides a capability of its own and registers it the moment it first sees a region's Seed request go by
    (its request hook) - as good a moment as any other before the request leaves for the simulator."""
    def __init__(self):
        self.arm = None
        self.registered = None

    def handle_http_request(self, session_manager, flow):
        cd = flow.cap_data
        if self.arm and cd is not None and cd.cap_name == "Seed" and cd.region and cd.region() is not None:
            name, self.arm = self.arm, None
            self.registered = (name, cd.region().register_proxy_cap(name))


LATE = LateCapAddon()


def seed_flow(ctx, rng, rig, m, regions, sessions, wit):
    """A Seed request (viewer -> sim) and response (sim -> viewer) through the real event manager."""
    ctx.count("seed_flows")
    if rng.random() < 0.4:
        # several addons each providing a capability of their own
        for name in rng.sample(PROXY_NAMES, rng.randint(2, 3)):
            prev = m.newest(name)
            if prev is None or prev[1] != CapType.PROXY_ONLY:
                try:
                    m.add(name, m.region.register_proxy_cap(name), CapType.PROXY_ONLY)
                except Exception as e:
                    ctx.violation("register-proxy-cap-raises", "register_proxy_cap raised", dict(wit, exc=repr(e)[:200]))
                    return
    seed_url = m.newest("Seed")[0]
    proxy_only = [n for (n, u, t) in m.grants if t == CapType.PROXY_ONLY]
    proxy_only_names = sorted(set(proxy_only))
    requested = rng.sample(NAMES, rng.randint(1, len(NAMES)))
    if len(proxy_only_names) >= 2 and rng.random() < 0.5:
        # the proxy's own capabilities next to each other in the viewer's list (two or three in a row)
        at = rng.randrange(len(requested) + 1)
        run = list(proxy_only_names)
        rng.shuffle(run)
        requested[at:at] = run
        ctx.count("seed_requests_with_adjacent_proxy_only_caps")
    else:
        for n in proxy_only_names:
            if rng.random() < 0.8:
                requested.insert(rng.randrange(len(requested) + 1), n)
    late = None
    fresh = [n for n in PROXY_NAMES + ["HippoDelta"] if m.newest(n) is None]
    if fresh and rng.random() < 0.3:
        # one more proxy-only capability, registered by an addon's request hook while this very request passes through
        late = rng.choice(fresh)
        requested.insert(rng.randrange(len(requested) + 1), late)
        LATE.arm, LATE.registered = late, None
    flow = make_flow(seed_url, method=b"POST", content=llsd.format_xml(requested))
    rig.flow_context.to_proxy_queue.log.clear()
    rig.send_event("request", flow)
    exc = rig.pump()
    LATE.arm = None
    if exc is not None or len(rig.flow_context.to_proxy_queue.log) != 1:
        ctx.violation("seed-request-not-handed-back", "the Seed request was not handed back once", dict(wit, exc=repr(exc)[:200]))
        return
    if late is not None:
        if LATE.registered is None or LATE.registered[0] != late:
            ctx.inconclusive_because("the addon's request hook did not see the Seed request")
            return
        m.add(late, LATE.registered[1], CapType.PROXY_ONLY)
        proxy_only_names = sorted(set(proxy_only_names) | {late})
        ctx.count("proxy_only_caps_registered_by_a_request_hook")
    import copy
    _, _, state = rig.flow_context.to_proxy_queue.log[-1]
    back = HippoHTTPFlow.from_state(copy.deepcopy(state), rig.session_manager)
    upstream = llsd.parse_xml(back.request.content)
    want_upstream = [n for n in requested if n not in proxy_only_names]
    stripped = [n for n in requested if n in proxy_only_names]
    if stripped:
        ctx.count("proxy_only_stripped")
    if sorted(upstream) != sorted(want_upstream):
        ctx.violation("seed-request-rewrite-wrong", "the upstream Seed request is not the viewer's request minus the proxy-only caps",
                      dict(wit, requested=requested, upstream=upstream, proxy_only=proxy_only_names))
        return
    # simulator's answer
    granted = {}
    for n in upstream:
        if rng.random() < 0.9:
            granted[n] = rand_url(rng, regions)
            if n in ("GetTexture", "GetMesh2", "ViewerAsset") and rng.random() < 0.5:
                # on the main grid the asset capabilities are the same CDN URL for every region and every avatar
                granted[n] = f"http://asset-cdn.example.invalid/cap/{n.lower()}"
                ctx.count("grid_wide_asset_urls_granted")
    if proxy_only_names and rng.random() < 0.2:
        # overlapping names: the simulator grants (unasked) a capability under a name an addon registered as proxy-only. The
        # registration stands - the name is still the proxy's to answer and is still kept out of later requests upstream
        pn = rng.choice(proxy_only_names)
        if pn not in granted:
            granted[pn] = rand_url(rng, regions)
            ctx.count("simulator_grants_under_a_proxy_only_name")
    if rng.random() < 0.1:
        granted["NotAUrl"] = 5
    # the mitmproxy side keeps its own flow object, updated from the callback state (cap data in serialized form)
    from mitmproxy.http import HTTPFlow
    mitm_flow = HTTPFlow.from_state(copy.deepcopy(state))
    mitm_flow.response = make_flow("http://x.invalid/", resp=True, resp_content=llsd.format_xml(granted)).response
    rig.flow_context.to_proxy_queue.log.clear()
    rig.send_event("response", mitm_flow)
    exc = rig.pump()
    if exc is not None or len(rig.flow_context.to_proxy_queue.log) != 1:
        ctx.violation("seed-response-not-handed-back", "the Seed response was not handed back once", dict(wit, exc=repr(exc)[:200]))
        return
    _, _, state = rig.flow_context.to_proxy_queue.log[-1]
    back2 = HippoHTTPFlow.from_state(copy.deepcopy(state), rig.session_manager)
    shown = llsd.parse_xml(back2.response.content)
    # model: every http grant is recorded (newest first, in the order the response lists them)
    for n, u in granted.items():
        if isinstance(u, str) and u.startswith("http"):
            m.add(n, u, CapType.NORMAL)
    wrappable = {"GetMesh2", "GetMesh", "GetTexture", "ViewerAsset"}
    for n, u in granted.items():
        if n not in shown:
            ctx.violation("seed-response-cap-lost", "a capability the simulator granted is missing from the rewritten seed response",
                          dict(wit, name=n))
            continue
        if n in wrappable:
            ctx.count("wrapper_caps_checked")
            wurl = shown[n]
            m.add(n + "ProxyWrapper", wurl, CapType.WRAPPER)
            check_wrapper_unique(ctx, regions, m, n, wurl, wit)
            if wurl == u:
                ctx.violation("asset-cap-not-wrapped", "an asset capability was shown to the viewer without a wrapper URL",
                              dict(wit, name=n))
            else:
                check_wrapper_stands_for(ctx, rig, n, u, wurl, wit)
        elif shown[n] != u:
            ctx.violation("seed-response-url-changed", "a granted capability URL was changed in the rewritten seed response",
                          dict(wit, name=n, shown=shown[n], granted=u))
    for n in stripped:
        want = m.newest(n)
        if n not in shown or shown[n] != want[0]:
            ctx.violation("proxy-only-cap-not-presented", "a requested proxy-only capability is missing from the rewritten seed response",
                          dict(wit, name=n, shown=shown.get(n), want=want[0] if want else None, requested=requested))
    extra = set(shown) - set(granted) - set(stripped)
    if extra:
        ctx.violation("seed-response-extra-caps", "the rewritten seed response contains capabilities nobody granted or requested",
                      dict(wit, extra=sorted(extra)))
    ctx.nontrivial(("seed", len(stripped), len(granted)))


def run_sequence(ctx, seed):
    from ..timeshift import TimeShift
    with TimeShift() as clock:
        _run_sequence(ctx, seed, clock)


def _run_sequence(ctx, seed, clock):
    rng = random.Random(seed)
    rig = HTTPRig(addons=[LATE])
    try:
        sessions = [rig.add_session(("10.1.0.1", 13001)), rig.add_session(("10.2.0.1", 13001))]
        regions = []
        for si, sess in enumerate(sessions):
            r0 = sess.regions[0]
            regions.append(MRegion(si, len(regions), r0, r0.cap_urls["Seed"]))
            for k in range(1, 4):
                seed_url = f"https://sim{si}{k}.example.invalid:12043/cap/seed-{si}{k}-{rng.getrandbits(16):04x}"
                if k == 3 or (k == 2 and si == 1):
                    # a neighbour the session only knows by address and handle so far; its seed arrives later ("reregister")
                    seed_url = None
                    ctx.count("regions_registered_without_seed")
                r = sess.register_region(circuit_addr=(f"10.{si + 1}.0.{k + 1}", 13000 + k), seed_url=seed_url,
                                         handle=((2000 + si) << 32) | (1000 + k))
                regions.append(MRegion(si, len(regions), r, seed_url))
        history = []
        for step in range(40):
            m = rng.choice(regions)
            op = rng.choices(["grant", "temp", "proxy", "name", "resolve", "resolve_unrelated", "seedflow", "wrapper",
                              "regrant_old", "temp_burst", "reregister", "time_passes"], weights=[4, 2, 2, 4, 7, 1, 3, 1, 2, 1, 3, 2])[0]
            wit = {"sequence_seed": seed, "step": step, "op": op, "region": m.idx, "history_tail": history[-6:]}
            history.append((op, m.idx))
            if op == "time_passes":
                # a grant does not wear out: minutes, an hour, a day later everything resolves as before
                clock.advance(rng.choice([61, 601, 3601, 86401]))
                ctx.count("clock_advances")
                continue
            if op == "reregister":
                # the simulator announces the region again (neighbour enabled / teleport / crossing): same circuit address,
                # a fresh seed, the seed it already has, or one it had earlier (A, B, A)
                cur = m.newest("Seed")
                olds = [u for (n, u, t) in m.grants if n == "Seed" and (cur is None or u != cur[0])]
                r = rng.random()
                if cur is None or r < 0.5:
                    x = f"https://sim{m.sess_idx}.example.invalid:12043/cap/seed-re-{rng.getrandbits(32):08x}"
                elif r < 0.8 and olds:
                    x = rng.choice(olds)
                    ctx.count("old_seeds_regranted")
                else:
                    x = cur[0]
                try:
                    got = sessions[m.sess_idx].register_region(circuit_addr=m.addr, seed_url=x)
                except Exception as e:
                    ctx.violation("register-region-raises", "announcing a known region again raised", dict(wit, exc=repr(e)[:200]))
                    continue
                if got is not m.region:
                    ctx.violation("register-region-other-object", "announcing a known region again did not yield that region",
                                  dict(wit, seed=x))
                    continue
                if cur is None or cur[0] != x:
                    m.add("Seed", x, CapType.NORMAL)
                ctx.count("regions_reannounced")
                check_name_lookup(ctx, m, "Seed", wit)
                check_resolve(ctx, rig, regions, sessions, x, wit)
            elif op == "grant":
                caps = {}
                for _ in range(rng.randint(1, 4)):
                    caps[rng.choice(NAMES)] = rand_url(rng, regions)
                m.region.update_caps(caps)
                for n, u in caps.items():
                    m.add(n, u, CapType.NORMAL)
            elif op == "regrant_old":
                # the simulator hands out an URL it had handed out before for the same name (A, B, A)
                olds = [(n, u) for (n, u, t) in m.grants if t == CapType.NORMAL and n != "Seed" and m.newest(n)[0] != u]
                if not olds:
                    continue
                n, u = rng.choice(olds)
                m.region.update_caps({n: u})
                m.add(n, u, CapType.NORMAL)
                ctx.count("old_urls_regranted")
                check_name_lookup(ctx, m, n, wit)
            elif op == "temp":
                name = rng.choice(["UpdateScriptAgentUploader", "UploadBakedTextureUploader", "TmpCap"])
                url = rand_url(rng, regions)
                m.region.register_cap(name, url, CapType.TEMPORARY)
                m.add(name, url, CapType.TEMPORARY)
            elif op == "temp_burst":
                # several one-shot grants under one name (uploads in flight), one of them is used, then the name is looked up
                name = rng.choice(["UpdateScriptAgentUploader", "UploadBakedTextureUploader", "TmpCap"])
                urls = []
                for _ in range(rng.randint(3, 4)):
                    url = rand_url(rng, regions)
                    m.region.register_cap(name, url, CapType.TEMPORARY)
                    m.add(name, url, CapType.TEMPORARY)
                    urls.append(url)
                check_resolve(ctx, rig, regions, sessions, rng.choice(urls) + rng.choice(["", "/x"]), wit)
                check_name_lookup(ctx, m, name, wit)
            elif op == "proxy":
                name = rng.choice(PROXY_NAMES)
                prev = m.newest(name)
                try:
                    url = m.region.register_proxy_cap(name)
                except Exception as e:
                    ctx.violation("register-proxy-cap-raises", "register_proxy_cap raised", dict(wit, exc=repr(e)[:200]))
                    continue
                if prev is not None and prev[1] == CapType.PROXY_ONLY:
                    ctx.count("proxy_cap_reregistrations")
                    if url != prev[0]:
                        ctx.violation("proxy-cap-reregistration-new-url", "registering a proxy-only capability twice yields a "
                                      "different URL", dict(wit, name=name, first=prev[0], second=url))
                        m.add(name, url, CapType.PROXY_ONLY)
                else:
                    m.add(name, url, CapType.PROXY_ONLY)
            elif op == "wrapper":
                name = rng.choice(["GetTexture", "GetMesh2", "ViewerAsset"])
                if m.newest(name) is None or m.newest("Seed") is None:
                    continue
                try:
                    wurl = m.region.register_wrapper_cap(name)
                except Exception as e:
                    ctx.violation("register-wrapper-cap-raises", "register_wrapper_cap raised", dict(wit, exc=repr(e)[:200]))
                    continue
                m.add(name + "ProxyWrapper", wurl, CapType.WRAPPER)
                check_wrapper_unique(ctx, regions, m, name, wurl, wit)
            elif op == "name":
                check_name_lookup(ctx, m, rng.choice(NAMES + PROXY_NAMES + ["Seed", "UpdateScriptAgentUploader", "UploadBakedTextureUploader", "TmpCap"]), wit)
            elif op == "resolve":
                pool = [u for (_, u, _) in m.grants]
                if not pool:
                    continue
                url = rng.choice(pool) + rng.choice(["", "/", "/extra/path?x=1", "?q=2", "suffix"])
                check_resolve(ctx, rig, regions, sessions, url, wit)
            elif op == "resolve_unrelated":
                check_resolve(ctx, rig, regions, sessions, f"https://other.example.invalid/{rng.getrandbits(32):x}", wit)
            elif op == "seedflow":
                if m.newest("Seed") is None:
                    continue
                seed_flow(ctx, rng, rig, m, regions, sessions, wit)
        ctx.nontrivial(("sequence", tuple(history)))
        if len(ctx.samples) < 2:
            ctx.sample({"sequence_seed": seed, "ops": history[:20]})
    finally:
        rig.close()


def run(ctx):
    n = ctx.pick(60, 3000)
    for i in range(n):
        if ctx.out_of_time():
            break
        run_sequence(ctx, ctx.seed * 1_000_003 + ctx.shard * 10007 + i)


def replay(ctx, w):
    if "sequence_seed" in w:
        run_sequence(ctx, w["sequence_seed"])
