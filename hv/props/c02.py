"""C02 - pass-through fidelity: unmodified datagrams re-encode byte-identically.

For every datagram accepted by the header parser, a set of inspection histories is executed on fresh
Messages from the real (lazy) deserializer, each followed by re-encoding with the real serializer.
"""
import math
import zlib

from .. import env

env.import_repo()

from hippolyzer.lib.base.settings import Settings  # noqa: E402
from hippolyzer.lib.base.message.udpserializer import UDPMessageSerializer  # noqa: E402
from hippolyzer.lib.base.message.udpdeserializer import UDPMessageDeserializer  # noqa: E402

from ..refs import wire  # noqa: E402
from .. import gen_msg  # noqa: E402

LEVEL = "exploration"
SHARDS = {"quick": 8, "thorough": 16}
TIMEOUT_S = {"quick": 600, "thorough": 3000}
BUDGET_S = {"quick": 100, "thorough": 1500}
RULE = ("template-generated datagrams (reference-encoded) plus per datagram ~12 mutants (truncations, appended bytes, "
        "byte flips, non-canonical zero-coding: split runs / wrap form / trailing lone zero, text fields with 0/2/3 NUL "
        "terminators) x 7 inspection histories (never, header-only, lazy body, header+body, body twice, body then "
        "header, eager). distinct_nontrivial = distinct (datagram, history) pairs where the body was parsed or a parse "
        "failed"
        ". Round-5 additions: every other template visit is repeated with codec objects built on a caller-supplied template next to the stock ones; text-vs-binary scope from the harness's own naming rule"
        ". Rounds 6-7: histories 'flip' (ZEROCODED flipped and flipped back - refused when the body does not parse) and 'orphaned' (the deserializer is garbage collected before the body is looked at; one generated datagram in eight); text that looks like something else (byte-order mark first, numbers, literals, message names)"
        ". Round 8: earlier decoded copies edited in place (one datagram in three) before the next decode of the same bytes")
ASSUMPTIONS = [
    "canonical zero-coding = exactly what a maximal-run (255-split) encoder emits for the datagram's expansion",
    "datagrams whose decoded message contains a NaN float are excluded from the equality clauses",
    "message equality = name, to_dict(), flags, packet id, acks, extra",
]
MUST_REACH = {
    "hist_never": 200, "hist_header_only": 200, "parsed_canonical_identical": 200, "failed_parse_forwardable": 20,
    "noncanonical_zc_message_equal": 20, "eager_parsed": 100, "mut_truncated": 50, "mut_extended": 20, "mut_flipped": 50,
    "mut_rezero": 20, "templates_covered": 481, "hist_take": 200, "zero_runs_at_chunk_boundary": 20,
    "datagrams_custom_template": 200, "hist_orphaned": 60, "earlier_copies_edited_in_place": 100,
}

_ser = UDPMessageSerializer()
_lazy = UDPMessageDeserializer()
_es = Settings()
_es.ENABLE_DEFERRED_PACKET_PARSING = False
_eager = UDPMessageDeserializer(settings=_es)

HISTORIES = ["never", "header", "body", "header+body", "body+body", "body+header", "eager", "take>copy", "take>orig", "flip", "header+flip",
             "orphaned"]


def _has_nan(msg) -> bool:
    for blocks in msg.blocks.values():
        for block in blocks:
            for v in block.vars.values():
                if isinstance(v, float):
                    if v != v:
                        return True
                elif hasattr(v, "data") and not isinstance(v, (bytes, str)):
                    try:
                        if any(isinstance(c, float) and c != c for c in v.data()):
                            return True
                    except Exception:
                        pass
    return False


def _msg_equal(a, b):
    if a.name != b.name or int(a.send_flags) != int(b.send_flags) or a.packet_id != b.packet_id:
        return False
    if tuple(a.acks) != tuple(b.acks) or bytes(a.extra) != bytes(b.extra):
        return False
    return a.to_dict() == b.to_dict()


def _read_header(msg):
    return (msg.name, msg.packet_id, int(msg.send_flags), tuple(msg.acks), bytes(msg.extra), bool(msg.reliable),
            bool(msg.zerocoded), bool(msg.has_acks), msg.offset)


def split_datagram(b: bytes):
    """(head6, body(still zero-coded), ack_tail) according to the header flags. None if not splittable."""
    if len(b) < 7:
        return None
    flags = b[0]
    end = len(b)
    if flags & 0x10:
        n = b[-1]
        end = len(b) - 1 - 4 * n
        if end <= 6:
            return None
    return b[:6], b[6:end], b[end:]


_TD = gen_msg.DEFAULT_TEMPLATE_DICT


class custom_config:
    """The same check with the codec objects built on a caller-supplied template, next to the stock ones in one process."""
    _objs = None

    def __enter__(self):
        global _ser, _lazy, _eager, _TD
        if custom_config._objs is None:
            from ..custom_template import custom_template_file
            from hippolyzer.lib.base.message.template_dict import TemplateDictionary
            td = TemplateDictionary(message_template=custom_template_file())
            ser = UDPMessageSerializer(message_template=custom_template_file())
            lazy = UDPMessageDeserializer()
            lazy.template_dict = td
            eager = UDPMessageDeserializer(settings=_es)
            eager.template_dict = td
            custom_config._objs = (ser, lazy, eager, td)
        self.saved = (_ser, _lazy, _eager, _TD)
        _ser, _lazy, _eager, _TD = custom_config._objs
        return _TD

    def __exit__(self, *a):
        global _ser, _lazy, _eager, _TD
        _ser, _lazy, _eager, _TD = self.saved


def known_expected(b: bytes, name: str):
    """Datagrams that the two *known* normalisations (and nothing else) would produce from b:
    {"trailing": ..., "nul": ..., "both": ...} (entries only where the mechanism applies)."""
    parts = split_datagram(b)
    if parts is None:
        return {}
    head, body, tail = parts
    zc = bool(b[0] & 0x80)
    expanded = wire.ref_zero_expand(body) if zc else body
    tmpl = _TD[name]
    try:
        walked, end = wire.ref_walk_body(tmpl, expanded, b[5])
    except ValueError:
        return {}
    prefix = expanded[:len(wire.msg_num_bytes(tmpl)) + b[5]]
    has_trailing = end < len(expanded)
    # text fields with more than one NUL terminator (valid UTF-8): the decoder hands out str and strips all of them
    normalised = []
    has_nul = False
    for (bname, entries) in walked:
        tb = tmpl.get_block(bname)
        new_entries = []
        for ent in entries:
            ne = dict(ent)
            for var in tb.variables:
                raw = ent[var.name]
                if var.type.name in ("MVT_VARIABLE", "MVT_FIXED") and gen_msg.is_text_like(var) \
                        and raw.endswith(b"\x00\x00"):
                    try:
                        raw.decode("utf8")
                    except UnicodeDecodeError:
                        continue
                    ne[var.name] = raw.rstrip(b"\x00") + b"\x00"
                    has_nul = True
            new_entries.append(ne)
        normalised.append((bname, new_entries))

    def pack(body_bytes):
        return head + (wire.ref_zero_compress(body_bytes) if zc else body_bytes) + tail

    out = {}
    if has_trailing:
        out["trailing"] = pack(expanded[:end])
    if has_nul:
        out["nul"] = pack(wire.ref_rebuild_body(tmpl, normalised, prefix) + expanded[end:])
    if has_trailing and has_nul:
        out["both"] = pack(wire.ref_rebuild_body(tmpl, normalised, prefix))
    return out


def check_datagram(ctx, b: bytes, origin):
    """origin: dict describing how b was produced (for witnesses)."""
    try:
        probe = _lazy.deserialize(b)
    except Exception:
        ctx.count("rejected_by_header_parser")
        return
    name = probe.name
    parts = split_datagram(b)
    zc = bool(b[0] & 0x80)
    canonical = True
    if zc and parts is not None:
        canonical = wire.is_canonical_zerocoding(parts[1])
    ref_msg = None     # eager decode of b, when possible
    if zlib.crc32(b) % 3 == 0:
        # somebody else received the same datagram earlier, looked inside and edited what they found in place (their copy, their
        # business): it must not change what this datagram is for the next one
        try:
            from hippolyzer.lib.base.datatypes import TupleCoord
            other = _eager.deserialize(b)
            n_edit = 0
            for blist in other.blocks.values():
                for blk in blist:
                    for v in blk.vars.values():
                        if isinstance(v, TupleCoord):
                            v.X = (v.X if v.X == v.X else 0.0) + 10.5
                            n_edit += 1
            if n_edit:
                ctx.count("earlier_copies_edited_in_place")
            del other
        except Exception:
            pass
    for hist in HISTORIES:
        if hist == "orphaned" and (zlib.crc32(b) % 8 or origin.get("kind") not in ("generated", "zero-run-at-chunk-boundary")):
            continue        # (needs a garbage collection per case: one generated datagram in eight)
        ctx.ev()
        wit = {"datagram": b, "history": hist, "origin": origin, "name": name}
        parsed = False
        failed = False
        try:
            if hist == "eager":
                try:
                    msg = _eager.deserialize(b)
                    parsed = True
                    ctx.count("eager_parsed")
                except Exception:
                    ctx.count("eager_rejected")
                    continue
            elif hist == "orphaned":
                # the deserializer that produced the message is gone (collected) before anybody looks at the body: there is
                # nothing left that knows the message's template, the message can only be passed on as it is
                import gc
                d = UDPMessageDeserializer()
                d.template_dict = _TD
                msg = d.deserialize(b)
                del d
                gc.collect()
                try:
                    msg.blocks
                except Exception:
                    pass
                ctx.count("hist_orphaned")
                if msg.raw_body is None:
                    # somebody parsed it after all: then with what the deserializer knew, i.e. it must re-encode like a
                    # parsed message (judged below)
                    parsed = True
            elif hist.startswith("take>"):
                # an addon / waiter takes the still unparsed message (Message.take()), the copy's body is looked at, then the
                # original's; the copy gets the original's header back (take() clears id and acks by design) and one of the
                # two is re-encoded
                orig = _lazy.deserialize(b)
                cp = orig.take()
                ctx.count("hist_take")
                for m2 in (cp, orig):
                    try:
                        m2.blocks
                        parsed = True
                    except Exception as e:
                        failed = True
                        parsed = False
                        wit["parse_exc"] = repr(e)[:200]
                        break
                cp.packet_id, cp.acks, cp.send_flags = orig.packet_id, orig.acks, orig.send_flags
                msg = cp if hist.endswith("copy") else orig
            else:
                msg = _lazy.deserialize(b)
                for op in ([] if hist == "never" else hist.split("+")):
                    if op == "header":
                        _read_header(msg)
                    else:
                        try:
                            if op == "flip":
                                # the ZEROCODED flag is flipped and flipped back (changing the coding needs the body parsed):
                                # either both go through - the message is as it was - or the first one is refused
                                msg.send_flags = int(msg.send_flags) ^ 0x80
                                msg.send_flags = int(msg.send_flags) ^ 0x80
                                ctx.count("hist_flag_flipped_twice")
                            msg.blocks
                            parsed = True
                        except Exception as e:
                            failed = True
                            parsed = False
                            wit["parse_exc"] = repr(e)[:200]
                            # observation point named by the property: raw body intact after the failed access
                            if msg.raw_body is None or bytes(msg.raw_body) != (b[6:len(b) if parts is None else 6 + len(parts[1])]):
                                ctx.violation("failed-parse-raw-body-lost",
                                              "raw body not intact after a failed body parse", wit)
        except Exception as e:
            ctx.violation("history-raises", "an inspection step raised unexpectedly", dict(wit, exc=repr(e)))
            continue
        try:
            out = bytes(_ser.serialize(msg))
        except Exception as e:
            if failed:
                ctx.violation("failed-parse-not-forwardable", "datagram cannot be re-encoded after a failed body parse",
                              dict(wit, exc=repr(e)[:200]))
            else:
                ctx.violation("reencode-raises", "re-encoding an unmodified received message raised",
                              dict(wit, exc=repr(e)[:200]))
            continue
        if not parsed and not failed:
            ctx.count("hist_never" if hist == "never" else "hist_header_only")
            if out != b:
                ctx.violation("unparsed-reencode-differs", "never-parsed datagram re-encoded to different bytes",
                              dict(wit, out=out))
            continue
        ctx.nontrivial((b, hist))
        if failed:
            if out != b:
                ctx.violation("failed-parse-not-forwardable", "datagram differs after a failed body parse",
                              dict(wit, out=out))
            else:
                ctx.count("failed_parse_forwardable")
            continue
        # parsed successfully
        try:
            if _has_nan(msg):
                ctx.count("nan_skipped")
                continue
        except Exception:
            pass
        if ref_msg is None:
            try:
                ref_msg = _eager.deserialize(b)
            except Exception as e:
                ctx.violation("lazy-eager-disagree", "lazy parse succeeded but eager parse of the same datagram raised",
                              dict(wit, exc=repr(e)[:200]))
                continue
        try:
            again = _eager.deserialize(out)
            same = _msg_equal(again, ref_msg)
        except Exception as e:
            ctx.violation("reencoded-undecodable", "re-encoded datagram does not decode", dict(wit, out=out, exc=repr(e)[:200]))
            continue
        if not same:
            ctx.violation("reencoded-message-differs", "re-encoded datagram decodes to a different message",
                          dict(wit, out=out))
            continue
        if not canonical:
            ctx.count("noncanonical_zc_message_equal")
            continue
        if out == b:
            ctx.count("parsed_canonical_identical")
            continue
        exp = known_expected(b, name)
        if exp.get("trailing") == out:
            ctx.violation("parsed-trailing-bytes-dropped",
                          "bytes after the last template block are dropped when a parsed datagram is re-encoded",
                          dict(wit, out=out))
        elif exp.get("nul") == out:
            ctx.violation("parsed-text-multi-nul-normalised",
                          "a text field carrying more than one NUL terminator is re-encoded with exactly one",
                          dict(wit, out=out))
        elif exp.get("both") == out:
            ctx.violation("parsed-trailing-bytes-dropped", "bytes after the last template block are dropped when a "
                          "parsed datagram is re-encoded", dict(wit, out=out))
            ctx.violation("parsed-text-multi-nul-normalised", "a text field carrying more than one NUL terminator is "
                          "re-encoded with exactly one", dict(wit, out=out))
        else:
            ctx.violation("parsed-reencode-differs:" + _classify_diff(b, out, name),
                          "parsed canonical datagram re-encoded to different bytes", dict(wit, out=out))


def _classify_diff(b, out, name):
    """Mechanism class for a byte difference (by structure, never by content hash)."""
    pb, po = split_datagram(b), split_datagram(out)
    if pb is None or po is None:
        return "unsplittable"
    if pb[0] != po[0]:
        return "header"
    if pb[2] != po[2]:
        return "acks"
    zc = bool(b[0] & 0x80)
    eb = wire.ref_zero_expand(pb[1]) if zc else pb[1]
    eo = wire.ref_zero_expand(po[1]) if zc else po[1]
    if eb == eo:
        return "zerocoding-only"
    tmpl = _TD[name]
    try:
        wb, endb = wire.ref_walk_body(tmpl, eb, b[5])
        wo, endo = wire.ref_walk_body(tmpl, eo, out[5])
    except ValueError:
        return "body-unwalkable"
    for (bn, ents_b), (bn2, ents_o) in zip(wb, wo):
        if len(ents_b) != len(ents_o):
            return "block-count"
        tb = tmpl.get_block(bn)
        for x, y in zip(ents_b, ents_o):
            for var in tb.variables:
                if x[var.name] != y[var.name]:
                    if var.type.name in ("MVT_VARIABLE", "MVT_FIXED"):
                        vx, vy = x[var.name], y[var.name]
                        if vx.rstrip(b"\x00") == vy.rstrip(b"\x00"):
                            return "text-trailing-nul-normalised"
                        return "bytes-field"
                    return "field:" + var.type.name
    if len(wb) != len(wo):
        return "block-list"
    return "other"


# ---------------------------------------------------------------- workload

def rezero_variants(rng, body_expanded: bytes):
    """Non-canonical zero-codings of the same expanded body."""
    out = []
    canon = wire.ref_zero_compress(body_expanded)
    # split runs: 00 N -> 00 a 00 (N-a)
    v = bytearray()
    i = 0
    changed = False
    while i < len(canon):
        if canon[i] == 0 and canon[i + 1] >= 2 and rng.random() < 0.5:
            a = rng.randint(1, canon[i + 1] - 1)
            v += bytes((0, a, 0, canon[i + 1] - a))
            changed = True
            i += 2
        elif canon[i] == 0:
            v += canon[i:i + 2]
            i += 2
        else:
            v.append(canon[i])
            i += 1
    if changed:
        out.append(("split-runs", bytes(v)))
    # trailing lone zero: if the expansion ends with exactly one zero
    if body_expanded.endswith(b"\x00") and not body_expanded.endswith(b"\x00\x00"):
        out.append(("trailing-lone-zero", canon[:-1]))
    # wrap form for a long run
    idx = canon.find(b"\x00\xff\x00")
    if idx >= 0 and idx + 3 < len(canon):
        n = canon[idx + 3]
        total = 255 + n
        if total >= 256:
            wrapped = canon[:idx] + b"\x00\x00" + bytes([total - 256]) + canon[idx + 4:] if total > 256 else None
            if wrapped is not None and wire.ref_zero_expand(wrapped) == body_expanded:
                out.append(("wrap-form", wrapped))
    return out


def mutants_of(ctx, rng, tmpl, spec, b):
    """Yield (kind, datagram)."""
    parts = split_datagram(b)
    if parts is None:
        return
    head, body, tail = parts
    zc = bool(b[0] & 0x80)
    n_trunc = 3
    for _ in range(n_trunc):
        if len(body) > 1:
            cut = rng.choice([len(body) - 1, len(body) - 2 if len(body) > 2 else 1, rng.randint(1, len(body) - 1)])
            yield "truncated", head + body[:cut] + tail
    for extra in (b"\x01", bytes(rng.getrandbits(8) or 1 for _ in range(rng.randint(1, 9))), b"\x00\x05" if zc else b"\x00" * 5):
        yield "extended", head + body + extra + tail
    for _ in range(3):
        if body:
            pos = rng.randrange(len(body))
            mb = bytearray(body)
            mb[pos] = rng.choice([0, 1, 0xff, mb[pos] ^ (1 << rng.randrange(8)), rng.getrandbits(8)])
            yield "flipped", head + bytes(mb) + tail
    if tail:
        # corrupt the ack count
        yield "ack-count", head + body + tail[:-1] + bytes([rng.choice([0, 1, 255, (tail[-1] + 1) & 0xff])])
    if zc:
        expanded = wire.ref_zero_expand(body)
        for kind, v in rezero_variants(rng, expanded):
            yield "rezero:" + kind, head + v + tail
    # whole-datagram truncation (acks included)
    if len(b) > 8:
        yield "truncated-whole", b[:rng.randint(7, len(b) - 1)]


def nul_variant_spec(rng, tmpl, spec):
    """Copy of the spec where text-like Variable fields carry 0, 2 or 3 NUL terminators as raw bytes."""
    import copy
    s2 = copy.deepcopy(spec)
    touched = False
    for (bname, entries) in s2["blocks"]:
        if not entries:
            continue
        tb = tmpl.get_block(bname)
        for ent in entries:
            for var in tb.variables:
                if var.type.name == "MVT_VARIABLE" and gen_msg.is_text_like(var):
                    txt = rng.choice([b"abc", b"", b"hello there", "é".encode("utf8")])
                    raw = txt + b"\x00" * rng.choice([0, 1, 2, 3])
                    if len(raw) <= gen_msg.var_max_len(var):
                        ent[var.name] = ["b", raw]
                        touched = True
    return s2 if touched else None


def zero_run_spec(rng, tmpl, spec):
    """Copy of the spec, zero-coded, where one binary Variable field is a zero run of a length around the 255-byte chunk size of
    the zero-coding (bracketed by non-zero bytes so that the run on the wire has exactly that length)."""
    import copy
    s2 = copy.deepcopy(spec)
    cands = []
    for (bname, entries) in s2["blocks"]:
        if not entries:
            continue
        tb = tmpl.get_block(bname)
        for ent in entries:
            for var in tb.variables:
                if var.type.name == "MVT_VARIABLE" and not (gen_msg.is_text_like(var)) \
                        and gen_msg.var_max_len(var) >= 257:
                    cands.append((ent, var))
    if not cands:
        return None
    ent, var = rng.choice(cands)
    run_len = rng.choice([253, 254, 255, 255, 256, 509, 510, 510, 511, 765])
    raw = b"\x07" + b"\x00" * run_len + b"\x09"
    if len(raw) > gen_msg.var_max_len(var):
        raw = b"\x07" + b"\x00" * 255 + b"\x09"
        if len(raw) > gen_msg.var_max_len(var):
            return None
    ent[var.name] = ["b", raw]
    s2["flags"] |= 0x80
    return s2


def run(ctx):
    rng = ctx.rng
    templates = gen_msg.all_templates()
    per_template = ctx.pick(2, 16)
    for ti, tmpl in enumerate(templates):
        for k in range(per_template):
            if ctx.quick and not ctx.mine(ti * per_template + k):
                continue
            if ctx.out_of_time():
                ctx.inconclusive_because("work budget exhausted before all templates were visited")
                return
            spec = gen_msg.limit_for_zerocode(rng, tmpl, {"max_var_len": 600, "small_block": 12, "p_extra": 0.15})
            b = wire.ref_encode(tmpl, spec)
            ctx.cover("templates", tmpl.name)
            check_datagram(ctx, b, {"kind": "generated"})
            if ctx.counters.get("sampled", 0) < 3 and len(b) < 120:
                ctx.count("sampled")
                ctx.sample({"message": tmpl.name, "datagram": b, "histories": HISTORIES}, force=True)
            for kind, mb in mutants_of(ctx, rng, tmpl, spec, b):
                base = kind.split(":")[0]
                ctx.count("mut_" + {"truncated-whole": "truncated", "ack-count": "ackcount"}.get(base, base))
                check_datagram(ctx, mb, {"kind": kind, "from": b if len(b) < 300 else None})
            s3 = zero_run_spec(rng, tmpl, spec)
            if s3 is not None and gen_msg.approx_body_size(s3) <= 0x2800:
                ctx.count("zero_runs_at_chunk_boundary")
                check_datagram(ctx, wire.ref_encode(tmpl, s3), {"kind": "zero-run-at-chunk-boundary"})
            s2 = nul_variant_spec(rng, tmpl, spec)
            if s2 is not None:
                ctx.count("mut_nul_variants")
                check_datagram(ctx, wire.ref_encode(tmpl, s2), {"kind": "text-nul-variant"})
            if k % 2 == 0:
                # a proxy / client configured with its own message template: same names, other wire types
                with custom_config() as td:
                    ctmpl = td[tmpl.name]
                    cspec = gen_msg.limit_for_zerocode(rng, ctmpl, {"max_var_len": 600, "small_block": 12, "p_extra": 0.15})
                    cb = wire.ref_encode(ctmpl, cspec)
                    check_datagram(ctx, cb, {"kind": "generated", "template_config": "custom"})
                    ctx.count("datagrams_custom_template")
                check_datagram(ctx, b, {"kind": "generated"})
                if ti % 40 == 0:
                    from ..custom_template import check_stock_unchanged
                    check_stock_unchanged(ctx)


def replay(ctx, w):
    if "datagram" in w and w.get("template_config") == "custom":
        with custom_config():
            check_datagram(ctx, w["datagram"], {"kind": "replay", "template_config": "custom"})
    elif "datagram" in w:
        check_datagram(ctx, w["datagram"], {"kind": "replay"})
