"""C10 - quantised floats / fixed-point fields are bit-exact inverses on the wire domain.

Instances are discovered by a deterministic walk of the spec object graph (SUBFIELD_SERIALIZERS,
templates, llanim, mesh, namevalue); every distinct parameterisation is swept over EVERY raw value of
its 8/16-bit wire type through the real decode/encode (or deserialize/serialize) methods.
"""
import math
import struct

import numpy as np

from .. import env

env.import_repo()

import hippolyzer.lib.base.serialization as se  # noqa: E402

from .. import specwalk  # noqa: E402

LEVEL = "exploration"
SHARDS = {"quick": 8, "thorough": 16}
TIMEOUT_S = {"quick": 600, "thorough": 2400}
BUDGET_S = {"quick": 120, "thorough": 1200}
RULE = ("every distinct (class, wire type, lower, upper, rounding mode, step) quantiser reachable from the templates, "
        "animation and mesh codecs x EVERY raw value of its wire type (exhaustive), laws: encode(decode(raw)) == raw, decode "
        "monotone, range ends (and zero where the instance rounds towards a zero midpoint) exact both ways; key-frame time "
        "x a sweep of float32 durations (quick 24, thorough 2000). distinct_nontrivial = distinct (instance, raw) pairs "
        "checked, counted per instance as the size of the raw domain"
        ". Round-5 addition: every quantised vector spec and every packed quaternion built on one (15 distinct instances) is driven with tuples of raw integers at the wire (7^n corner tuples + quick 3000 / thorough 60000 random tuples, object and plain-data form): read through the spec, written back, same raw integers"
        ". Round 8: 72 durations on the quick tier (integers 3..47 and the k/32 family)")
ASSUMPTIONS = [
    "the end-point law is applied to instances whose step is 1/(max-min); specially stepped ones (texture rotation, "
    "fixed point with a non-representable upper bound) get the inverse and monotonic laws plus the lower end",
    "key-frame durations: positive finite float32 values",
    "instances are found by walking module globals / registries, not by tracing every construction site",
]
MUST_REACH = {"instances": 15, "raw_values_checked": 500000, "kinds_covered": 5, "durations": 10, "composite_instances": 5,
              "packed_quaternion_instances": 2, "raw_tuples_checked": 20000}


class FakeRoot:
    def __init__(self, duration):
        self.duration = duration


class FakeCtx:
    def __init__(self, duration):
        self._root = FakeRoot(duration)


def prim_fmt(prim):
    return prim._struct_fmt


def instance_key(obj):
    if isinstance(obj, se.QuantizedFloat):
        return (type(obj).__name__, prim_fmt(obj._child_spec), obj.lower, obj.upper, bool(obj.zero_median), obj.step_mag)
    if isinstance(obj, se.FixedPoint):
        return ("FixedPoint", prim_fmt(obj._ser_spec), obj._signed, obj._frac_bits, obj._min_val, obj._max_val)
    if isinstance(obj, se.QuantizedNumPyArray):
        return ("QuantizedNumPyArray", str(obj.dtype), obj.lower, obj.upper, obj.step_mag)
    if isinstance(obj, se.QuantizedFloatBase):
        return (type(obj).__name__, prim_fmt(obj._child_spec), bool(obj.zero_median), obj.step_mag)
    raise TypeError(obj)


def discover():
    found = {}
    for path, obj in specwalk.walk(specwalk.default_roots()):
        if isinstance(obj, (se.QuantizedFloatBase, se.FixedPoint, se.QuantizedNumPyArray)):
            k = instance_key(obj)
            found.setdefault(k, (path, obj))
    return found


def composite_key(obj):
    if isinstance(obj, se.PackedQuat):
        return ("PackedQuat",) + composite_key(obj._child_spec)
    return (type(obj).__name__,) + tuple(instance_key(e) for e in obj._elem_specs)


def discover_composites():
    """Quantised vectors and the packed quaternions built on them: the representation is a tuple of raw integers."""
    found = {}
    for path, obj in specwalk.walk(specwalk.default_roots()):
        if isinstance(obj, se.EncodedTupleCoord) or (isinstance(obj, se.PackedQuat)
                                                     and isinstance(obj._child_spec, se.EncodedTupleCoord)):
            found.setdefault(composite_key(obj), (path, obj))
    return found


def check_composite(ctx, key, obj, rng, n_random):
    """Wire-level inverse law for a tuple of quantised components: whatever raw integers arrive, reading them through the
    spec and writing the value back gives the same integers (object form and plain-data form)."""
    import itertools
    inner = obj._child_spec if isinstance(obj, se.PackedQuat) else obj
    prims = [e._child_spec if isinstance(e, se.QuantizedFloatBase) else e._ser_spec for e in inner._elem_specs]
    fmt = "<" + "".join(prim_fmt(p) for p in prims)

    def corners(p):
        mid = (p.min_val + p.max_val + 1) // 2
        return sorted({p.min_val, p.min_val + 1, mid - 1, mid, mid + 1, p.max_val - 1, p.max_val})
    tuples = list(itertools.product(*[corners(p) for p in prims]))
    for _ in range(n_random):
        tuples.append(tuple(rng.randint(p.min_val, p.max_val) for p in prims))
    name = "+".join(k for k in key if isinstance(k, str))
    for raws in tuples:
        data = struct.pack(fmt, *raws)
        for pod in (False, True):
            try:
                val = se.BufferReader("<", data, pod=pod).read(obj)
                w = se.BufferWriter("<")
                w.write(obj, val)
                back = w.copy_buffer()
            except Exception as e:
                ctx.violation(f"raises:{name}", "reading / writing a tuple of raw values raised",
                              {"instance": key, "raws": list(raws), "pod": pod, "exc": repr(e)[:200]})
                return
            if back != data:
                ctx.violation(f"inverse:{name}:tuple", "a tuple of raw values read through the spec does not write back to the "
                              "same raw values", {"instance": key, "raws": list(raws), "pod": pod, "decoded": repr(val)[:120],
                                                  "rewritten": list(struct.unpack(fmt, back)) if len(back) == len(data) else repr(back)})
                return
        ctx.count("raw_tuples_checked")
    return len(tuples)


def sweep_scalar(ctx, name, key, raws, dec, enc, lower, upper, standard_step, zero_law, extra):
    """Generic law checker for scalar quantisers. dec/enc are the real methods."""
    prev = None
    prev_raw = None
    n = 0
    zero_raws = []
    lower_known_broken = False
    for raw in raws:
        n += 1
        try:
            val = dec(raw)
            back = enc(val)
        except Exception as e:
            ctx.violation(f"raises:{name}", "decode/encode raised on a raw value of the wire type",
                          dict(extra, instance=key, raw=raw, exc=repr(e)))
            return
        if back != raw:
            where = "min" if raw == raws[0] else "max" if raw == raws[-1] else "interior"
            mech = f"inverse:{name}:{where}"
            if name.startswith("PackedTERotation") and where == "min" and back == 0 and val == lower:
                # the rotation packer deliberately wraps +-2pi to 0 (pinned by the repository's own test)
                mech = "te-rotation:raw-min-decodes-to-minus-2pi-which-packs-as-0"
                lower_known_broken = True
            ctx.violation(mech, "encode(decode(raw)) != raw",
                          dict(extra, instance=key, raw=raw, decoded=val, reencoded=back))
        if prev is not None and not (val >= prev):
            ctx.violation(f"monotone:{name}", "decode is not monotonic in the raw value",
                          dict(extra, instance=key, raw_a=prev_raw, val_a=prev, raw_b=raw, val_b=val))
        if val == 0.0:
            zero_raws.append(raw)
        prev, prev_raw = val, raw
    ctx.count("raw_values_checked", n)
    lo_raw, hi_raw = raws[0], raws[-1]
    if dec(lo_raw) != lower:
        ctx.violation(f"endpoint:{name}:lower", "lowest raw does not decode to exactly the declared lower bound",
                      dict(extra, instance=key, raw=lo_raw, decoded=dec(lo_raw), lower=lower))
    elif enc(lower) != lo_raw and not lower_known_broken:
        ctx.violation(f"endpoint:{name}:lower", "declared lower bound does not encode to the lowest raw",
                      dict(extra, instance=key, encoded=enc(lower), lower=lower))
    if standard_step:
        if dec(hi_raw) != upper:
            ctx.violation(f"endpoint:{name}:upper", "highest raw does not decode to exactly the declared upper bound",
                          dict(extra, instance=key, raw=hi_raw, decoded=dec(hi_raw), upper=upper))
        elif enc(upper) != hi_raw:
            ctx.violation(f"endpoint:{name}:upper", "declared upper bound does not encode to the highest raw",
                          dict(extra, instance=key, encoded=enc(upper), upper=upper))
    if zero_law:
        ctx.count("zero_law_instances")
        if not zero_raws:
            ctx.violation(f"zero:{name}", "range centred on zero but no raw decodes to exactly 0.0",
                          dict(extra, instance=key))
        else:
            z = enc(0.0)
            if dec(z) != 0.0:
                ctx.violation(f"zero:{name}", "0.0 does not encode to a raw that decodes to 0.0",
                              dict(extra, instance=key, encoded=z, decoded=dec(z)))


def raw_domain(prim):
    return range(prim.min_val, prim.max_val + 1)


def check_quantized_float(ctx, key, obj):
    prim = obj._child_spec
    name = type(obj).__name__
    raws = raw_domain(prim)
    standard = abs(obj.step_mag - 1.0 / (prim.max_val - prim.min_val)) < 1e-18
    if not standard:
        name += ":special-step"
    zero_law = bool(obj.zero_median) or (obj.lower == -obj.upper and standard)
    sweep_scalar(ctx, name, key, raws, lambda r: obj.decode(r, None), lambda v: obj.encode(v, None),
                 obj.lower, obj.upper, standard, zero_law, {})
    # also through the real reader/writer path in both byte orders
    for endian in ("<", ">"):
        for raw in (prim.min_val, prim.max_val, 0, 1, -1 if prim.is_signed else 2):
            w = se.BufferWriter(endian)
            w.write(prim, raw)
            data = w.copy_buffer()
            r = se.BufferReader(endian, data)
            val = r.read(obj)
            w2 = se.BufferWriter(endian)
            w2.write(obj, val)
            if w2.copy_buffer() != data:
                if name.startswith("PackedTERotation") and raw == prim.min_val and w2.copy_buffer() == b"\x00\x00":
                    continue   # same fact as te-rotation:raw-min-... reported by the sweep
                ctx.violation(f"inverse:{name}:wire", "value read through the spec does not write back to the same bytes",
                              {"instance": key, "raw": raw, "endian": endian, "bytes": data, "rewritten": w2.copy_buffer()})


def check_fixed_point(ctx, key, obj):
    prim = obj._ser_spec
    fmt = "<" + prim_fmt(prim)
    raws = raw_domain(prim)

    def dec(raw):
        return obj.deserialize(se.BufferReader("<", struct.pack(fmt, raw)), None)

    def enc(val):
        w = se.BufferWriter("<")
        obj.serialize(val, w, None)
        return struct.unpack(fmt, w.copy_buffer())[0]

    lower = float(obj._min_val)
    # the declared upper bound (1 << int_bits) is not representable: inverse + monotone + lower end (+ zero if signed)
    sweep_scalar(ctx, "FixedPoint", key, raws, dec, enc, lower, None, False, bool(obj._signed), {})


def check_numpy(ctx, key, obj):
    dtype = obj.dtype
    n = 2 ** (dtype.itemsize * 8)
    raws = np.arange(n, dtype=np.uint64).astype(dtype)
    try:
        vals = obj.decode(raws, None)
        keep = np.array(vals, copy=True)
        back = obj.encode(vals, None)
        if not np.array_equal(vals, keep):
            ctx.violation("encode-mutates-input:QuantizedNumPyArray", "encoding changed the caller's array in place",
                          {"instance": key, "first_changed": int(np.nonzero(vals != keep)[0][0])})
            return
        if not np.array_equal(obj.encode(vals, None), back):
            ctx.violation("encode-not-repeatable:QuantizedNumPyArray", "encoding the same array twice gave different results", {"instance": key})
            return
    except Exception as e:
        ctx.violation("raises:QuantizedNumPyArray", "decode/encode raised", {"instance": key, "exc": repr(e)})
        return
    ctx.count("raw_values_checked", n)
    bad = np.nonzero(back != raws)[0]
    if len(bad):
        i = int(bad[0])
        ctx.violation("inverse:QuantizedNumPyArray", "encode(decode(raw)) != raw",
                      {"instance": key, "raw": int(raws[i]), "decoded": float(vals[i]), "reencoded": int(back[i]),
                       "count": int(len(bad))})
    if np.any(np.diff(vals) < 0):
        ctx.violation("monotone:QuantizedNumPyArray", "decode is not monotonic", {"instance": key})
    if float(vals[0]) != obj.lower or float(vals[-1]) != obj.upper:
        ctx.violation("endpoint:QuantizedNumPyArray", "range ends do not decode exactly",
                      {"instance": key, "lo": float(vals[0]), "hi": float(vals[-1])})
    else:
        e = obj.encode(np.array([obj.lower, obj.upper]), None)
        if int(e[0]) != 0 or int(e[1]) != n - 1:
            ctx.violation("endpoint:QuantizedNumPyArray", "range ends do not encode to the extreme raws",
                          {"instance": key, "encoded": [int(e[0]), int(e[1])]})
    if obj.lower == -obj.upper:
        z = obj.encode(np.array([0.0]), None)
        if float(obj.decode(z, None)[0]) != 0.0:
            ctx.violation("zero:QuantizedNumPyArray", "range centred on zero but 0.0 is not exactly representable: "
                          "encode(0.0) decodes to a non-zero value",
                          {"instance": key, "encoded": int(z[0]), "decoded": float(obj.decode(z, None)[0])})


def check_time(ctx, key, obj, durations):
    prim = obj._child_spec
    raws = raw_domain(prim)
    for d in durations:
        c = FakeCtx(d)
        ctx.count("durations")
        sweep_scalar(ctx, type(obj).__name__, key, raws, lambda r: obj.decode(r, c), lambda v: obj.encode(v, c),
                     0.0, d, True, False, {"duration": d})


def f32(x):
    return struct.unpack("<f", struct.pack("<f", x))[0]


def run(ctx):
    found = discover()
    items = sorted(found.items(), key=lambda kv: repr(kv[0]))
    ctx.flag("instances_found", [repr(k) for k, _ in items])
    rng = ctx.rng
    n_dur = ctx.pick(72, 2000)
    durations = [f32(x) for x in (1.0, 0.5, 2.0, 10.0, 30.0, 60.0, 1 / 3, 0.1, 1e-3, 3.4e38, 1.17549435e-38, 65535.0, 7.0)]
    # whole seconds and mantissas of every shape (k/32 times a power of two): what animations are actually long
    durations += [f32(float(k)) for k in range(3, 48)] + [f32(k / 32.0 * 2 ** e) for k in (33, 37, 45, 53, 61) for e in (0, 3, 5)]
    while len(durations) < n_dur:
        durations.append(f32(rng.choice([rng.uniform(0.01, 120.0), 10 ** rng.uniform(-6, 6), rng.uniform(0.5, 2.0)])))
    work = []
    for key, (path, obj) in items:
        if isinstance(obj, se.QuantizedFloat):
            work.append(("qf", key, path, obj, None))
        elif isinstance(obj, se.FixedPoint):
            work.append(("fp", key, path, obj, None))
        elif isinstance(obj, se.QuantizedNumPyArray):
            work.append(("np", key, path, obj, None))
        else:
            for i in range(0, len(durations), 4):
                work.append(("time", key, path, obj, durations[i:i + 4]))
    composites = sorted(discover_composites().items(), key=lambda kv: repr(kv[0]))
    ctx.flag("composite_instances_found", [repr(k)[:200] for k, _ in composites])
    for key, (path, obj) in composites:
        work.append(("tuple", key, path, obj, None))
    for i, (kind, key, path, obj, arg) in enumerate(work):
        if not ctx.mine(i):
            continue
        if ctx.out_of_time():
            ctx.inconclusive_because("work budget exhausted")
            break
        ctx.ev()
        ctx.count("instances")
        ctx.cover("kinds", kind if kind != "qf" else type(obj).__name__)
        ctx.cover("instance_keys", repr(key))
        if kind == "tuple":
            n = check_composite(ctx, key, obj, rng, ctx.pick(3000, 60000)) or 0
            ctx.count("composite_instances")
            if isinstance(obj, se.PackedQuat):
                ctx.count("packed_quaternion_instances")
        elif kind == "qf":
            check_quantized_float(ctx, key, obj)
            n = obj._child_spec.max_val - obj._child_spec.min_val + 1
        elif kind == "fp":
            check_fixed_point(ctx, key, obj)
            n = obj._ser_spec.max_val + 1
        elif kind == "np":
            check_numpy(ctx, key, obj)
            n = 2 ** (obj.dtype.itemsize * 8)
        else:
            check_time(ctx, key, obj, arg)
            n = 65536 * len(arg)
        ctx.nontrivial_range((key, repr(arg)), n)
        if len(ctx.samples) < 3:
            ctx.sample({"instance": repr(key), "found_at": path, "raw_domain": n, "kind": kind})
    ctx.flag("exhaustive", True)


def replay(ctx, w):
    run(ctx)
