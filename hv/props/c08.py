"""C08 - serialization combinators: read(write(v)) == v, exact framing, composable.

Random spec trees ("programs") from the combinator grammar are built out of the REAL combinator classes; values
come from the spec-directed deriver; the real BufferWriter/BufferReader do the work; the oracle compares values
through one normaliser and checks framing, size queries and rejection of out-of-limit values.
"""
import random

from .. import env

env.import_repo()

import hippolyzer.lib.base.serialization as se  # noqa: E402

from .. import gen_spec  # noqa: E402

LEVEL = "exploration"
SHARDS = {"quick": 8, "thorough": 16}
TIMEOUT_S = {"quick": 600, "thorough": 3000}
BUDGET_S = {"quick": 100, "thorough": 1500}
RULE = ("random spec trees to depth 3 (quick, 16000 trees) / 4 (thorough, 16 x 20000) over the combinator grammar "
        "(primitives, byte/str variants, coordinates, quantised, tuples, templates, collections prefixed/fixed/greedy, "
        "optional/flagged/length/enum/flag/context switches, bit-fields, typed-bytes wrappers incl. lazy, dataclasses, "
        "adapters, numpy) x 4 values x {little, big} endian x {rich, plain-data} reads x trailing bytes for "
        "self-delimiting specs, plus one out-of-limit probe per tree. distinct_nontrivial = distinct spec trees "
        "(by printed S-expression) with at least one composite node that round-tripped"
        ". Rounds 6-7: the size query is repeated after every write; self-referential specs (a node record holding a list of nodes, 4 shapes) against a hand-computed encoding; text with characters that line-oriented helpers treat as breaks"
        ". Round 8: composite (multi-bit) flag values for optional-by-flag fields"
        ". Round 9: an enum class with a catch-all _missing_ member; the reader is switched to the other byte order and mode before the value read is looked at"
        ". Round 10: tuples whose later members (ContextSwitch, ContextAdapter) are chosen by the tuple's first member, read by index through the tuple's own context level")
ASSUMPTIONS = [
    "grammar side-conditions are the combinators' documented contracts: window-consuming specs only last in their "
    "window, greedy collections get entries of non-zero width, fixed-length collections have length >= 1, "
    "TypedBytesFixed(n) gets an inner spec of size n, context switches read siblings defined before them, inner "
    "encodings of terminated wrappers avoid the terminator, empty_is_none only with never-empty inner encodings",
    "value domain: NaN-free floats, float32-representable F32, lattice values for quantised fields, non-negative "
    "flag values, strings without trailing NUL / terminator bytes",
    "plain-data (pod) reads are judged by byte closure: writing the pod value back must give the original bytes",
    "any exception counts as rejection of an out-of-limit value",
]
MUST_REACH = {"tuples_with_members_chosen_by_their_first_member": 100, "values_looked_at_after_the_reader_moved_on": 2000, "unknown_values_under_catch_all_enum": 30, "recursive_spec_values_with_children": 100, "size_queries_repeated": 5000, "programs": 300, "roundtrips": 2000, "classes_covered": 45, "ood_probes_rejected": 50,
              "greedy_programs": 30, "trailing_bytes_checks": 500, "fixed_size_checks": 300, "pod_closures": 1000}


def check_program(ctx, pseed, depth, n_values=4):
    from ..runner import cpu_guard, CpuBudgetExceeded
    try:
        with cpu_guard(20):
            _check_program(ctx, pseed, depth, n_values)
    except CpuBudgetExceeded as e:
        ctx.violation("no-progress", "one small round-trip case burned more than 20 s of CPU time (non-terminating "
                      "read/write)", {"program_seed": pseed, "depth": depth, "exc": str(e)})
    except MemoryError:
        ctx.violation("no-progress", "one small round-trip case exhausted the memory limit (unbounded allocation)",
                      {"program_seed": pseed, "depth": depth})


def _check_program(ctx, pseed, depth, n_values=4):
    prng = random.Random(pseed)
    pg = gen_spec.ProgramGen(prng, max_depth=depth)
    try:
        spec = pg.make(0, allow_greedy=True)
    except Exception as e:
        ctx.violation("spec-construction-raises", "constructing a spec from the grammar raised",
                      {"program_seed": pseed, "depth": depth, "exc": repr(e)})
        return
    desc = gen_spec.describe(spec)
    greedy = gen_spec.is_greedy(spec)
    # dataclasses.asdict() rebuilds containers and cannot carry lazy proxies nested in them; writing back such a
    # rich value is not part of the statement (read(write(v)) == v is, and is checked)
    lazy_in_dataclass = " lazy" in desc and "Dataclass" in desc
    wit0 = {"program_seed": pseed, "depth": depth, "spec": desc}
    ctx.count("programs")
    if greedy:
        ctx.count("greedy_programs")
    try:
        size = gen_spec.unwrap(spec).calc_size() if not isinstance(spec, se.ForwardSerializable) else spec.calc_size()
    except Exception as e:
        ctx.violation("calc-size-raises:" + type(gen_spec.unwrap(spec)).__name__, "a size query raised",
                      dict(wit0, exc=repr(e)))
        size = None
    ok_any = False
    classes = set()
    for vi in range(n_values):
        vseed = pseed * 1000 + vi
        d = gen_spec.Deriver(random.Random(vseed))
        try:
            v = d.gen(spec)
        except gen_spec.Unsupported as e:
            ctx.count("unsupported_values")
            ctx.cover("unsupported", str(e)[:60])
            continue
        except Exception as e:
            ctx.count("value_generation_failed")
            ctx.cover("valuegen_fail", type(e).__name__ + ":" + str(e)[:60])
            continue
        classes |= d.classes
        canon_v = gen_spec.canon(v)          # taken BEFORE any write: writing must not alter the caller's value
        wit = dict(wit0, value_seed=vseed, value=repr(canon_v)[:600])
        for endian in ("<", ">"):
            ctx.ev()
            w = se.BufferWriter(endian)
            try:
                w.write(spec, v)
            except Exception as e:
                ctx.violation("write-raises", "writing an in-domain value raised", dict(wit, endian=endian, exc=repr(e)[:300]))
                break
            data = w.copy_buffer()
            ctx.count("input_unchanged_checks")
            if gen_spec.canon(v) != canon_v:
                ctx.violation("write-mutates-value", "writing a value changed the value the caller passed in",
                              dict(wit, endian=endian, after=repr(gen_spec.canon(v))[:600]))
                break
            # the size query is asked again after every write (callers ask whenever they need it): same answer as the first time
            try:
                size_again = gen_spec.unwrap(spec).calc_size() if not isinstance(spec, se.ForwardSerializable) else spec.calc_size()
            except Exception as e:
                ctx.violation("calc-size-raises:repeat", "a repeated size query raised", dict(wit, exc=repr(e)))
                size_again = size
            ctx.count("size_queries_repeated")
            if size_again != size:
                ctx.violation("calc-size-not-repeatable", "the same spec answered a repeated size query differently",
                              dict(wit, endian=endian, first=size, later=size_again, actual=len(data)))
                break
            if size is not None:
                ctx.count("fixed_size_checks")
                if len(data) != size:
                    ctx.violation("calc-size-mismatch", "encoding length differs from the reported fixed size",
                                  dict(wit, endian=endian, size=size, actual=len(data)))
            trailers = [b""]
            if not greedy:
                trailers.append(bytes(random.Random(vseed).getrandbits(8) for _ in range(1 + vseed % 7)))
            good = True
            for tr in trailers:
                for pod in (False, True):
                    r = se.BufferReader(endian, data + tr, pod=pod)
                    try:
                        out = r.read(spec)
                        consumed = r.tell()
                        # what was read is the caller's now; the reader goes on to other things (another byte order, the other
                        # mode) before the caller looks at the value - values that are decoded on first touch included
                        if (vseed + len(tr)) % 2:
                            r.endianness = ">" if endian == "<" else "<"
                            r.pod = not pod
                            ctx.count("values_looked_at_after_the_reader_moved_on")
                        canon_out = gen_spec.canon(out)
                        r.endianness, r.pod = endian, pod
                        r.seek(consumed)
                    except Exception as e:
                        ctx.violation("read-raises" + (":trailing" if tr else "") + (":pod" if pod else ""),
                                      "reading back what was written raised",
                                      dict(wit, endian=endian, pod=pod, trailing=len(tr), exc=repr(e)[:300], data=data[:200]))
                        good = False
                        continue
                    if tr:
                        ctx.count("trailing_bytes_checks")
                    if r.tell() != len(data):
                        ctx.violation("framing" + (":trailing" if tr else ""), "reader did not consume exactly the bytes written",
                                      dict(wit, endian=endian, pod=pod, consumed=r.tell(), written=len(data), trailing=len(tr)))
                        good = False
                    if not pod and canon_out != canon_v:
                        ctx.violation("value-differs", "read(write(v)) != v", dict(wit, endian=endian, got=repr(canon_out)[:600],
                                                                                   trailing=len(tr)))
                        good = False
                    # write back the value that was read (rich and plain-data form)
                    if not pod and lazy_in_dataclass:
                        ctx.count("rich_rewrite_skipped_lazy_inside_dataclass")
                        continue
                    w2 = se.BufferWriter(endian)
                    try:
                        w2.write(spec, out)
                        back = w2.copy_buffer()
                    except Exception as e:
                        ctx.violation("rewrite-raises" + (":pod" if pod else ""), "a value that was read cannot be written back",
                                      dict(wit, endian=endian, pod=pod, exc=repr(e)[:300], got=repr(canon_out)[:300]))
                        good = False
                        continue
                    if back != data:
                        ctx.violation("rewrite-differs" + (":pod" if pod else ""),
                                      "writing back the value that was read gives different bytes",
                                      dict(wit, endian=endian, pod=pod, data=data[:200], back=back[:200], got=repr(canon_out)[:300]))
                        good = False
                    elif pod:
                        ctx.count("pod_closures")
            # Round 11: looking ahead (peek=True) never consumes - neither when the look succeeds nor when it is refused on a
            # buffer that ends too early; the reader is then used for the next, valid, read (buffer and file-handle readers)
            lead = bytes([0xA5, vseed & 0xFF])
            cut = random.Random(vseed + 11).randrange(len(data)) if data else 0
            for kind in ("buffer", "file"):
                for buf, whole in ((lead + data, True), (lead + data[:cut], False)):
                    if kind == "buffer":
                        r = se.BufferReader(endian, buf)
                    else:
                        import io
                        r = se.FHReader(endian, io.BytesIO(buf))
                    try:
                        r.read_bytes(2)
                        try:
                            peeked = r.read(spec, peek=True)
                            refused = False
                        except Exception:
                            peeked, refused = None, True
                        ctx.count("peeks_refused" if refused else "peeks_answered")
                        pos = r.tell()
                        if pos != 2:
                            ctx.violation("peek-consumes:" + ("refused" if refused else "answered") + ":" + kind,
                                          "a look ahead (peek=True) left the reader somewhere else than where it was",
                                          dict(wit, endian=endian, reader=kind, position=pos, expected=2, whole=whole, buffer=buf[:200]))
                            good = False
                            continue
                        if whole:
                            if refused:
                                ctx.violation("peek-raises:" + kind, "a look ahead at a complete encoding raised",
                                              dict(wit, endian=endian, reader=kind))
                                good = False
                                continue
                            after = r.read(spec)
                            if gen_spec.canon(after) != canon_v or gen_spec.canon(peeked) != canon_v or r.tell() != len(buf):
                                ctx.violation("read-after-peek-differs:" + kind, "the read after a look ahead did not give the value / framing",
                                              dict(wit, endian=endian, reader=kind, got=repr(gen_spec.canon(after))[:300], end=r.tell(), written=len(buf)))
                                good = False
                        else:
                            rest = bytes(r.read_bytes(len(buf) - 2, to_bytes=True)) if len(buf) > 2 else b""
                            if rest != buf[2:]:
                                ctx.violation("read-after-refused-peek-differs:" + kind, "after a look ahead the rest of the buffer reads differently",
                                              dict(wit, endian=endian, reader=kind, got=rest[:100], expected=buf[2:102]))
                                good = False
                    except Exception as e:
                        ctx.violation("peek-probe-raises:" + kind, "reading around a look ahead raised",
                                      dict(wit, endian=endian, reader=kind, whole=whole, exc=repr(e)[:300]))
                        good = False
            if good:
                ctx.count("roundtrips")
                ok_any = True
        # out-of-limit probe on this value seed
        if vi == 0 and d.poisonable_seen:
            idx = random.Random(vseed + 7).randrange(d.poisonable_seen)
            d2 = gen_spec.Deriver(random.Random(vseed), poison_at=idx)
            try:
                bad = d2.gen(spec)
            except Exception:
                ctx.count("ood_probe_generation_failed")
                bad = None
                d2.poison_desc = None
            if d2.poison_desc is not None:
                ctx.count("ood_probes")
                w = se.BufferWriter("<")
                try:
                    w.write(spec, bad)
                except Exception:
                    ctx.count("ood_probes_rejected")
                    ctx.cover("ood_kinds", d2.poison_desc.split(" for ")[0][:50])
                else:
                    ctx.violation("out-of-limit-accepted:" + d2.poison_desc.split(" ")[0],
                                  "a value outside a length/range limit was written instead of rejected",
                                  dict(wit0, value_seed=vseed, poison=d2.poison_desc, poison_at=idx,
                                       written=w.copy_buffer()[:100]))
    if ok_any:
        for c in classes:
            ctx.cover("classes", c)
        if "(" in desc:
            ctx.nontrivial(desc)
        if len(ctx.samples) < 4 and 30 < len(desc) < 400:
            ctx.sample({"program_seed": pseed, "spec": desc, "greedy": greedy, "fixed_size": size})


def recursive_specs(ctx, rng):
    """Specs may refer to themselves (ForwardSerializable): a tree whose nodes are length-prefixed records holding a count-prefixed
    list of child nodes.  Written by the framework, compared with an encoding computed by hand, read back - both byte orders,
    both modes, with trailing bytes."""
    import struct
    shapes = []
    for len_spec, fmt in ((se.U8, "B"), (se.U16, "H"), (se.U32, "I")):
        def make(len_spec=len_spec, lazy=False):
            node = se.TypedByteArray(len_spec, se.Template({"id": se.U8, "children": se.Collection(se.U8, se.ForwardSerializable(lambda: node))}),
                                     lazy=lazy)
            return node
        shapes.append((make(), fmt, "typed-bytearray-" + fmt))
    plain = se.Template({"id": se.U16, "children": se.Collection(se.U8, se.ForwardSerializable(lambda: plain))})
    shapes.append((plain, None, "template"))

    def tree(depth):
        n = 0 if depth <= 0 else rng.choice([0, 1, 1, 2, 3])
        return {"id": rng.randrange(256), "children": [tree(depth - 1) for _ in range(n)]}

    def ref(node, fmt, endian):
        if fmt is None:
            body = struct.pack(endian + "H", node["id"]) + bytes([len(node["children"])])
            return body + b"".join(ref(c, fmt, endian) for c in node["children"])
        body = bytes([node["id"], len(node["children"])]) + b"".join(ref(c, fmt, endian) for c in node["children"])
        return struct.pack(endian + fmt, len(body)) + body

    for spec, fmt, label in shapes:
        for k in range(ctx.pick(40, 400)):
            v = tree(rng.choice([0, 1, 2, 3]))
            if fmt == "B" and len(ref(v, fmt, "<")) > 200:
                continue
            for endian in ("<", ">"):
                ctx.ev()
                wit = {"recursive_spec": label, "endian": endian, "value": repr(v)[:300]}
                want = ref(v, fmt, endian)
                try:
                    w = se.BufferWriter(endian)
                    w.write(spec, v)
                    data = w.copy_buffer()
                except Exception as e:
                    ctx.violation("recursive-spec:write-raises", "writing a value of a self-referential spec raised", dict(wit, exc=repr(e)[:200]))
                    continue
                if data != want:
                    ctx.violation("recursive-spec:bytes-differ", "a self-referential spec wrote something else than its fields in "
                                  "order", dict(wit, got=data[:80], want=want[:80]))
                    continue
                for pod in (False, True):
                    for trail in (b"", b"\x07\x00"):
                        try:
                            r = se.BufferReader(endian, data + trail, pod=pod)
                            out = r.read(spec)
                            left = len(r)
                        except Exception as e:
                            ctx.violation("recursive-spec:read-raises", "reading back a value of a self-referential spec raised",
                                          dict(wit, pod=pod, exc=repr(e)[:200]))
                            break
                        if gen_spec.canon(out) != gen_spec.canon(v) or left != len(trail):
                            ctx.violation("recursive-spec:value-differs", "a value of a self-referential spec did not read back equal / "
                                          "did not leave the trailing bytes", dict(wit, pod=pod, got=repr(gen_spec.canon(out))[:300], left=left))
                            break
                if v["children"]:
                    ctx.count("recursive_spec_values_with_children")
                ctx.nontrivial(("recursive", label, endian, repr(v)))


def run(ctx):
    if ctx.shard == 0:
        recursive_specs(ctx, ctx.rng)
    depth = ctx.pick(3, 4)
    n_programs = ctx.pick(16000, 20000 * 16)
    base = ctx.seed * 10_000_000
    for i in range(n_programs):
        if not ctx.mine(i):
            continue
        if ctx.out_of_time():
            ctx.count("stopped_by_budget")
            break
        d = depth if i % 3 else max(1, depth - 1)
        check_program(ctx, base + i, d)
        if ctx.violations.get("no-progress", {}).get("count", 0) >= 2:
            ctx.count("stopped_after_repeated_no_progress")
            break
    for k, v in gen_spec.STATS.items():
        ctx.count(k, v)


def replay(ctx, w):
    if "program_seed" in w:
        check_program(ctx, w["program_seed"], w.get("depth", 3))
