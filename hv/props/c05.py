"""C05 - proxied circuit: acknowledgements stay truthful under injection, drops, resends.

A real ProxiedCircuit with a recording transport is driven with exactly the call sequence of
InterceptingLLUDPProxyProtocol.handle_proxied_packet (collect_acks -> drop_message | send), proxy injections
(circuit.send of synthetic messages) and resend_unacked() under a virtual clock, in lock-step with an abstract
reference model of the two endpoints.  After every event the datagrams handed to the transport are compared with
what the model allows.  Bounded-exhaustive DFS (state-hashed, replay from the root) + long random walks.
"""
import asyncio
import random

from .. import env

env.import_repo()

from hippolyzer.lib.base.message.message import Message, Block  # noqa: E402
from hippolyzer.lib.base.message.msgtypes import PacketFlags  # noqa: E402
from hippolyzer.lib.base.network.transport import Direction, AbstractUDPTransport  # noqa: E402
from hippolyzer.lib.base.settings import Settings  # noqa: E402
from hippolyzer.lib.base.message.udpserializer import UDPMessageSerializer  # noqa: E402
from hippolyzer.lib.base.message.udpdeserializer import UDPMessageDeserializer  # noqa: E402
from hippolyzer.lib.proxy.circuit import ProxiedCircuit  # noqa: E402

from ..harness_proxy import VirtualClock  # noqa: E402
from ..monitors import tracker as tmon  # noqa: E402

LEVEL = "exploration"
SHARDS = {"quick": 8, "thorough": 16}
TIMEOUT_S = {"quick": 900, "thorough": 3600}
BUDGET_S = {"quick": 150, "thorough": 1800}
RULE = ("alphabet of 23 actions (+4 in the walks: an endpoint's reliable packet is take()n and its copy sent by the proxy; an endpoint retransmits its oldest unacknowledged reliable packet with the acknowledgements it owes at that moment): {viewer, sim} x {reliable, unreliable} x {no acks, appended acks for everything seen, "
        "appended ack for the oldest seen}, standalone PacketAck {all, oldest, oldest+appended rest} per side, proxy "
        "injections {out, in} x {reliable, unreliable}, drop-next toggle, clock +1 s, clock +3 s (resend interval) each "
        "followed by resend_unacked(). Exhaustive DFS with (implementation, model) state hashing to depth 4 (quick) / 6 "
        "(thorough) + random walks of 200 events (half of them timer-heavy: several injected reliable packets outstanding, 1 s clock steps) at circuit level, + random walks of 120 events with the same actions and model through the real proxy protocol (real datagrams via datagram_received and the SOCKS transport, drops performed by an addon). distinct_nontrivial = distinct hashed states with at least one injection "
        "or drop"
        ". Round-5 addition (walks): the message the circuit has just forwarded or dropped is sent once more as circuit.send(message.take()) - the copy is a packet of the proxy's own and must not repeat the endpoint's acknowledgements"
        ". Round 9: endpoints that number their packets from 0 (a shallower exhaustive pass and most walks); pings naming the next unsent id as part of the walks' traffic")
ASSUMPTIONS = [
    "endpoints only acknowledge reliable packets they have actually been shown, each at most once",
    "injected reliable packets get a retry budget of 3 in the exhaustive part so that exhaustion is inside the depth "
    "bound (10, the default, in half of the random walks)",
    "what the proxy writes into StartPingCheck.OldestUnacked and packet-id wrap-around are outside the statement (pings are part of the walks' traffic: what happens to the packets that follow them is judged)",
    "tracker windows stay at their default size (no eviction inside a run; C04 covers eviction)",
]
MUST_REACH = {"pings_naming_an_id_not_yet_sent": 20, "walks_with_an_endpoint_numbering_from_zero": 4, "states_with_endpoints_numbering_from_zero": 100, "events": 5000, "acks_translated_after_injection": 50, "acks_for_injected_swallowed": 50,
              "drops_with_piggybacked_acks": 20, "proxy_acks_for_dropped_reliable": 20, "resends_observed": 50,
              "budgets_exhausted": 5, "completions_by_ack": 50, "packetack_with_appended_acks": 20, "states": 300,
              "older_ack_after_second_injection": 10, "protocol_level_events": 2000, "taken_reliable_sent_later": 50, "endpoint_retransmissions": 50, "retransmissions_dropped": 5, "walks_with_fractional_resend_interval": 10, "replays_of_handled_messages": 30}

_ser = UDPMessageSerializer()
_es = Settings()
_es.ENABLE_DEFERRED_PACKET_PARSING = True
_deser = UDPMessageDeserializer(settings=_es)
_es2 = Settings()
_es2.ENABLE_DEFERRED_PACKET_PARSING = False
_eager = UDPMessageDeserializer(settings=_es2)

OUT, IN = Direction.OUT, Direction.IN
RESEND_EVERY = 3.0
CURRENT = {"resend_every": RESEND_EVERY,      # the interval the next run's circuit is configured with
           "first_ids": (1, 1)}                # where the viewer / the simulator start numbering their packets

ACTIONS = []
for side in ("V", "S"):
    for rel in ("r", "u"):
        for acks in ("-", "A", "o"):
            ACTIONS.append(f"{side}{rel}{acks}")
    for mode in ("A", "o", "m"):
        ACTIONS.append(f"{side}P{mode}")
ACTIONS += ["IOr", "IOu", "IIr", "IIu", "D", "T1", "T3"]
# walks (not the exhaustive part) also let the proxy TAKE an endpoint's reliable packet and send the copy itself
WALK_ACTIONS = ACTIONS + ["VT", "ST", "VX", "SX", "VY", "SY", "Th", "VZ", "SZ", "VG", "SG"]


class RecTransport(AbstractUDPTransport):
    def __init__(self):
        self.packets = []

    def send_packet(self, packet):
        self.packets.append((packet.direction, bytes(packet.data), packet.dst_addr))

    def close(self):
        pass


class Side:
    """What one endpoint knows: its next own id, the reliable wire ids it has been shown and not yet acked."""

    def __init__(self):
        self.next_id = 1
        self.seen_unacked = []
        self.seen_ever = set()        # reliable wire ids this endpoint has been shown at least once
        self.own_unacked = []         # own reliable ids for which no acknowledgement has reached this endpoint yet
        self.own_reliable = []        # every own reliable id
        self.sent_ids = set()


class Model:
    def __init__(self, tries):
        self.sides = {"V": Side(), "S": Side()}
        self.sides["V"].next_id, self.sides["S"].next_id = CURRENT["first_ids"]
        self.first_ids = tuple(CURRENT["first_ids"])
        self.inj = {OUT: set(), IN: set()}           # injected wire ids per direction
        self.used = {OUT: set(), IN: set()}          # every wire id the proxy put on the wire per direction
        self.unacked = {}                            # (direction, wire id) -> [last_sent_time, tries_left, future, name]
        self.drop_next = False
        self.now = 0.0
        self.tries = tries
        self.injections_total = 0
        self.drops_total = 0
        self.resend_every = RESEND_EVERY

    def orig(self, direction, wire_id):
        return wire_id - sum(1 for i in self.inj[direction] if i < wire_id)

    def eff(self, direction, orig_id):
        w = orig_id
        while True:
            k = sum(1 for i in self.inj[direction] if i < w)
            if w - k == orig_id and w not in self.inj[direction]:
                return w
            w += 1

    def key(self):
        s = self.sides
        return (s["V"].next_id, tuple(s["V"].seen_unacked), s["S"].next_id, tuple(s["S"].seen_unacked),
                tuple(sorted(self.inj[OUT])), tuple(sorted(self.inj[IN])),
                tuple(sorted((d.name, w, round(self.now - v[0], 3), v[1]) for (d, w), v in self.unacked.items())),
                self.drop_next)


def decode_emitted(data):
    m = _eager.deserialize(data)
    blocks = []
    if m.name == "PacketAck":
        blocks = [b["ID"] for b in m["Packets"]]
    return {"name": m.name, "id": m.packet_id, "flags": int(m.send_flags), "acks": list(m.acks), "blocks": blocks}


class Run:
    def __init__(self, ctx, tries):
        self.ctx = ctx
        self.transport = RecTransport()
        self.circuit = ProxiedCircuit(("10.0.0.1", 1), ("10.1.0.1", 2), self.transport)
        self.circuit.resend_every = CURRENT["resend_every"]
        self.far_addr, self.near_addr = self.circuit.host, self.circuit.near_host
        self.model = Model(tries)
        self.model.resend_every = CURRENT["resend_every"]
        self.path = []
        self.ok = True

    def close(self):
        pass

    # ---- helpers
    def viol(self, mech, what, **extra):
        self.ok = False
        self.ctx.violation(mech, what, dict(extra, path=list(self.path), tries=self.model.tries, first_ids=list(self.model.first_ids),
                                            resend_every=self.model.resend_every, backend=getattr(self, "backend", "circuit")))

    def take_emissions(self):
        out = self.transport.packets
        self.transport.packets = []
        res = []
        for (direction, data, dst) in out:
            try:
                d = decode_emitted(data)
            except Exception as e:
                self.viol("emitted-undecodable", "the circuit emitted a datagram that does not decode", exc=repr(e)[:200],
                          data=data[:100])
                continue
            d["direction"] = direction
            d["dst"] = dst
            res.append(d)
        return res

    def deliver(self, em):
        """Account for a datagram reaching an endpoint: what it is shown and which acks it receives."""
        m = self.model
        target = "S" if em["direction"] == OUT else "V"
        side = m.sides[target]
        expected_dst = self.far_addr if em["direction"] == OUT else self.near_addr
        if em["dst"] != expected_dst:
            self.viol("wrong-destination", "datagram sent to the wrong endpoint", em=_j(em))
        if em["flags"] & int(PacketFlags.RELIABLE) and em["id"] not in side.seen_ever:
            # first time this endpoint is shown the packet (possibly a retransmission whose first copy the proxy dropped)
            side.seen_ever.add(em["id"])
            side.seen_unacked.append(em["id"])
        for a in em["acks"] + em["blocks"]:
            if a in side.own_unacked:
                side.own_unacked.remove(a)
        # truthfulness: every ack shown to X names an id X sent itself
        for a in em["acks"] + em["blocks"]:
            if a not in side.sent_ids:
                self.viol("ack-for-id-never-sent", "an endpoint was shown an acknowledgement for a packet id it never sent",
                          target=target, ack=a, em=_j(em), sent=sorted(side.sent_ids))

    def endpoint_packet(self, who, reliable, ack_mode, packet_ack_mode=None, resend=False, replay=False, ping=False):
        """who in V/S sends its next packet. ack_mode: '-', 'A' (all seen), 'o' (oldest seen).
        packet_ack_mode: None or 'A'/'o'/'m' (m = PacketAck block for the oldest + appended acks for the rest)."""
        m = self.model
        ctx = self.ctx
        side = m.sides[who]
        direction = OUT if who == "V" else IN
        rev = IN if who == "V" else OUT
        pending = list(side.seen_unacked)
        appended, blocks = [], []
        if packet_ack_mode is None:
            if ack_mode == "A":
                appended = pending
            elif ack_mode == "o":
                appended = pending[:1]
        else:
            if not pending:
                return False
            if packet_ack_mode == "A":
                blocks = pending
            elif packet_ack_mode == "o":
                blocks = pending[:1]
            else:
                if len(pending) < 2:
                    return False
                blocks, appended = pending[:1], pending[1:]
                ctx.count("packetack_with_appended_acks")
        if resend == "crossed" and not side.own_reliable:
            return False
        if resend is True and not side.own_unacked:
            return False
        for a in appended + blocks:
            side.seen_unacked.remove(a)
        if resend:
            # the endpoint retransmits its oldest reliable packet nobody has acknowledged to it yet, with the RESENT flag and
            # whatever acknowledgements it owes at this moment
            # ("crossed": the acknowledgement for it was already on its way - the retransmission crossed it on the wire)
            o = side.own_unacked[0] if resend is True else side.own_reliable[-1]
            ctx.count("endpoint_retransmissions")
        else:
            o = side.next_id
            side.next_id += 1
            side.sent_ids.add(o)
            if reliable:
                side.own_unacked.append(o)
                side.own_reliable.append(o)
        flags = int(PacketFlags.RELIABLE) if reliable else 0
        if resend:
            flags |= int(PacketFlags.RESENT)
        if ping:
            # the periodic ping names the oldest id the endpoint still waits to hear about - or, when there is none, the id
            # it will use NEXT (one the proxy has not seen yet); what the proxy makes of that field is not judged here, what
            # happens to the packets that follow is
            oldest = side.own_unacked[0] if side.own_unacked else side.next_id
            msg = Message("StartPingCheck", Block("PingID", PingID=o & 0xFF, OldestUnacked=oldest), packet_id=o, flags=flags,
                          acks=tuple(appended))
            ctx.count("pings_naming_an_id_not_yet_sent" if not side.own_unacked else "pings_naming_an_unacked_id")
        elif packet_ack_mode is None:
            msg = Message("CompletePingCheck", Block("PingID", PingID=o & 0xFF), packet_id=o, flags=flags, acks=tuple(appended))
        else:
            msg = Message("PacketAck", *[Block("Packets", ID=x) for x in blocks], packet_id=o, flags=flags,
                          acks=tuple(appended))
        if appended:
            msg.send_flags |= int(PacketFlags.ACK)
        dropping = m.drop_next
        m.drop_next = False
        # --- real code
        try:
            self.process(bytes(_ser.serialize(msg)), direction, dropping)
        except Exception as e:
            self.viol("circuit-raises", "the circuit raised while handling an endpoint's packet", exc=repr(e)[:300])
            return True
        ems = self.take_emissions()
        # --- model
        all_acks = appended + blocks
        for a in all_acks:
            ent = m.unacked.pop((rev, a), None)
            if ent is not None:
                ctx.count("completions_by_ack")
                if not ent[2].done() or ent[2].exception() is not None:
                    self.viol("completion-not-fired-on-ack", "an injected reliable packet was acknowledged but its completion "
                              "signal did not fire", ack=a)
        non_inj_app = [a for a in appended if a not in m.inj[rev]]
        non_inj_blk = [a for a in blocks if a not in m.inj[rev]]
        swallowed = len(all_acks) - len(non_inj_app) - len(non_inj_blk)
        if swallowed:
            ctx.count("acks_for_injected_swallowed", swallowed)
        exp_app = [m.orig(rev, a) for a in non_inj_app]
        exp_blk = [m.orig(rev, a) for a in non_inj_blk]
        if any(m.orig(rev, a) != a for a in non_inj_app + non_inj_blk):
            ctx.count("acks_translated_after_injection")
            if any(sum(1 for i in m.inj[rev] if i > a) >= 1 and sum(1 for i in m.inj[rev] if i < a) >= 1
                   for a in non_inj_app + non_inj_blk):
                ctx.count("older_ack_after_second_injection")
        peer = "S" if who == "V" else "V"
        if dropping and resend:
            ctx.count("retransmissions_dropped")
        if dropping:
            m.drops_total += 1
            # (1) reliable -> the proxy acks the sender itself, (2) piggy-backed acks go on in a separate PacketAck
            to_sender = [e for e in ems if e["direction"] == rev]
            to_peer = [e for e in ems if e["direction"] == direction]
            if reliable:
                ctx.count("proxy_acks_for_dropped_reliable")
                if len(to_sender) != 1 or to_sender[0]["name"] != "PacketAck" or to_sender[0]["blocks"] != [o] or to_sender[0]["acks"]:
                    self.viol("dropped-reliable-not-acked", "a dropped reliable packet was not acknowledged to its sender "
                              "exactly once", ems=_j(ems), orig=o)
            elif to_sender:
                self.viol("unexpected-ack-to-sender", "a dropped unreliable packet produced traffic to its sender", ems=_j(ems))
            if exp_app:
                ctx.count("drops_with_piggybacked_acks")
                got = [a for e in to_peer for a in e["acks"] + e["blocks"]]
                if len(to_peer) != 1 or got != exp_app:
                    self.viol("piggybacked-acks-of-dropped-packet-lost-or-wrong", "acks piggy-backed on a dropped packet did not "
                              "reach the other endpoint exactly once, translated", expected=exp_app, ems=_j(ems))
            elif to_peer:
                self.viol("dropped-packet-forwarded", "a dropped packet produced traffic to the other endpoint", ems=_j(ems))
            # ids used by the proxy's own packets
            for e in to_sender:
                self._note_injected(rev, e)
            for e in to_peer:
                m.used[direction].add(e["id"])
        else:
            expect_none = packet_ack_mode is not None and not exp_blk and not exp_app
            if expect_none:
                if ems:
                    self.viol("ack-for-injected-forwarded", "a PacketAck that only acknowledges injected packets was forwarded",
                              ems=_j(ems))
            else:
                if len(ems) != 1 or ems[0]["direction"] != direction:
                    self.viol("not-forwarded-exactly-once", "an endpoint's packet was not forwarded exactly once", ems=_j(ems))
                else:
                    e = ems[0]
                    w = m.eff(direction, o)
                    if e["id"] != w:
                        self.viol("wrong-wire-id", "forwarded packet does not carry the expected wire id", got=e["id"], want=w)
                    if e["acks"] != exp_app:
                        self.viol("appended-acks-wrong", "appended acks were not translated / filtered as the model requires",
                                  got=e["acks"], want=exp_app, sent=appended, injected=sorted(m.inj[rev]))
                    if packet_ack_mode is not None and e["blocks"] != exp_blk:
                        self.viol("packetack-blocks-wrong", "PacketAck blocks were not translated / filtered as the model "
                                  "requires", got=e["blocks"], want=exp_blk, sent=blocks, injected=sorted(m.inj[rev]))
                    if bool(e["flags"] & int(PacketFlags.ACK)) != bool(e["acks"]):
                        self.viol("ack-flag-inconsistent", "ACK flag does not match the appended acks", em=_j(e))
                    if bool(e["flags"] & int(PacketFlags.RELIABLE)) != reliable:
                        self.viol("reliable-flag-changed", "RELIABLE flag changed in transit", em=_j(e))
                    m.used[direction].add(e["id"])
        for e in ems:
            self.deliver(e)
        if replay:
            self.replay_handled(direction, "CompletePingCheck")
        return True

    def replay_handled(self, direction, name):
        """The message the circuit has just dealt with (forwarded or dropped - its acknowledgements went where they had to) is
        sent once more by an addon the documented way, as `circuit.send(message.take())`: a packet of the proxy's own, which
        must not carry the endpoint's acknowledgements a second time."""
        wire = self.last_handled()
        if wire is None:
            return
        try:
            self.circuit.send(wire.take())
        except Exception as e:
            self.viol("circuit-raises", "re-sending the copy of an already handled message raised", exc=repr(e)[:300])
            return
        self.ctx.count("replays_of_handled_messages")
        ems = self.take_emissions()
        if len(ems) != 1 or ems[0]["direction"] != direction or ems[0]["name"] != name:
            self.viol("replayed-copy-not-sent-once", "the copy of an already handled message was not put on the wire exactly once",
                      ems=_j(ems))
        else:
            e = ems[0]
            if e["acks"] or e["blocks"] or e["flags"] & int(PacketFlags.ACK):
                self.viol("replayed-copy-repeats-acks", "the copy of an already handled message carries that message's "
                          "acknowledgements a second time", em=_j(e))
                e = dict(e, acks=[], blocks=[])     # reported; keep the model's bookkeeping going
            self._note_injected(direction, e)
            ems = [e]
        for e in ems:
            self.deliver(e)

    def last_handled(self):
        return getattr(self, "_last_wire", None)

    def endpoint_taken(self, who):
        """An endpoint's reliable packet is taken by an addon (Message.take()): the proxy drops and acknowledges the original
        and the addon sends the copy - from then on that copy is a reliable packet the proxy injected."""
        m = self.model
        side = m.sides[who]
        direction = OUT if who == "V" else IN
        rev = IN if who == "V" else OUT
        o = side.next_id
        side.next_id += 1
        side.sent_ids.add(o)
        msg = Message("CompletePingCheck", Block("PingID", PingID=o & 0xFF), packet_id=o, flags=int(PacketFlags.RELIABLE))
        m.drop_next = False
        try:
            self.process_take(bytes(_ser.serialize(msg)), direction)
        except Exception as e:
            self.viol("circuit-raises", "taking an endpoint's packet and sending the copy raised", exc=repr(e)[:300])
            return True
        self.ctx.count("taken_reliable_sent_later")
        ems = self.take_emissions()
        to_sender = [e for e in ems if e["direction"] == rev]
        to_peer = [e for e in ems if e["direction"] == direction]
        m.drops_total += 1
        if len(to_sender) != 1 or to_sender[0]["name"] != "PacketAck" or to_sender[0]["blocks"] != [o] or to_sender[0]["acks"]:
            self.viol("dropped-reliable-not-acked", "the original of a taken reliable packet was not acknowledged to its sender "
                      "exactly once", ems=_j(ems), orig=o)
        for e in to_sender:
            self._note_injected(rev, e)
        if len(to_peer) != 1 or to_peer[0]["name"] != "CompletePingCheck" or not to_peer[0]["flags"] & int(PacketFlags.RELIABLE):
            self.viol("taken-copy-not-sent-once", "the copy of a taken packet was not put on the wire exactly once, reliably", ems=_j(ems))
            for e in ems:
                self.deliver(e)
            return True
        e = to_peer[0]
        self._note_injected(direction, e)
        info = self.circuit.unacked_reliable.get((direction, e["id"]))
        if info is None:
            self.viol("injected-reliable-not-tracked", "a reliable packet the proxy sent itself (copy of a taken packet) is not in "
                      "the unacked table, so it will never be retransmitted", em=_j(e))
        else:
            info.tries_left = m.tries
            m.unacked[(direction, e["id"])] = [m.now, m.tries, info.completed, e["name"]]
        for e2 in ems:
            self.deliver(e2)
        return True

    def process_take(self, data, direction):
        wire = _deser.deserialize(data)
        wire.direction = direction
        cp = wire.take()
        self.circuit.collect_acks(wire)
        self.circuit.drop_message(wire)        # what the proxy does with a queued original
        self.circuit.send(cp)

    def process(self, data, direction, dropping):
        """Circuit-level backend: the call sequence of handle_proxied_packet, written out."""
        wire = _deser.deserialize(data)
        wire.direction = direction
        self._last_wire = wire
        self.circuit.collect_acks(wire)
        if dropping:
            self.circuit.drop_message(wire)
        else:
            self.circuit.send(wire)

    def _note_injected(self, direction, e):
        m = self.model
        if e["id"] in m.used[direction]:
            # not part of this property's statement (wire-id uniqueness of proxy-originated PacketAcks); observed only
            self.ctx.count("proxy_packet_reused_a_wire_id")
        m.inj[direction].add(e["id"])
        m.used[direction].add(e["id"])

    def inject(self, direction, reliable):
        m = self.model
        flags = int(PacketFlags.RELIABLE) if reliable else 0
        msg = Message("AgentPause", Block("AgentData", AgentID="00000000-0000-0000-0000-000000000001",
                                          SessionID="00000000-0000-0000-0000-000000000002", SerialNum=m.injections_total & 0xFFFF),
                      flags=flags, direction=direction)
        try:
            self.circuit.send(msg)
        except Exception as e:
            self.viol("inject-raises", "injecting a packet raised", exc=repr(e)[:300])
            return True
        m.injections_total += 1
        ems = self.take_emissions()
        if len(ems) != 1 or ems[0]["direction"] != direction or ems[0]["name"] != "AgentPause":
            self.viol("injection-not-sent-once", "an injected packet was not put on the wire exactly once", ems=_j(ems))
            return True
        e = ems[0]
        self._note_injected(direction, e)
        if reliable:
            info = self.circuit.unacked_reliable.get((direction, e["id"]))
            if info is None:
                self.viol("injected-reliable-not-tracked", "an injected reliable packet is not in the unacked table", em=_j(e))
            else:
                info.tries_left = m.tries
                m.unacked[(direction, e["id"])] = [m.now, m.tries, info.completed, e["name"]]
        self.deliver(e)
        return True

    def tick(self, seconds):
        m = self.model
        m.now += seconds
        self.clock.advance(seconds)
        try:
            self.circuit.resend_unacked()
        except Exception as e:
            self.viol("resend-raises", "resend_unacked raised", exc=repr(e)[:300])
            return True
        ems = self.take_emissions()
        expected = []
        for (d, w), ent in list(m.unacked.items()):
            if m.now - ent[0] >= m.resend_every - 1e-9:
                ent[1] -= 1
                if ent[1] == 0:
                    del m.unacked[(d, w)]
                    self.ctx.count("budgets_exhausted")
                    fut = ent[2]
                    if not fut.done() or not isinstance(fut.exception(), TimeoutError):
                        self.viol("budget-spent-but-not-failed", "retry budget spent but the completion signal did not fail",
                                  wire=w)
                    continue
                ent[0] = m.now
                expected.append((d, w))
            else:
                if ent[2].done():
                    self.viol("completed-early", "completion signal fired before an ack or the end of the budget", wire=w)
        got = [(e["direction"], e["id"]) for e in ems]
        if sorted(got, key=repr) != sorted(expected, key=repr):
            self.viol("resend-law", "resend_unacked() did not retransmit exactly the due, unacknowledged injected packets",
                      got=[(d.name, w) for d, w in got], expected=[(d.name, w) for d, w in expected], now=m.now)
        for e in ems:
            self.ctx.count("resends_observed")
            if not e["flags"] & int(PacketFlags.RESENT) or not e["flags"] & int(PacketFlags.RELIABLE):
                self.viol("resend-flags", "a retransmission lacks the RESENT/RELIABLE flags", em=_j(e))
            self.deliver(e)
        # futures of live entries must still be pending
        for (d, w), ent in m.unacked.items():
            if ent[2].done():
                self.viol("completed-early", "completion signal fired although the packet is neither acked nor exhausted", wire=w)
        # the implementation's table must match the model's
        if set(self.circuit.unacked_reliable.keys()) != set(m.unacked.keys()):
            self.viol("unacked-table-differs", "the circuit's unacked table differs from the model",
                      real=sorted((d.name, w) for d, w in self.circuit.unacked_reliable.keys()),
                      model=sorted((d.name, w) for d, w in m.unacked.keys()))
        return True

    def apply(self, action):
        self.path.append(action)
        self.ctx.count("events")
        if action == "D":
            if self.model.drop_next:
                return False
            self.model.drop_next = True
            return True
        if action == "T1":
            return self.tick(1.0)
        if action == "T3":
            return self.tick(3.0)
        if action == "Th":
            return self.tick(0.8)
        if action[0] == "I":
            return self.inject(OUT if action[1] == "O" else IN, action[2] == "r")
        who = action[0]
        if action[1] == "T":
            return self.endpoint_taken(who)
        if action[1] == "X":
            return self.endpoint_packet(who, True, "A", resend=True)
        if action[1] == "Y":
            return self.endpoint_packet(who, True, "A", resend="crossed")
        if action[1] == "Z":
            return self.endpoint_packet(who, False, "A", replay=True)
        if action[1] == "G":
            return self.endpoint_packet(who, False, "-", ping=True)
        if action[1] == "P":
            return self.endpoint_packet(who, False, "-", packet_ack_mode=action[2])
        return self.endpoint_packet(who, action[1] == "r", action[2])

    def state_key(self):
        c = self.circuit
        return (self.model.key(), repr(c.in_injections), repr(c.out_injections),
                tuple(sorted((d.name, w, i.tries_left) for (d, w), i in c.unacked_reliable.items())))


class DropAddon:
    """The 'proxy drops the next packet' action, as an addon would do it."""
    def __init__(self):
        self.drop_next = False
        self.take_next = False
        self.taken = None
        self.last_seen = None

    def handle_lludp_message(self, session, region, message):
        self.last_seen = message
        if self.take_next:
            self.take_next = False
            self.taken = message.take()
            return None
        if self.drop_next:
            self.drop_next = False
            region.circuit.drop_message(message)
            return True


class ProtocolRun(Run):
    """Same actions and the same model, but every endpoint packet is a real datagram through the real
    InterceptingLLUDPProxyProtocol (SOCKS framing included) and drops are performed by an addon."""
    def __init__(self, ctx, tries):
        from ..harness_proxy import Rig
        from hippolyzer.lib.proxy.settings import ProxySettings
        self.ctx = ctx
        self.addon = DropAddon()
        settings = ProxySettings()
        settings.ALLOW_AUTO_REQUEST_OBJECTS = False
        self.rig = Rig(addons=[self.addon], settings=settings)
        self.far_addr, self.near_addr = ("10.1.0.1", 13001), ("10.0.0.1", 40001)
        self.session = self.rig.add_session(self.far_addr)
        self.assoc = self.rig.add_association(self.near_addr)
        ucc = Message("UseCircuitCode", Block("CircuitCode", Code=self.session.circuit_code, SessionID=self.session.id,
                                              ID=self.session.agent_id), packet_id=1, flags=0)
        exc = self.assoc.from_viewer(self.far_addr, bytes(_ser.serialize(ucc)))
        if exc is not None:
            raise exc
        self.circuit = self.session.regions[0].circuit
        self.circuit.resend_every = CURRENT["resend_every"]
        self.model = Model(tries)
        self.model.resend_every = CURRENT["resend_every"]
        v = self.model.sides["V"]
        v.next_id = 2
        v.sent_ids.add(1)
        self.model.used[OUT].add(1)
        self.rig.sendlog.clear()
        self.path = []
        self.ok = True

    def close(self):
        self.rig.close()

    def process(self, data, direction, dropping):
        self.addon.drop_next = dropping
        exc = self.assoc.from_viewer(self.far_addr, data) if direction == OUT else self.assoc.from_sim(self.far_addr, data)
        self.addon.drop_next = False
        if exc is not None:
            raise exc

    def last_handled(self):
        return self.addon.last_seen

    def process_take(self, data, direction):
        self.addon.take_next = True
        self.addon.taken = None
        exc = self.assoc.from_viewer(self.far_addr, data) if direction == OUT else self.assoc.from_sim(self.far_addr, data)
        self.addon.take_next = False
        if exc is not None:
            raise exc
        if self.addon.taken is None:
            raise AssertionError("the addon hook was not reached")
        self.circuit.send(self.addon.taken)

    def take_emissions(self):
        from ..harness_proxy import socks_unwrap_ref
        out = list(self.rig.sendlog)
        self.rig.sendlog.clear()
        res = []
        for (_, data, addr) in out:
            direction = OUT
            if addr == self.near_addr:
                un = socks_unwrap_ref(data)
                if un is None or un[0] != self.far_addr:
                    self.viol("emitted-bad-socks-framing", "a datagram for the viewer is not framed with the simulator's address",
                              data=data[:60])
                    continue
                data, direction = un[1], IN
            try:
                d = decode_emitted(data)
            except Exception as e:
                self.viol("emitted-undecodable", "the proxy emitted a datagram that does not decode", exc=repr(e)[:200], data=data[:100])
                continue
            d["direction"] = direction
            d["dst"] = addr
            res.append(d)
        return res


def _j(x):
    if isinstance(x, list):
        return [_j(i) for i in x]
    if isinstance(x, dict):
        return {k: (v.name if isinstance(v, Direction) else v) for k, v in x.items()}
    return x


def replay_path(ctx, path, tries, backend="circuit"):
    clock = VirtualClock().install()
    run = None
    try:
        run = (ProtocolRun if backend == "protocol" else Run)(ctx, tries)
        run.backend = backend
        run.clock = clock
        for a in path:
            if not run.apply(a):
                return None
            if not run.ok:
                break
        return run
    finally:
        clock.uninstall()
        if run is not None:
            run.close()


def dfs(ctx, depth, first_actions, tries):
    seen = set()
    frontier = [[a] for a in first_actions]
    states = 0
    while frontier:
        path = frontier.pop()
        if ctx.out_of_time():
            ctx.inconclusive_because("DFS budget exhausted")
            break
        run = replay_path(ctx, path, tries)
        ctx.ev()
        if run is None or not run.ok:
            continue
        key = run.state_key()
        if key in seen:
            continue
        seen.add(key)
        states += 1
        if run.model.injections_total or run.model.drops_total:
            ctx.nontrivial(key)
        if len(path) < depth:
            for a in ACTIONS:
                frontier.append(path + [a])
    ctx.count("states", states)
    return states


def random_walk(ctx, rng, steps, tries, profile="mixed", backend="circuit"):
    clock = VirtualClock().install()
    run = None
    # the resend interval is the caller's to choose: the default (3 s) and a fractional one
    CURRENT["resend_every"] = rng.choice([RESEND_EVERY, RESEND_EVERY, 1.5])
    if CURRENT["resend_every"] != RESEND_EVERY:
        ctx.count("walks_with_fractional_resend_interval")
    # endpoints number their packets from wherever they like: the viewer from 1, this library's own circuits from 0
    CURRENT["first_ids"] = rng.choice([(1, 1), (0, 0), (0, 1), (1, 0), (250, 0)])
    if 0 in CURRENT["first_ids"]:
        ctx.count("walks_with_an_endpoint_numbering_from_zero")
    try:
        run = (ProtocolRun if backend == "protocol" else Run)(ctx, tries)
        run.backend = backend
        run.clock = clock
        weights = [3 if a[0] in "VS" else 4 if a == "D" else 2 for a in WALK_ACTIONS]
        if profile == "timers":
            # several injected reliable packets outstanding at once, fine-grained clock, few acks
            weights = [{"IOr": 6, "IIr": 6, "T1": 10, "Th": 8, "T3": 3, "VT": 3, "ST": 3}.get(a, 2 if a[0] in "VS" and a.endswith("-") else
                                                                                     1 if a[0] in "VS" and len(a) > 2 and a[2] == "o" else 0)
                       for a in WALK_ACTIONS]
        for _ in range(steps):
            a = rng.choices(WALK_ACTIONS, weights=weights)[0]
            run.apply(a)
            if not run.ok:
                break
        ctx.ev()
        ctx.nontrivial(("walk", backend, tuple(run.path)))
        if backend == "protocol":
            ctx.count("protocol_level_events", len(run.path))
        return run.path
    finally:
        clock.uninstall()
        CURRENT["resend_every"] = RESEND_EVERY
        CURRENT["first_ids"] = (1, 1)
        if run is not None:
            run.close()


def run(ctx):
    tmon.install()
    try:
        loop = asyncio.get_event_loop_policy().get_event_loop()
    except Exception:
        loop = asyncio.new_event_loop()
        asyncio.set_event_loop(loop)
    depth = ctx.pick(4, 6)
    firsts = [a for i, a in enumerate(ACTIONS) if ctx.mine(i)]
    n = dfs(ctx, depth, firsts, tries=3)
    ctx.flag("exhaustive", True)
    ctx.flag("dfs_depth", depth)
    ctx.sample({"dfs_first_actions": firsts, "depth": depth, "states": n, "alphabet": ACTIONS})
    # directed: retry budgets run out (both directions, both budgets, with unrelated traffic in between)
    if ctx.shard == 0:
        for tries, path in ((3, ["D", "Vr-", "Sr-", "Sr-", "D", "VY", "VY"]), (3, ["Vr-", "Sr-", "D", "VX", "SrA", "VY"]),
                            (3, ["VT", "T3", "SrA", "T3"]), (3, ["ST", "T3", "T3", "T3", "T3"]), (3, ["IOr", "T3", "T3", "T3", "T3"]), (3, ["IIr", "T1", "T3", "Vu-", "T3", "Su-", "T3", "T1"]),
                            (10, ["IOr"] + ["T3"] * 11), (10, ["IIr", "IOr"] + ["T3", "Vu-", "T1"] * 11),
                            (3, ["IOr", "IOr", "T3", "SPo", "T3", "T3", "T3"]), (3, ["IIr", "T3", "T3", "VrA", "T3", "T3"])):
            replay_path(ctx, path, tries)
            ctx.ev()
    # the exhaustive part once more, one level shallower, with both endpoints numbering from 0
    CURRENT["first_ids"] = (0, 0)
    try:
        n0 = dfs(ctx, depth - 1, firsts, tries=3)
        ctx.count("states_with_endpoints_numbering_from_zero", n0)
    finally:
        CURRENT["first_ids"] = (1, 1)
    rng = ctx.rng
    for k in range(ctx.pick(12, 400)):
        if ctx.out_of_time():
            break
        path = random_walk(ctx, rng, 200, tries=rng.choice([3, 10]), profile="timers" if k % 2 else "mixed")
        if k == 0:
            ctx.sample({"random_walk_head": path[:40]})
    # the same actions through the real proxy protocol (datagram_received -> handle_proxied_packet, drops by an addon)
    for k in range(ctx.pick(6, 200)):
        if ctx.out_of_time():
            break
        random_walk(ctx, rng, 120, tries=rng.choice([3, 10]), profile="timers" if k % 3 == 2 else "mixed", backend="protocol")
    if ctx.shard == 0:
        for path in (["Sr-", "Sr-", "D", "Vr-", "D", "VY", "VY"], ["Vr-", "D", "Sr-", "Sr-", "D", "SY", "SX"],
                     ["VT", "T3", "T3", "T3", "T3"], ["ST", "T1", "T3", "VrA", "T3"], ["IIr", "D", "SrA", "T3", "T3"], ["IOr", "D", "VrA", "T3"], ["IIr", "D", "VPA", "T3"], ["IOr", "IIr", "D", "SuA", "D", "VuA", "T3"]):
            replay_path(ctx, path, 3, backend="protocol")
            ctx.ev()
    tmon.drain(ctx)


def replay(ctx, w):
    if "path" in w:
        try:
            asyncio.get_event_loop_policy().get_event_loop()
        except Exception:
            asyncio.set_event_loop(asyncio.new_event_loop())
        CURRENT["first_ids"] = tuple(w.get("first_ids", (1, 1)))
        CURRENT["resend_every"] = w.get("resend_every", RESEND_EVERY)
        try:
            replay_path(ctx, w["path"], w.get("tries", 3), backend=w.get("backend", "circuit"))
        finally:
            CURRENT["first_ids"] = (1, 1)
            CURRENT["resend_every"] = RESEND_EVERY
