"""C18 - message log: filters mean what they say; the view equals the filtered log; export/import and freeze/thaw
preserve the logged message.

Three monitors over the real code:
  A. filter semantics: random expression trees are rendered to filter text, compiled by the real grammar and matched
     (short-circuit and full) against generated LLUDP / EQ / HTTP entries; the oracle is an independent evaluator
     working on a plain description of each entry (field list, meta values) and on the generator's own tree.
  B. view invariant: random operation histories (log through a WrappingMessageLogger into windows of different
     sizes, re-filter, pause, resume, clear) with an arrival-indexed model of what has to be visible.
  C. export -> import and freeze -> thaw: the message must serialise to the same datagram and keep its logged
     attributes; EQ events and HTTP flows must come back equal.
"""
import datetime
import random
import re

from .. import env

env.import_repo()

import hippolyzer.lib.base.serialization as se  # noqa: E402
from hippolyzer.lib.base.datatypes import UUID, TupleCoord, Vector3, Vector4, Quaternion, TaggedUnion  # noqa: E402
from hippolyzer.lib.base.message.message import Message, Block  # noqa: E402
from hippolyzer.lib.base.message.msgtypes import PacketFlags  # noqa: E402
from hippolyzer.lib.base.message.udpserializer import UDPMessageSerializer  # noqa: E402
from hippolyzer.lib.base.message.udpdeserializer import UDPMessageDeserializer  # noqa: E402
from hippolyzer.lib.base.network.transport import Direction  # noqa: E402
from hippolyzer.lib.base.settings import Settings  # noqa: E402
from hippolyzer.lib.proxy import templates as ptemplates  # noqa: E402
from hippolyzer.lib.proxy.caps import SerializedCapData  # noqa: E402
from hippolyzer.lib.proxy.http_flow import HippoHTTPFlow  # noqa: E402
from hippolyzer.lib.proxy.message_filter import compile_filter  # noqa: E402
from hippolyzer.lib.proxy.message_logger import (  # noqa: E402
    LLUDPMessageLogEntry, EQMessageLogEntry, HTTPMessageLogEntry, FilteringMessageLogger, WrappingMessageLogger,
    export_log_entries, import_log_entries)

from .. import gen_msg, gen_spec  # noqa: E402
from ..refs import wire  # noqa: E402
from ..harness_http import HTTPRig, make_flow  # noqa: E402

LEVEL = "exploration"
SHARDS = {"quick": 8, "thorough": 16}
TIMEOUT_S = {"quick": 900, "thorough": 3600}
BUDGET_S = {"quick": 120, "thorough": 1500}
RULE = ("A: random filter trees (depth <= 4, leaves: name/type patterns, field existence, field comparisons with every operator "
        "against same-type and wrong-type literals, Meta and enum operands, sub-field selectors, Meta selectors) x pools of "
        "generated LLUDP (template-directed, hand-typed, sub-field bearing; fresh, frozen, lazily parsed), EQ and HTTP entries, "
        "both evaluation modes. B: random histories of {log, set filter, pause, resume, clear} over windows of 1..6 entries. "
        "C: export/import and freeze/thaw of every pooled entry. distinct_nontrivial = distinct (filter shape, entry kind, "
        "verdict) triples + distinct view states"
        ". Round-5 addition: ordering of vector fields is decided by the reference itself, axis by axis, and literals include vectors that tie on some axes and differ on others"
        ". Rounds 6-7: != is judged as the negation of ==; directed equality pairs in the other spelling a value accepts (vector vs tuple, unterminated text vs string); wildcards in the sub-field position aimed at the last / first key and at values only some keys have; three time zones; dates in exported event-queue entries compared as instants"
        ". Round 8: entries frozen while the lazily parsed body is untouched (as encoded, zero runs split differently, body cut short, garbage body): live and thawed message still serialise to the datagram. Round 11: entries are handed to the exporter as a list, a tuple, a generator, an iterator or a filter in turn")
ASSUMPTIONS = [
    "a chain that mixes && and || without parentheses is not generated: the text does not say which combination is meant",
    "whether an operator 'can be applied' to a field is decided by Python's own operator on the logged value; when that "
    "raises TypeError/AttributeError/ValueError the comparison is false for that field",
    "entries do not change after they are logged (the harness never mutates a logged message)",
    "retained entries = the raw window plus entries that stayed visible continuously since they left it",
    "export/import of an LLUDP entry is judged on the datagram the message serialises to and on its logged attributes "
    "(name, packet id, flags, acks, extra, direction, dropped, synthetic, meta); a vector coming back as a list of the same "
    "numbers is not counted as a change",
]
MUST_REACH = {"exports_from_a_generator": 20, "exports_from_an_iterator": 20, "exports_from_a_filter": 20, "filter_evaluations": 20000, "filters_compiled": 1500, "true_verdicts": 2000, "false_verdicts": 2000,
              "type_mismatch_leaves_evaluated": 300, "subfield_leaves_evaluated": 100, "view_ops": 1500, "view_checks": 1500,
              "window_overflows": 100, "refilters_with_aged_out_visible": 20, "export_import_checked": 100,
              "freeze_thaw_checked": 100, "frozen_hand_typed_entries_with_message_meta": 50, "untouched_lazy_freeze_thaw_checked": 100, "untouched_lazy_freeze_thaw_checked:split-runs": 20, "entry_kinds_covered": 6, "directed_equality_pairs": 300, "directed_wildcard_subfield_leaves": 100, "tz_covered": 3}

PRIM = (int, float, bytes, str, type(None), tuple, TupleCoord)
OPS = ["==", "!=", "^=", "$=", "~=", ">", ">=", "<", "<=", "&"]
ENUMS = ["ChatType", "SculptType", "AgentControlFlags", "PCode", "ChatSourceType"]


# ------------------------------------------------------------------ entry models

class Model:
    """Plain description of one log entry, built by the generator - the oracle never asks the entry itself."""
    def __init__(self, type_, name, fields, meta, kind):
        self.type = type_
        self.name = name
        self.fields = fields          # [(block, idx, var, value, subdict|None)]
        self.meta = meta              # dict name -> value (raw, before normalisation); callable entries allowed
        self.kind = kind

    def get_meta(self, name):
        if self.type == "HTTP":
            ln = name.lower()
            if ln in self.meta.get("__http__", {}):
                return self.meta["__http__"][ln]
        return self.meta.get(name)


def wildcard_match(s, pat):
    return re.fullmatch(".*".join(re.escape(p) for p in pat.split("*")), s, re.S) is not None


_ORDER = {"<": lambda a, b: a < b, "<=": lambda a, b: a <= b, ">": lambda a, b: a > b, ">=": lambda a, b: a >= b}


def ref_cmp(op, val, expected):
    if not isinstance(val, PRIM):
        val = str(val)
    if op in _ORDER and isinstance(val, TupleCoord) and isinstance(expected, (tuple, list, TupleCoord)):
        # a vector is ordered against another one axis by axis: the comparison holds when it holds on every axis
        # (spelled out here rather than asked of the vector object, which is part of what is being checked)
        try:
            return all(_ORDER[op](x, y) for x, y in zip(tuple(val), tuple(expected)))
        except TypeError:
            return False
    try:
        if op is None:
            return bool(val)
        if op == "==":
            return bool(val == expected)
        if op == "!=":
            # "differs" is the negation of "equals" (asked of equality only, so that a value type whose two operators
            # disagree with each other shows)
            return not bool(val == expected)
        if op == "^=":
            return val is not None and bool(val.startswith(expected))
        if op == "$=":
            return val is not None and bool(val.endswith(expected))
        if op == "~=":
            return val is not None and bool(expected in val)
        if op == "<":
            return bool(val < expected)
        if op == "<=":
            return bool(val <= expected)
        if op == ">":
            return bool(val > expected)
        if op == ">=":
            return bool(val >= expected)
        if op == "&":
            return bool(val & expected)
    except (TypeError, AttributeError, ValueError):
        return False
    raise AssertionError(op)


def resolve_expected(model, valspec):
    kind = valspec[0]
    if kind == "lit":
        return valspec[1]
    if kind == "meta":
        v = model.get_meta(valspec[1])
        if not isinstance(v, (int, float, bytes, str, type(None), tuple)):
            v = v() if callable(v) else str(v)
        return v
    if kind == "enum":
        return getattr(ptemplates, valspec[1])[valspec[2]]
    raise AssertionError(kind)


def ref_leaf(model, leaf):
    """leaf = ("leaf", selector tuple, op|None, valspec|None)"""
    _, sel, op, valspec = leaf
    if len(sel) == 1:
        if op or valspec:
            return False
        return wildcard_match(model.name, sel[0]) or wildcard_match(model.type, sel[0])
    if sel[0] == "Meta":
        if len(sel) == 2:
            return ref_cmp(op, model.get_meta(sel[1]), resolve_expected(model, valspec) if valspec else None)
        if len(sel) == 3:
            d = model.get_meta(sel[1])
            if not d or not hasattr(d, "get"):
                return False
            return ref_cmp(op, d.get(sel[2]), resolve_expected(model, valspec) if valspec else None)
        return False
    if model.type != "LLUDP":
        return False
    if not (wildcard_match(model.name, sel[0]) or wildcard_match(model.type, sel[0])):
        return False
    if len(sel) not in (3, 4):
        return False
    expected = resolve_expected(model, valspec) if valspec else None
    for block, idx, var, value, sub in model.fields:
        if not wildcard_match(block, sel[1]) or not wildcard_match(var, sel[2]):
            continue
        if len(sel) == 3:
            if valspec is None or ref_cmp(op, value, expected):
                return True
        else:
            if not isinstance(sub, dict):
                continue
            for key, subval in sub.items():
                if wildcard_match(str(key), sel[3]):
                    if valspec is None or ref_cmp(op, subval, expected):
                        return True
    return False


def ref_eval(tree, model):
    t = tree[0]
    if t == "leaf":
        return ref_leaf(model, tree)
    if t == "not":
        return not ref_eval(tree[1], model)
    if t == "and":
        return all(ref_eval(c, model) for c in tree[1:])
    if t == "or":
        return any(ref_eval(c, model) for c in tree[1:])
    raise AssertionError(t)


# ------------------------------------------------------------------ rendering filter text

def esc_str(s):
    out = []
    for ch in s:
        if ch == "\\":
            out.append("\\\\")
        elif ch == '"':
            out.append('\\"')
        elif ch == "\n":
            out.append("\\n")
        elif ch == "\t":
            out.append("\\t")
        elif ord(ch) < 0x20 or ord(ch) == 0x7f:
            out.append("\\x%02x" % ord(ch))
        else:
            out.append(ch)
    return "".join(out)


def lit_text(rng, v):
    if v is None:
        return "None"
    if v is True:
        return "True"
    if v is False:
        return "False"
    if isinstance(v, int):
        return hex(v) if rng.random() < 0.3 else str(v)
    if isinstance(v, float):
        return repr(v)
    if isinstance(v, str):
        return '"' + esc_str(v) + '"'
    if isinstance(v, bytes):
        return 'b"' + "".join(chr(b) if 0x20 <= b < 0x7f and b not in (0x22, 0x5c) else "\\x%02x" % b for b in v) + '"'
    if isinstance(v, tuple):
        return "(" + ", ".join(repr(x) for x in v) + ")"
    raise AssertionError(v)


def literal_ok(v):
    """Can the grammar write this value down?"""
    if v is None or isinstance(v, bool):
        return True
    if isinstance(v, int):
        return v >= 0
    if isinstance(v, float):
        r = repr(v)
        return v >= 0 and "e" not in r and "inf" not in r and "nan" not in r and not r.startswith("-")
    if isinstance(v, str):
        return "\r" not in v and "\x00" not in v and len(v) < 200
    if isinstance(v, bytes):
        return len(v) < 200
    if isinstance(v, tuple):
        return len(v) in (3, 4) and all(isinstance(x, (int, float)) and not isinstance(x, bool) and literal_ok(x) for x in v)
    return False


def render(rng, tree, top=True):
    t = tree[0]
    sp = lambda: " " * rng.choice((0, 1, 1, 2))  # noqa: E731
    if t == "leaf":
        _, sel, op, valspec = tree
        s = ".".join(sel)
        if op is None:
            return s
        if valspec[0] == "lit":
            vt = valspec[2]
        elif valspec[0] == "meta":
            vt = "Meta." + valspec[1]
        else:
            vt = valspec[1] + "." + valspec[2]
        return f"{s}{sp()}{op}{sp() or ' '}{vt}"
    if t == "not":
        sub = tree[1]
        if sub[0] == "leaf" and sub[2] is None and rng.random() < 0.5:
            return "!" + render(rng, sub, False)
        return "!(" + render(rng, sub, True) + ")"
    sym = " && " if t == "and" else " || "
    parts = []
    for c in tree[1:]:
        r = render(rng, c, False)
        parts.append(r)
    s = sym.join(parts)
    if top and rng.random() < 0.5:
        return s
    return "(" + sp() + s + sp() + ")"


# A child of an and/or that is itself a chain of the *other* operator must be parenthesised - render() always does
# that for non-top nodes, so an unparenthesised chain only ever contains one operator.


def shape(tree):
    t = tree[0]
    if t == "leaf":
        _, sel, op, valspec = tree
        return ("L", len(sel), sel[0] == "Meta", op, valspec[0] if valspec else None)
    return (t,) + tuple(shape(c) for c in tree[1:])


# ------------------------------------------------------------------ entry generation

def flags_meta(msg):
    f = int(msg.send_flags)
    return {"Synthetic": msg.synthetic, "Dropped": msg.dropped, "Extra": msg.extra, "Resent": f & 0x20, "Zerocoded": f & 0x80,
            "Acks": msg.acks, "Reliable": f & 0x40}


def model_of_message(msg, entry_meta, kind):
    fields = []
    for bname, blocks in msg.blocks.items():
        for i, b in enumerate(blocks):
            for vname, val in b.vars.items():
                sub = None
                try:
                    d = b.deserialize_var(vname)
                    if isinstance(d, TaggedUnion):
                        d = d.value
                    if isinstance(d, dict):
                        sub = d
                except KeyError:
                    pass
                except Exception:
                    sub = None
                fields.append((bname, i, vname, val, sub))
    meta = dict(entry_meta)
    meta.update(msg.meta)
    meta.update(flags_meta(msg))
    return Model("LLUDP", msg.name, fields, meta, kind)


def base_meta(session, region, method, type_):
    return {"RegionName": region.name if region else "", "AgentID": session.agent_id if session else None,
            "SessionID": session.id if session else None, "AgentLocal": None, "Method": method, "Type": type_,
            "SelectedLocal": session.selected.object_local if session else None, "SelectedFull": None,
            "CurrentSelectedLocal": session.selected.object_local if session else None, "CurrentSelectedFull": None}


def typed_message(rng):
    """Hand-typed message with every value class a filter can compare against."""
    name = rng.choice(["Foo", "FooBar", "Quux"])
    blocks = []
    for bname in rng.sample(["Bar", "Baz", "AgentData"], rng.randint(1, 3)):
        for _ in range(rng.randint(1, 3)):
            vars_ = {}
            for vname in rng.sample(["Num", "Text", "Data", "ID", "Pos", "Rot", "Ratio", "Flag", "Pair", "Nothing"], rng.randint(1, 6)):
                vars_[vname] = {
                    "Num": lambda: rng.choice([0, 1, 2, 7, 255, 256, 2 ** 32 - 1, 2 ** 40, rng.randrange(0, 1000), -5]),
                    "Text": lambda: rng.choice(["", "hello", "hello world", "Hello", "a\"b", "back\\slash", "line\nbreak", "é中", "5"]),
                    "Data": lambda: rng.choice([b"", b"abc", b"\x00\x01\x02", b"abc\xff", b"\x05"]),
                    "ID": lambda: UUID(int=rng.choice([0, 1, 0xabcdef << 64, rng.getrandbits(128)])),
                    "Pos": lambda: Vector3(*(rng.choice([0.0, 1.0, 2.5, 128.0, 255.75, -3.0]) for _ in range(3))),
                    "Rot": lambda: Quaternion(*(rng.choice([0.0, 0.5, 1.0]) for _ in range(4))),
                    "Ratio": lambda: rng.choice([0.0, 0.25, 1.5, 1000.125, -2.5]),
                    "Flag": lambda: rng.choice([True, False]),
                    "Pair": lambda: tuple(rng.choice([0, 1, 2]) for _ in range(3)),
                    "Nothing": lambda: None,
                }[vname]()
            blocks.append(Block(bname, **vars_))
    msg = Message(name, *blocks, packet_id=rng.choice([None, rng.randrange(1, 1 << 20)]),
                  flags=PacketFlags(rng.choice([0, 0x40, 0x80, 0xC0, 0x60])), direction=rng.choice(list(Direction)))
    if rng.random() < 0.5:
        msg.meta["Quux"] = rng.choice([0, 2, "x"])
    if rng.random() < 0.3:
        msg.meta["AgentLocal"] = rng.choice([1, 2, 7])
    if rng.random() < 0.3:
        # another name every log entry records by itself: what the message says about itself comes first
        msg.meta["SelectedLocal"] = rng.choice([0, 3, 7])
    return msg


_SUBFIELD_CACHE = []


def subfield_messages(seed):
    """Messages carrying a variable whose registered sub-field serializer decodes to a dict."""
    if _SUBFIELD_CACHE:
        return _SUBFIELD_CACHE
    from . import c09
    n = 0
    for key, ser in sorted(se.SUBFIELD_SERIALIZERS.items(), key=lambda kv: kv[0]):
        if c09.wire_var(key) is None:
            continue
        try:
            ctxs = c09.contexts_for(key, ser)
        except Exception:
            continue
        for label, block, tmpl in ctxs[:3]:
            if tmpl is None:
                continue
            for vi in range(3):
                d = gen_spec.Deriver(random.Random(f"c18:{key}:{label}:{seed}:{vi}"), size_budget=12)
                try:
                    v = d.gen(tmpl, se.ParseContext(block))
                    if isinstance(v, TaggedUnion):
                        if not isinstance(v.value, dict):
                            break
                    elif not isinstance(v, dict):
                        break
                    block.serialize_var(key[2], v)
                    back = block.deserialize_var(key[2])
                    if isinstance(back, TaggedUnion):
                        back = back.value
                    if not isinstance(back, dict) or not back:
                        break
                    msg = Message(key[0], Block(key[1], **dict(block.vars)), packet_id=100 + n, direction=Direction.IN)
                    _SUBFIELD_CACHE.append(msg)
                    n += 1
                    break
                except Exception:
                    continue
    return _SUBFIELD_CACHE


class World:
    """One rig with a real session + region, and entry factories."""
    def __init__(self, rng, seed):
        self.rng = rng
        self.rig = HTTPRig(addons=[])
        self.session = self.rig.add_session(("10.1.0.1", 13001))
        self.region = self.session.regions[0]
        self.region.update_caps({"FakeCap": "https://sim1.example.invalid:12043/cap/fake", "EventQueueGet": "https://sim1.example.invalid:12043/cap/eq"})
        self.templates = gen_msg.all_templates()
        self.subs = subfield_messages(seed)
        self.lazy_deser = UDPMessageDeserializer()
        self.ser = UDPMessageSerializer()

    def close(self):
        self.rig.close()

    def lludp(self, flavour=None):
        rng = self.rng
        flavour = flavour or rng.choice(["typed", "typed", "template", "template", "sub", "lazy", "frozen"])
        with_ctx = rng.random() < 0.4
        session, region = (self.session, self.region) if with_ctx else (None, None)
        if flavour == "sub" and self.subs:
            src = rng.choice(self.subs)
            msg = Message(src.name, *[Block(bn, **dict(b.vars)) for bn, bl in src.blocks.items() for b in bl],
                          packet_id=src.packet_id, direction=src.direction)
        elif flavour in ("template", "lazy", "frozen"):
            tmpl = rng.choice(self.templates)
            spec = gen_msg.limit_for_zerocode(rng, tmpl, {})
            if flavour == "lazy":
                # readable text that arrives without its terminator (senders do leave it off): such a field is bytes that
                # also compare like their text
                for (bname, entries) in spec["blocks"]:
                    for ent in entries or ():
                        for var in tmpl.get_block(bname).variables:
                            if var.type.name == "MVT_VARIABLE" and not any(h in var.name for h in gen_msg._BINARY_HINTS) \
                                    and rng.random() < 0.4:
                                ent[var.name] = ["b", rng.choice([b"hello", b"{", b"abc def", b"x", b"Hello World"])]
            msg = gen_msg.build_message(spec)
            if flavour == "lazy":
                if msg.packet_id is None:
                    msg.packet_id = rng.randrange(1, 1000)
                wire = self.ser.serialize(msg)
                msg = self.lazy_deser.deserialize(wire)
                msg.direction = rng.choice(list(Direction))
        else:
            msg = typed_message(rng)
        entry = LLUDPMessageLogEntry(msg, region, session)
        method = msg.direction.name if msg.direction is not None else ""
        model = model_of_message(msg, base_meta(session, region, method, "LLUDP"), "LLUDP-" + flavour)
        if flavour == "frozen" or (flavour == "sub" and rng.random() < 0.5) or (flavour == "typed" and rng.random() < 0.4):
            # (the logging wrapper freezes every entry once the views have seen it)
            entry.cache_summary()
            entry.freeze()
            if flavour == "typed" and msg.meta:
                self.frozen_typed_with_meta = getattr(self, "frozen_typed_with_meta", 0) + 1
        return entry, model

    def eq(self):
        rng = self.rng
        with_ctx = rng.random() < 0.5
        session, region = (self.session, self.region) if with_ctx else (None, None)
        name = rng.choice(["HVEvent", "ParcelProperties", "AgentGroupDataUpdate", "Foo", "EstablishAgentCommunication"])
        body = {"serial": rng.randrange(0, 1 << 20), "text": rng.choice(["", "x", "hello"]), "id": UUID(int=rng.getrandbits(128)),
                "nested": {"list": [1, 2.5, "three", b"\x04"], "flag": rng.choice([True, False])}, "ratio": rng.choice([0.5, 2.25]),
                "nothing": None,
                # dates as the LLSD parsers hand them out: naive (UTC by convention) or timezone-aware
                "when": rng.choice([datetime.datetime(2020, 4, 20, 7, 20, 39), datetime.datetime(2021, 12, 31, 23, 59, 59, 500000),
                                    datetime.datetime(2022, 7, 1, 12, 0, 0, tzinfo=datetime.timezone.utc)])}
        for k in rng.sample(sorted(body), rng.randint(0, 3)):
            del body[k]
        event = {"message": name, "body": body}
        entry = EQMessageLogEntry(event, region, session)
        model = Model("EQ", name, [], base_meta(session, region, "", "EQ"), "EQ")
        return entry, model

    def http(self):
        rng = self.rng
        cap = rng.choice(["FakeCap", "EventQueueGet", None, "LoginRequest"])
        url = {"FakeCap": "https://sim1.example.invalid:12043/cap/fake/extra?x=1", "EventQueueGet": "https://sim1.example.invalid:12043/cap/eq",
               None: "https://www.example.invalid/page", "LoginRequest": "https://login.example.invalid/cgi-bin/login.cgi"}[cap]
        method = rng.choice([b"GET", b"POST"])
        req_headers = {"Cookie": 'foo="bar"', "Content-Type": rng.choice(["application/llsd+xml", "text/plain"]), "X-HV": "1"}
        status = rng.choice([200, 404, 500])
        resp_body = rng.choice([b"<llsd><map><key>a</key><integer>1</integer></map></llsd>", b"", b"plain \xff bytes"])
        resp_headers = {"Content-Type": rng.choice(["application/llsd+xml", "text/html"]), "X-Served-By": "hv"}
        flow = make_flow(url, method=method, content=rng.choice([b"", b"<llsd><undef/></llsd>"]), headers=req_headers,
                         resp=True, resp_content=resp_body, status=status, resp_headers=resp_headers)
        injected = rng.random() < 0.3
        flow.metadata["request_injected"] = injected
        with_ctx = cap in ("FakeCap", "EventQueueGet") and rng.random() < 0.7
        if cap:
            flow.metadata["cap_data_ser"] = SerializedCapData(
                cap_name=cap, region_addr=str(self.region.circuit_addr) if with_ctx else None,
                session_id=str(self.session.id) if with_ctx else None, base_url=url.split("/extra")[0] if cap != "LoginRequest" else None)
        hflow = HippoHTTPFlow.from_state(flow.get_state(), self.rig.session_manager)
        entry = HTTPMessageLogEntry(hflow)
        session, region = (self.session, self.region) if with_ctx else (None, None)
        meta = base_meta(session, region, method.decode(), "HTTP")
        meta["Synthetic"] = injected
        meta["__http__"] = {"url": url, "reqheaders": hflow.request.headers, "respheaders": hflow.response.headers,
                            "host": "sim1.example.invalid" if "sim1" in url else url.split("/")[2], "status": status}
        model = Model("HTTP", cap or url, [], meta, "HTTP")
        return entry, model

    def entry(self):
        r = self.rng.random()
        if r < 0.7:
            return self.lludp()
        if r < 0.85:
            return self.eq()
        return self.http()


# ------------------------------------------------------------------ filter generation

def mutate_pattern(rng, s):
    r = rng.random()
    if r < 0.5 or not s:
        return s
    if r < 0.65:
        return "*"
    if r < 0.8:
        k = rng.randrange(0, len(s))
        return s[:k] + "*"
    if r < 0.88:
        k = rng.randrange(0, len(s))
        return "*" + s[k:]
    if r < 0.95:
        return rng.choice([s.lower(), s.upper(), s.swapcase()])
    return s + "x"


def ident_ok(s):
    return re.fullmatch(r"[a-zA-Z*]([a-zA-Z0-9_*-]+)?", s) is not None


def near_values(rng, v):
    """Literal candidates around a logged value: equal, near, and of other types."""
    out = []
    # a literal in filter text is a plain int/float/str: never carry an enum / flag / str subclass into the model
    if isinstance(v, int) and not isinstance(v, bool):
        v = int(v)
    elif isinstance(v, float):
        v = float(v)
    elif isinstance(v, str):
        v = str(v)
    elif isinstance(v, bytes):
        v = bytes(v)
    if isinstance(v, bool):
        out += [True, False, 1, 0]
    elif isinstance(v, int):
        out += [v, v + 1, max(v - 1, 0), v & 0xFF, 1, 0, 0x40]
    elif isinstance(v, float):
        if v == v and abs(v) < 1e15:
            out += [v, abs(v), float(int(abs(v))), abs(v) + 0.5]
        else:
            out += [0.0, 1.5]
    elif isinstance(v, str):
        out += [v, v[:2], v[-2:], v[1:3], v + "x", v.upper()]
    elif isinstance(v, bytes):
        out += [v, v[:1], v[-1:], v[1:2], v + b"x"]
        # a text-looking field that arrived without its terminator is bytes that also compare like their text
        try:
            t = v.rstrip(b"\x00").decode("utf8")
            if t and all(ch.isprintable() and ch not in "\"\\'" for ch in t):
                out += [t, t, t[:1], t + "x"]
        except UnicodeDecodeError:
            pass
    elif isinstance(v, UUID):
        s = str(v)
        out += [s, s[:8], s[-4:], s.upper()]
    elif isinstance(v, TupleCoord):
        t = tuple(v)
        out += [t, tuple(abs(x) for x in t), tuple(abs(x) + 1 for x in t), tuple(0.0 for _ in t)]
        # equal on some axes, strictly larger / smaller on the others (ordering of vectors is per axis)
        for k in range(len(t)):
            out.append(tuple(x + (1.0 if i == k else 0.0) for i, x in enumerate(t)))
            out.append(tuple(x - (1.0 if i == k else 0.0) for i, x in enumerate(t)))
            out.append(tuple(x + (1.0 if i != k else 0.0) for i, x in enumerate(t)))
        if len(t) >= 2:
            out.append(tuple(x + (1.0 if i % 2 else -1.0) for i, x in enumerate(t)))
    elif isinstance(v, tuple):
        out += [v, tuple(x + 1 if isinstance(x, (int, float)) else x for x in v)]
    elif v is None:
        out += [None]
    # other-type operands: these are the "cannot be applied" cases
    out += rng.sample([5, "a", b"a", None, (1, 2, 3), 1.5, True, "", (0.0, 0.0, 0.0, 1.0)], 3)
    return [x for x in out if literal_ok(x)]


def pick_literal(rng, nval):
    cands = near_values(rng, nval)
    if not cands:
        return 1
    # the logged value itself (boundary of every ordering operator) gets extra weight
    if rng.random() < 0.35:
        return cands[0]
    return rng.choice(cands)


def gen_leaf(rng, world, model):
    """A leaf aimed at the given entry model (so that it is often true), possibly perturbed."""
    r = rng.random()
    if r < 0.12:
        return ("leaf", (mutate_pattern(rng, rng.choice([model.name if ident_ok(model.name) else "Foo", model.type, "Foo", "ObjectUpdate"])),), None, None)
    if r < 0.30 or not model.fields:
        # Meta selectors
        names = ["RegionName", "AgentID", "SessionID", "AgentLocal", "Method", "Type", "SelectedLocal", "Synthetic", "Dropped", "Extra",
                 "Resent", "Zerocoded", "Acks", "Reliable", "Quux", "NoSuchMeta", "CurrentSelectedLocal"]
        if model.type == "HTTP":
            names += ["Url", "Host", "Status", "url", "ReqHeaders", "RespHeaders"]
        name = rng.choice(names)
        if model.type == "HTTP" and name in ("ReqHeaders", "RespHeaders") and rng.random() < 0.8:
            hname = rng.choice(["Cookie", "cookie", "Content-Type", "X-HV", "X-Served-By", "Missing"])
            sel = ("Meta", name, hname)
            val = model.get_meta(name).get(hname)
        else:
            sel = ("Meta", name)
            val = model.get_meta(name)
        if rng.random() < 0.3:
            return ("leaf", sel, None, None)
        nval = val if isinstance(val, PRIM) else str(val)
        lit = pick_literal(rng, nval)
        return ("leaf", sel, rng.choice(OPS), ("lit", lit, lit_text(rng, lit)))
    block, idx, var, value, sub = rng.choice(model.fields)
    root = mutate_pattern(rng, model.name if ident_ok(model.name) else "*")
    if rng.random() < 0.1:
        root = rng.choice(["LLUDP", "*", "EQ"])
    bsel, vsel = mutate_pattern(rng, block), mutate_pattern(rng, var)
    if not ident_ok(bsel) or not ident_ok(vsel) or not ident_ok(root):
        return ("leaf", ("*",), None, None)
    if sub and rng.random() < 0.7:
        key = rng.choice(list(sub.keys()))
        ksel = mutate_pattern(rng, str(key))
        if ident_ok(ksel):
            sel = (root, bsel, vsel, ksel)
            if rng.random() < 0.3:
                return ("leaf", sel, None, None)
            subval = sub[key]
            nval = subval if isinstance(subval, PRIM) else str(subval)
            lit = pick_literal(rng, nval)
            return ("leaf", sel, rng.choice(OPS), ("lit", lit, lit_text(rng, lit)))
    sel = (root, bsel, vsel)
    r2 = rng.random()
    if r2 < 0.15:
        return ("leaf", sel, None, None)
    if r2 < 0.22:
        return ("leaf", sel, rng.choice(["==", "!=", "<", ">="]), ("meta", rng.choice(["AgentLocal", "Quux", "Type", "NoSuchMeta"])))
    if r2 < 0.30:
        en = rng.choice(ENUMS)
        cls = getattr(ptemplates, en)
        member = rng.choice(list(cls))
        return ("leaf", sel, rng.choice(["==", "!=", "&", "<", ">"]), ("enum", en, member.name))
    if r2 < 0.34:
        return ("leaf", sel[:2], None, None)          # two-part selector: selects no field
    nval = value if isinstance(value, PRIM) else (value if isinstance(value, UUID) else str(value))
    lit = pick_literal(rng, nval)
    return ("leaf", sel, rng.choice(OPS), ("lit", lit, lit_text(rng, lit)))


def gen_tree(rng, world, models, depth):
    if depth <= 0 or rng.random() < 0.3:
        return gen_leaf(rng, world, rng.choice(models))
    r = rng.random()
    if r < 0.25:
        return ("not", gen_tree(rng, world, models, depth - 1))
    n = rng.choice([2, 2, 3])
    return ((("and",) if r < 0.62 else ("or",)) + tuple(gen_tree(rng, world, models, depth - 1) for _ in range(n)))


def has_mismatch(tree):
    if tree[0] == "leaf":
        return tree[2] is not None
    return any(has_mismatch(c) for c in tree[1:])


# ------------------------------------------------------------------ A. filter semantics

def leaf_is_mismatch(model, leaf):
    """Did evaluating this leaf on this model involve an operator that Python refuses for the operand types?"""
    _, sel, op, valspec = leaf
    if op is None or valspec is None:
        return False
    try:
        expected = resolve_expected(model, valspec)
    except Exception:
        return False
    vals = []
    if sel[0] == "Meta":
        vals = [model.get_meta(sel[1])]
    else:
        vals = [f[3] for f in model.fields]
    for v in vals[:8]:
        if not isinstance(v, PRIM):
            v = str(v)
        try:
            {"==": lambda: v == expected, "!=": lambda: v != expected, "^=": lambda: v.startswith(expected),
             "$=": lambda: v.endswith(expected), "~=": lambda: expected in v, "<": lambda: v < expected, "<=": lambda: v <= expected,
             ">": lambda: v > expected, ">=": lambda: v >= expected, "&": lambda: v & expected}[op]()
        except Exception:
            return True
    return False


def leaves(tree):
    if tree[0] == "leaf":
        yield tree
    else:
        for c in tree[1:]:
            yield from leaves(c)


def _per_key_debug(tree, model, entry):
    out = []
    if tree[0] != "leaf" or len(tree[1]) != 4 or tree[3] is None:
        return out
    expected = resolve_expected(model, tree[3])
    for block, idx, var, value, sub in model.fields:
        if isinstance(sub, dict):
            for k, v in sub.items():
                if wildcard_match(str(k), tree[1][3]) and ref_cmp(tree[2], v, expected):
                    real = None
                    try:
                        d = entry.message[block][idx].deserialize_var(var)
                        d = getattr(d, "value", d) if not isinstance(d, dict) else d
                        rv = d.get(k)
                        real = (type(rv).__name__, repr(rv)[:120])
                    except Exception as e:
                        real = ("raised", repr(e)[:100])
                    out.append((str(k), type(v).__name__, repr(v)[:120], real))
    return out


def semantics(ctx, world, rounds):
    rng = ctx.rng
    for rnd in range(rounds):
        if ctx.out_of_time():
            ctx.inconclusive_because("work budget exhausted in filter semantics")
            return
        pool = [world.entry() for _ in range(10)]
        models = [m for _, m in pool]
        for e, m in pool:
            ctx.cover("entry_kinds", m.kind)
        # directed: single comparisons aimed at one entry, judged on that entry (operator boundaries, sub-fields, meta keys)
        work = []
        for entry, model in pool:
            for _ in range(ctx.pick(10, 16)):
                leaf = gen_leaf(rng, world, model)
                work.append((leaf if rng.random() < 0.7 else ("not", leaf), [(entry, model)]))
        # directed: equality and its negation against the equal literal of the *other* spelling a value type accepts - a
        # vector against the tuple, unterminated text against the string as well as the bytes
        for entry, model in pool:
            for (block, idx, var, value, sub) in model.fields:
                if not (ident_ok(model.name) and ident_ok(block) and ident_ok(var)):
                    continue
                # a wildcard in the sub-field position selects several keys of an unpacked field: the comparison holds when ANY
                # of them satisfies it - aimed at the last key's value (the earlier ones fail) and at the first one's
                if sub and len(sub) >= 2:
                    keys = list(sub.keys())
                    cands = []
                    for k in (keys[-1], keys[0], keys[len(keys) // 2]):
                        v = sub[k]
                        lit = v if isinstance(v, (int, float, str, bytes)) and not isinstance(v, bool) else \
                            tuple(v) if isinstance(v, TupleCoord) else None
                        if lit is not None and literal_ok(lit):
                            cands.append((k, v, lit))
                    # ... and at values only some of the keys have: the zero vector / zero (an object that spins but does not move)
                    for k in keys:
                        v = sub[k]
                        if isinstance(v, TupleCoord) and len(tuple(v)) in (3, 4):
                            cands.append((k, v, tuple(0.0 for _ in tuple(v))))
                            break
                    for k in keys:
                        if isinstance(sub[k], int) and not isinstance(sub[k], bool):
                            cands.append((k, sub[k], 0))
                            break
                    for (k, v, lit) in cands:
                        if isinstance(lit, (int, float)) and not isinstance(v, TupleCoord):
                            lit = type(lit)(lit) if type(lit) in (int, float) else (int(lit) if isinstance(lit, int) else float(lit))
                        for ksel in ("*", str(k)[:1] + "*" if ident_ok(str(k)[:1] or "x") else "*"):
                            if not ident_ok(ksel):
                                continue
                            for op in ("==", "!="):
                                work.append((("leaf", (model.name, block, var, ksel), op, ("lit", lit, lit_text(rng, lit))), [(entry, model)]))
                                ctx.count("directed_wildcard_subfield_leaves")
                lits = []
                if isinstance(value, TupleCoord):
                    # (the filter grammar has no negative number literals)
                    lits = [tuple(value)] if all(isinstance(x, (int, float)) and x == x and 0 <= x < 1e15 and "e" not in repr(x)
                                                 for x in value) else []   # ... nor exponent notation
                elif isinstance(value, bytes):
                    try:
                        t = bytes(value).rstrip(b"\x00").decode("utf8")
                    except UnicodeDecodeError:
                        continue
                    if t and all(ch.isprintable() and ch not in "\"\\'" for ch in t):
                        lits = [t, bytes(value)]
                for lit in lits:
                    if not literal_ok(lit):
                        continue
                    for op in ("==", "!="):
                        work.append((("leaf", (model.name, block, var), op, ("lit", lit, lit_text(rng, lit))), [(entry, model)]))
                        ctx.count("directed_equality_pairs")
        for fi in range(ctx.pick(25, 40)):
            work.append((gen_tree(rng, world, models, rng.choice([0, 1, 2, 3, 4])), pool))
        for tree, targets in work:
            text = render(rng, tree)
            try:
                compiled = compile_filter(text)
            except Exception as e:
                ctx.violation("filter-does-not-compile:" + type(e).__name__, "a filter written with the documented grammar was rejected",
                              {"filter": text, "exc": repr(e)[:200]})
                continue
            ctx.count("filters_compiled")
            for entry, model in targets:
                want = ref_eval(tree, model)
                got = {}
                for sc in (True, False):
                    try:
                        got[sc] = bool(compiled.match(entry, short_circuit=sc))
                    except Exception as e:
                        got[sc] = ("raised", type(e).__name__)
                        ctx.violation("filter-raises:" + type(e).__name__, "evaluating a filter on an entry raised instead of "
                                      "answering", {"filter": text, "short_circuit": sc, "entry_kind": model.kind, "entry": model.name,
                                                    "exc": repr(e)[:200]})
                if isinstance(got[True], bool) and ctx.counters.get("filter_evaluations", 0) % 4 == 0:
                    # matching is a pure function of (filter, entry): ask again
                    try:
                        if bool(compiled.match(entry, short_circuit=True)) != got[True] or \
                                bool(compile_filter(text).match(entry, short_circuit=True)) != got[True]:
                            ctx.violation("filter-verdict-not-repeatable", "the same filter on the same entry answered differently "
                                          "the second time", {"filter": text, "entry_kind": model.kind, "entry": model.name})
                    except Exception as e:
                        ctx.violation("filter-raises:" + type(e).__name__, "evaluating a filter a second time raised",
                                      {"filter": text, "entry_kind": model.kind, "exc": repr(e)[:200]})
                ctx.count("filter_evaluations")
                ctx.ev()
                ctx.count("true_verdicts" if want else "false_verdicts")
                for leaf in leaves(tree):
                    if len(leaf[1]) == 4:
                        ctx.count("subfield_leaves_evaluated")
                    if leaf_is_mismatch(model, leaf):
                        ctx.count("type_mismatch_leaves_evaluated")
                if isinstance(got[True], bool) and isinstance(got[False], bool):
                    if got[True] != got[False]:
                        ctx.violation("short-circuit-and-full-evaluation-disagree", "the two evaluation modes gave different answers",
                                      {"filter": text, "entry_kind": model.kind, "entry": model.name, "short_circuit": got[True],
                                       "full": got[False], "expected": want})
                    elif got[True] != want:
                        top = tree[0] if tree[0] != "leaf" else "leaf:" + str(tree[2]) + ":" + str(len(tree[1]))
                        ctx.violation("filter-verdict-wrong:" + top, "the filter's answer is not the boolean combination it denotes",
                                      {"filter": text, "entry_kind": model.kind, "entry": model.name, "got": got[True], "expected": want,
                                       "fields": repr(model.fields[:6])[:400],
                                       "per_key": repr(_per_key_debug(tree, model, entry))[:800],
                                       "subfields": repr([(f[2], {k: (type(v).__name__, v) for k, v in f[4].items()}) for f in model.fields
                                                          if f[4]][:2])[:1500], "frozen": getattr(entry, "_message", 1) is None})
                ctx.nontrivial((shape(tree), model.kind, want))
            if len(ctx.samples) < 3:
                ctx.sample({"filter": text, "verdicts": [[m.kind, m.name, ref_eval(tree, m)] for _, m in targets[:5]]})


# ------------------------------------------------------------------ B. view invariant

class ViewModel:
    def __init__(self, maxlen):
        self.maxlen = maxlen
        self.raw = []            # arrival indices in the window
        self.visible = []        # arrival indices visible
        self.tree = ("leaf", ("*",), None, None)
        self.paused = False


def view_histories(ctx, world, n_hist, n_ops):
    rng = ctx.rng
    for h in range(n_hist):
        if ctx.out_of_time():
            ctx.inconclusive_because("work budget exhausted in view histories")
            return
        wrapper = WrappingMessageLogger()
        loggers = [FilteringMessageLogger(maxlen=rng.choice([1, 2, 3, 4, 6])) for _ in range(rng.choice([1, 2]))]
        wrapper.loggers.extend(loggers)
        vms = [ViewModel(lg._raw_entries.maxlen) for lg in loggers]
        arrivals = []            # (entry, model)
        idx_of = {}
        trace = []
        seed_models = [world.entry()[1] for _ in range(4)]
        for step in range(n_ops):
            r = rng.random()
            if r < 0.6:
                entry, model = world.entry()
                idx = len(arrivals)
                arrivals.append((entry, model))
                idx_of[id(entry)] = idx
                seed_models.append(model)
                trace.append(("log", model.kind, model.name))
                if rng.random() < 0.7:
                    wrapper.add_log_entry(entry)
                    targets = list(range(len(loggers)))
                else:
                    k = rng.randrange(len(loggers))
                    loggers[k].add_log_entry(entry)
                    targets = [k]
                for k in targets:
                    vm = vms[k]
                    if vm.paused:
                        continue
                    vm.raw.append(idx)
                    if len(vm.raw) > vm.maxlen:
                        vm.raw.pop(0)
                        ctx.count("window_overflows")
                    if ref_eval(vm.tree, model):
                        vm.visible.append(idx)
            elif r < 0.8:
                k = rng.randrange(len(loggers))
                tree = gen_tree(rng, world, seed_models[-6:], rng.choice([0, 1, 2]))
                text = render(rng, tree)
                trace.append(("set_filter", k, text))
                try:
                    loggers[k].set_filter(text)
                except Exception as e:
                    ctx.violation("view-operation-raises:set_filter:" + type(e).__name__, "re-filtering the log raised",
                                  {"filter": text, "exc": repr(e)[:200], "trace": trace[-12:]})
                    break
                vm = vms[k]
                vm.tree = tree
                aged = [i for i in vm.visible if i not in vm.raw]
                if aged:
                    ctx.count("refilters_with_aged_out_visible")
                vm.visible = [i for i in aged if ref_eval(tree, arrivals[i][1])] + [i for i in vm.raw if ref_eval(tree, arrivals[i][1])]
            elif r < 0.9:
                k = rng.randrange(len(loggers))
                p = rng.random() < 0.5
                loggers[k].set_paused(p)
                vms[k].paused = p
                trace.append(("pause" if p else "resume", k))
            else:
                k = rng.randrange(len(loggers))
                loggers[k].clear()
                vms[k].raw, vms[k].visible = [], []
                trace.append(("clear", k))
            ctx.count("view_ops")
            # ---- judge every logger's view
            bad = False
            for k, lg in enumerate(loggers):
                vm = vms[k]
                got = [idx_of.get(id(e), -1) for e in lg]
                ctx.count("view_checks")
                ctx.ev()
                if got != vm.visible:
                    if len(set(got)) != len(got):
                        mech = "view-has-duplicates"
                    elif got != sorted(got):
                        mech = "view-out-of-arrival-order"
                    elif set(got) - set(vm.visible):
                        mech = "view-shows-entries-it-should-not"
                    else:
                        mech = "view-misses-matching-entries"
                    ctx.violation(mech, "the visible log is not exactly the retained entries matching the current filter, in "
                                  "arrival order", {"logger": k, "maxlen": vm.maxlen, "got": got, "expected": vm.visible,
                                                    "trace": trace[-14:]})
                    bad = True
                ctx.nontrivial(("view", vm.maxlen, tuple(got[-4:]), len(vm.raw), vm.paused))
            if bad:
                break


# ------------------------------------------------------------------ C. export/import, freeze/thaw

def message_facts(msg, ser):
    return {"wire": ser.serialize(msg) if msg.packet_id is not None else None, "name": msg.name, "packet_id": msg.packet_id,
            "flags": int(msg.send_flags), "acks": tuple(msg.acks), "extra": bytes(msg.extra), "direction": msg.direction,
            "dropped": msg.dropped, "synthetic": msg.synthetic, "meta": dict(msg.meta),
            "block_lists": {k: len(v) for k, v in msg.blocks.items()}}


def _split_run_zero_code(body: bytes, rng) -> bytes:
    """Legal zero-coding that is not the encoder's own: runs of zeros cut into several shorter runs."""
    out = bytearray()
    i = 0
    while i < len(body):
        if body[i]:
            out.append(body[i])
            i += 1
            continue
        j = i
        while j < len(body) and body[j] == 0 and j - i < 255:
            j += 1
        run = j - i
        while run:
            k = 1 if rng.random() < 0.5 else rng.randint(1, run)
            out += bytes([0, k])
            run -= k
        i = j
    return bytes(out)


def untouched_lazy(ctx, world, n):
    """A datagram that arrived with deferred body parsing is logged and the entry frozen (what the logging wrapper does with every
    entry) while nobody has looked at its body. The logged message is the datagram: the thawed message - and the live one, which the
    proxy goes on to forward - still serialise to exactly those bytes, also when the sender's encoding is legal but not the one the
    library would choose, and when the body does not fit the template at all."""
    rng = ctx.rng
    ser = UDPMessageSerializer()
    for i in range(n):
        tmpl = rng.choice(world.templates)
        spec = gen_msg.limit_for_zerocode(rng, tmpl, {"max_var_len": 80, "small_block": 4, "p_extra": 0.1})
        spec["acks"] = []
        spec["flags"] &= ~0x10
        variant = rng.choice(["as-encoded", "split-runs", "split-runs", "body-cut-short", "body-garbage"])
        if spec["packet_id"] is None:
            spec["packet_id"] = rng.randrange(1, 1 << 20)
        try:
            if variant == "split-runs":
                spec["flags"] |= 0x80
                plain = dict(spec, flags=spec["flags"] & ~0x80)
                whole = wire.ref_encode(tmpl, plain)
                data = bytes([spec["flags"] & 0xFF]) + whole[1:6] + _split_run_zero_code(whole[6:], rng)
            else:
                spec["flags"] &= ~0x80
                data = wire.ref_encode(tmpl, spec)
                head = 6 + len(spec["extra"]) + len(wire.msg_num_bytes(tmpl))
                if variant == "body-cut-short":
                    if len(data) <= head + 1:
                        continue
                    data = data[:rng.randint(head, len(data) - 1)]
                elif variant == "body-garbage":
                    data = data[:head] + bytes(rng.getrandbits(8) for _ in range(rng.randint(1, 30)))
        except Exception:
            continue
        try:
            live = world.lazy_deser.deserialize(data)
            if bytes(ser.serialize(live)) != data:
                ctx.count("lazy_messages_not_verbatim_before_logging")
                continue
        except Exception:
            ctx.count("lazy_datagrams_refused")
            continue
        wit = {"kind": "untouched-lazy", "message": tmpl.name, "variant": variant, "datagram": data[:300]}
        with_ctx = rng.random() < 0.5
        entry = LLUDPMessageLogEntry(live, world.region if with_ctx else None, world.session if with_ctx else None)
        try:
            entry.freeze()
        except Exception as e:
            ctx.violation("freeze-thaw-raises:" + type(e).__name__, "freezing a logged message whose body nobody had looked at raised",
                          dict(wit, exc=repr(e)[:200]))
            continue
        ctx.ev()
        try:
            forwarded = bytes(ser.serialize(live))
        except Exception as e:
            forwarded = repr(e)[:200]
        if forwarded != data:
            ctx.violation("freeze-changes-live-message", "after its log entry was frozen the message the proxy goes on to forward no "
                          "longer serialises to the datagram that arrived", dict(wit, forwarded=forwarded[:300]))
            continue
        try:
            thawed = bytes(ser.serialize(entry.message))
            again = bytes(ser.serialize(entry.message))
        except Exception as e:
            ctx.violation("freeze-thaw-raises:" + type(e).__name__, "thawing a logged message whose body nobody had looked at raised",
                          dict(wit, exc=repr(e)[:200]))
            continue
        if thawed != data or again != data:
            ctx.violation("freeze-thaw-changes:wire", "a frozen and thawed entry no longer holds the logged message (its datagram)",
                          dict(wit, thawed=thawed[:300]))
            continue
        ctx.count("untouched_lazy_freeze_thaw_checked")
        ctx.count("untouched_lazy_freeze_thaw_checked:" + variant)
        ctx.nontrivial(("untouched-lazy", tmpl.name, variant))


def persistence(ctx, world, n):
    rng = ctx.rng
    ser = UDPMessageSerializer()
    for i in range(n):
        if ctx.out_of_time():
            ctx.inconclusive_because("work budget exhausted in export/import")
            return
        r = rng.random()
        if r < 0.7:
            flavour = rng.choice(["typed", "template", "template", "lazy", "sub"])
            entry, model = world.lludp(flavour)
            frozen_already = entry._message is None
            if frozen_already and flavour == "typed":
                # (what follows edits the logged message before judging; a frozen entry hands out copies)
                ctx.count("persistence_skipped_frozen_typed_entries")
                continue
            msg = entry.message
            if flavour == "typed":
                # hand-typed messages have no template: judge on values instead of on the datagram
                msg.packet_id = None
            if msg.packet_id is None and flavour != "typed":
                msg.packet_id = 77
            if rng.random() < 0.3:
                msg.meta["Note"] = rng.choice(["x", 5])
            if rng.random() < 0.2:
                msg.dropped = True
            try:
                before = message_facts(msg, ser)
            except Exception as e:
                ctx.count("unserialisable_generated_message")
                ctx.cover("unserialisable", type(e).__name__)
                continue
            before_vals = gen_spec.canon([[bn, k, sorted(b.vars.items())] for bn, bl in msg.blocks.items() for k, b in enumerate(bl)]) \
                if flavour == "typed" else None
            wit = {"flavour": flavour, "message": msg.name, "text": entry.request()[:600]}
            # freeze -> thaw
            if not frozen_already:
                try:
                    entry.freeze()
                    thawed = entry.message
                    after = message_facts(thawed, ser)
                except Exception as e:
                    ctx.violation("freeze-thaw-raises:" + type(e).__name__, "freezing and thawing a logged message raised",
                                  dict(wit, exc=repr(e)[:200]))
                    continue
                ctx.count("freeze_thaw_checked")
                ctx.ev()
                diff = [k for k in before if before[k] != after[k]]
                if diff:
                    ctx.violation("freeze-thaw-changes:" + diff[0], "a frozen and thawed entry no longer holds the logged message",
                                  dict(wit, fields=diff, before=repr(before[diff[0]])[:200], after=repr(after[diff[0]])[:200]))
            # export -> import
            try:
                imported = import_log_entries(export_log_entries(_handed_over(ctx, [entry])))
                assert len(imported) == 1
                imsg = imported[0].message
                after = message_facts(imsg, ser)
            except Exception as e:
                ctx.violation("export-import-raises:" + type(e).__name__, "exporting and re-importing a logged message raised",
                              dict(wit, exc=repr(e)[:300]))
                continue
            ctx.count("export_import_checked")
            ctx.ev()
            diff = [k for k in before if before[k] != after[k]]
            if not diff and before_vals is not None:
                after_vals = gen_spec.canon([[bn, k, sorted(b.vars.items())] for bn, bl in imsg.blocks.items() for k, b in enumerate(bl)])
                if _loose(before_vals) != _loose(after_vals):
                    diff = ["values"]
                    before["values"], after["values"] = before_vals, after_vals
            if diff:
                ctx.violation("export-import-changes:" + diff[0], "an exported and re-imported entry no longer holds the logged message",
                              dict(wit, fields=diff, before=repr(before[diff[0]])[:300], after=repr(after[diff[0]])[:300]))
            if imported[0].name != entry.name or imported[0].type != "LLUDP" or imported[0].method != entry.method:
                ctx.violation("export-import-changes:entry-header", "name/type/method of the entry changed", wit)
            ctx.nontrivial(("persist", flavour, msg.name))
        elif r < 0.85:
            entry, model = world.eq()
            try:
                back = import_log_entries(export_log_entries(_handed_over(ctx, [entry])))[0]
            except Exception as e:
                ctx.violation("export-import-raises:" + type(e).__name__, "exporting and re-importing an event raised",
                              {"event": repr(entry.event)[:300], "exc": repr(e)[:200]})
                continue
            ctx.count("export_import_checked")
            ctx.ev()
            if gen_spec.canon(_instants(back.event)) != gen_spec.canon(_instants(entry.event)) or back.name != entry.name or back.type != "EQ":
                ctx.violation("export-import-changes:eq-event", "an exported and re-imported event differs",
                              {"before": repr(entry.event)[:300], "after": repr(back.event)[:300]})
            ctx.nontrivial(("persist", "EQ", repr(sorted(entry.event["body"]))))
        else:
            entry, model = world.http()
            def facts(e):
                f = e.flow
                cd = f.cap_data
                return {"req": (f.request.method, f.request.url, bytes(f.request.content or b""), tuple(sorted(f.request.headers.items()))),
                        "resp": (f.response.status_code, bytes(f.response.content or b""), tuple(sorted(f.response.headers.items()))),
                        "cap": None if cd is None else (cd.cap_name, cd.base_url, cd.type.name),
                        "flags": (f.request_injected, f.response_injected, f.can_stream, f.from_browser),
                        "name": e.name, "method": e.method, "summary": e.summary}
            try:
                before = facts(entry)
                back = import_log_entries(export_log_entries(_handed_over(ctx, [entry])))[0]
                after = facts(back)
            except Exception as e:
                ctx.violation("export-import-raises:" + type(e).__name__, "exporting and re-importing an HTTP entry raised",
                              {"entry": model.name, "exc": repr(e)[:300]})
                continue
            ctx.count("export_import_checked")
            ctx.ev()
            diff = [k for k in before if before[k] != after[k]]
            if diff:
                ctx.violation("export-import-changes:http-" + diff[0], "an exported and re-imported HTTP entry differs",
                              {"entry": model.name, "before": repr(before[diff[0]])[:300], "after": repr(after[diff[0]])[:300]})
            ctx.nontrivial(("persist", "HTTP", model.name, before["resp"][0]))


_FORM = [0]


def _handed_over(ctx, entries):
    """Round 11: the entries to export come as any iterable the signature allows - a list, a tuple, a generator, an iterator, a filter."""
    _FORM[0] += 1
    form = _FORM[0] % 5
    ctx.count("exports_from_" + ["a_list", "a_tuple", "a_generator", "an_iterator", "a_filter"][form])
    if form == 0:
        return list(entries)
    if form == 1:
        return tuple(entries)
    if form == 2:
        return (e for e in entries)
    if form == 3:
        return iter(entries)
    return filter(lambda e: True, entries)


def _loose(v):
    """tuples and lists of the same numbers count as equal (vectors come back as lists)."""
    if isinstance(v, (list, tuple)):
        return [_loose(x) for x in v]
    if isinstance(v, dict):
        return {k: _loose(x) for k, x in v.items()}
    if isinstance(v, bool):
        return int(v)
    return v


def _instants(v):
    """LLSD dates are instants (naive = UTC by convention, some parsers return timezone-aware ones): compared as such."""
    if isinstance(v, datetime.datetime) and v.tzinfo is not None:
        return v.astimezone(datetime.timezone.utc).replace(tzinfo=None)
    if isinstance(v, dict):
        return {k: _instants(x) for k, x in v.items()}
    if isinstance(v, (list, tuple)):
        return type(v)(_instants(x) for x in v)
    return v


def run(ctx):
    # the process time zone is part of the environment (dates travel through export / import): three zones over the shards
    import os
    import time as _time
    tz = ["UTC", "America/Los_Angeles", "Asia/Kolkata"][ctx.shard % 3]
    os.environ["TZ"] = tz
    _time.tzset()
    ctx.cover("tz", tz)
    world = World(ctx.rng, ctx.seed)
    try:
        semantics(ctx, world, ctx.pick(24, 160))
        view_histories(ctx, world, ctx.pick(40, 300), ctx.pick(40, 80))
        persistence(ctx, world, ctx.pick(80, 1000))
        untouched_lazy(ctx, world, ctx.pick(60, 800))
        ctx.count("frozen_hand_typed_entries_with_message_meta", getattr(world, "frozen_typed_with_meta", 0))
    finally:
        world.close()


def replay(ctx, w):
    world = World(ctx.rng, ctx.seed)
    try:
        if "filter" in w and "trace" not in w:
            compiled = compile_filter(w["filter"])
            ctx.flag("compiled", repr(compiled))
        semantics(ctx, world, 3)
        view_histories(ctx, world, 3, 40)
        persistence(ctx, world, 30)
        untouched_lazy(ctx, world, 200)
    finally:
        world.close()
