"""C17 - event queue: no event lost, duplicated or reordered; injections delivered once.

History checker.  A viewer model polls the region's EventQueueGet capability through the REAL request / response
handlers (MITMProxyEventManager.pump_proxy_event over pickling queues, real flows); a simulator model answers with
uniquely numbered events; a scripted addon swallows chosen events; the proxy injects uniquely numbered events;
responses are lost on their way to the viewer on demand.  The sequence of responses the viewer actually received is
judged at the end, and every step is checked against what the protocol allows.
"""
import asyncio
import copy
import random
import socket
import struct

from .. import env

env.import_repo()

import hippolyzer.lib.base.llsd as llsd  # noqa: E402
from hippolyzer.lib.proxy.http_flow import HippoHTTPFlow  # noqa: E402
from mitmproxy.http import HTTPFlow  # noqa: E402

from ..harness_http import HTTPRig, make_flow  # noqa: E402
from .c05 import RecTransport  # noqa: E402

LEVEL = "exploration"
SHARDS = {"quick": 8, "thorough": 16}
TIMEOUT_S = {"quick": 900, "thorough": 3600}
BUDGET_S = {"quick": 150, "thorough": 1800}
RULE = ("alphabet of 23 actions: poll answered by the simulator with {1 event, 2 events, a region-announcing event + 1, HTTP "
        "502} x {response reaches the viewer, response lost (viewer re-polls with the stale ack)} x {addon swallows nothing, "
        "the first event, every event}, a response on which the proxy's own event handling fails half-way (malformed announcement), proxy injects an event, region teardown. Exhaustive DFS to depth 4 (quick) / 6 "
        "(thorough) with state hashing + random histories of 60 polls; every history ends with deliveries that are not lost. "
        "distinct_nontrivial = distinct hashed (viewer, cache, pending injection, region) states with at least one loss, "
        "swallow or injection"
        ". Round-5 addition (walks): three event-queue conversations in one world - the main region, a neighbour region that was announced and never got as far as its handshake (incl. its teardown), and a second avatar standing in the same simulator - each judged on its own stream"
        ". Rounds 6-7: events injected as Message objects with enum members; swallowing by position with two identical events in one response; the clock advances between polls (action W in the alphabet)"
        ". Round 9: three events of which the third equals the first (or is its integer/real look-alike) with only the last swallowed; events injected from one reused Message object"
        ". Round 10: bursts of 1001-2500 injected events waiting for one response. Round 11: every other simulator response has a compressed body (Content-Encoding gzip / deflate)")
ASSUMPTIONS = [
    "the simulator sends every event once, with increasing response ids, and ignores acks (as the code's own comment says)",
    "the viewer repeats a poll with the same ack only when it did not receive the previous response",
    "a 200 response always carries at least one event; 'no events' is HTTP 502 (timeout) from the simulator",
    "after a region teardown the viewer starts a new event-queue session (ack undefined)",
]
MUST_REACH = {"responses_with_a_compressed_body": 200, "polls": 3000, "replays_served": 50, "responses_lost": 100, "events_swallowed": 100, "emptied_responses": 20,
              "injected_delivered": 100, "regions_announced": 30, "teardowns": 20, "states": 100, "histories_judged": 200, "announcing_events_covered": 4, "responses_whose_handling_failed": 30,
              "steps_on_other_conversations": 300, "events_injected_as_messages": 100,
              "responses_with_two_identical_events": 50, "events_waiting_for_one_response": 2000, "events_injected_from_a_reused_message_object": 20, "responses_with_equal_events_apart": 50, "responses_with_look_alike_events": 20, "clock_advances": 50}

KINDS = ["1", "2", "A", "5"]
ACTIONS = []
for k in KINDS:
    for lose in ("", "L"):
        for sw in (("", "f", "a") if k != "5" else ("",)):
            ACTIONS.append(f"P{k}{lose}{sw}")
ACTIONS += ["PX", "I", "D", "W"]
# the other two conversations (a neighbour region's queue, another avatar in the same simulator): walks only
OTHER_ACTIONS = ["NP1", "NP1L", "NP2", "NI", "ND", "BP1", "BP1L", "BP2a", "BI", "BPA", "BD",
                 # three events, the third equal to the first (or its look-alike), none / the first / only the last swallowed
                 "P3", "P3f", "P3l", "P3Ll", "BP3l"]


class EQAddon:
    """Swallows by position within the response (an addon's verdict may differ between two events that look alike)."""
    def __init__(self):
        self.swallow = set()         # serials (kept for the witnesses)
        self.swallow_idx = set()     # positions within the current response
        self.idx = 0
        self.seen = []

    def handle_eq_event(self, session, region, event):
        s = serial_of(event)
        self.seen.append(s)
        i = self.idx
        self.idx += 1
        if i in self.swallow_idx:
            return True
        return None


def serial_of(event):
    body = event.get("body")
    if isinstance(body, dict):
        if "serial" in body:
            return body["serial"]
        if "SimulatorInfo" in body:
            return "enable-%s" % body["SimulatorInfo"][0]["Port"]
        if "sim-ip-and-port" in body:
            return "eac-" + body["sim-ip-and-port"]
        if event.get("message") == "ChatFromSimulator":
            return str(body["ChatData"][0]["Message"])
        if event.get("message") == "TeleportFinish":
            return "tp-%s" % body["Info"][0]["SimPort"]
        if event.get("message") == "CrossedRegion":
            return "cr-%s" % body["RegionData"][0]["SimPort"]
    return repr(event)[:60]


class Target:
    """One event-queue conversation: a viewer polling one region's queue through the proxy."""
    def __init__(self, name, session, region, eq_url):
        self.name = name
        self.session = session
        self.region = region
        self.eq_url = eq_url
        region.update_caps({"EventQueueGet": eq_url})
        self.viewer_ack = None
        self.viewer_events = []          # serials in the order received
        self.sim_next_id = 1
        self.expected_stream = []        # serials the viewer must end up with, in order (sim events not swallowed + injected)
        self.pending_injected = []       # serials injected and not yet put into a response
        self.lost = None                 # content of the processed response that did not reach the viewer


class World:
    def __init__(self, ctx):
        self.ctx = ctx
        self.addon = EQAddon()
        self.rig = HTTPRig(addons=[self.addon])
        session = self.rig.add_session(("10.1.0.1", 13001))
        self.transport = RecTransport()
        # "" : the avatar's main region; "N": a neighbour of it that was announced (address + handle) and never got as far as
        # its handshake; "B": a second avatar (another viewer on the same proxy) standing in the SAME simulator
        neighbour = session.register_region(circuit_addr=("10.1.0.7", 13007), handle=(2900 << 32) | 1000,
                                            seed_url="https://sim1.example.invalid:12043/cap/seed-neighbour")
        other = self.rig.add_session(("10.1.0.1", 13001))
        self.targets = {
            "": Target("", session, session.regions[0], "https://sim1.example.invalid:12043/cap/eq-0001"),
            "N": Target("N", session, neighbour, "https://sim1.example.invalid:12043/cap/eq-neighbour"),
            "B": Target("B", other, other.regions[0], "https://sim1.example.invalid:12043/cap/eq-other-avatar"),
        }
        for t in self.targets.values():
            t.session.open_circuit(("10.0.0.1", 40001), t.region.circuit_addr, self.transport)
        self.t = self.targets[""]
        from ..timeshift import TimeShift
        self.clock = TimeShift().install()
        self.next_serial = 1
        self.announced = {}              # addr -> count of announcements
        self.path = []
        self.ok = True
        self.interesting = False

    # the conversation the current step is about
    session = property(lambda self: self.t.session)
    region = property(lambda self: self.t.region)
    eq_url = property(lambda self: self.t.eq_url)

    def close(self):
        try:
            self.rig.close()
        finally:
            self.clock.uninstall()

    def viol(self, mech, what, **extra):
        self.ok = False
        self.ctx.violation(mech, what, dict(extra, path=list(self.path)))

    # ---- plumbing
    def _callback_state(self):
        log = self.rig.flow_context.to_proxy_queue.log
        if len(log) != 1:
            return None
        return log[-1][2]

    def _pump(self, event_type, flow):
        self.rig.flow_context.to_proxy_queue.log.clear()
        self.rig.flow_context.to_proxy_queue.items.clear()
        self.rig.send_event(event_type, flow)
        exc = self.rig.pump()
        if exc is not None:
            self.viol("pump-raised", "pump_proxy_event raised", exc=repr(exc)[:300], event=event_type)
        state = self._callback_state()
        if state is None:
            self.viol("flow-not-handed-back-once", "an event-queue flow was not handed back exactly once", event=event_type,
                      callbacks=len(self.rig.flow_context.to_proxy_queue.log))
        return state

    def new_events(self, kind):
        evs = []
        if kind == "A":
            which = self.next_serial % 4
            port = 14000 + self.next_serial
            addr = ("10.9.0.%d" % (self.next_serial % 200 + 1), port)
            if which == 0:
                evs.append({"message": "EstablishAgentCommunication",
                            "body": {"agent-id": str(self.session.agent_id), "sim-ip-and-port": f"{addr[0]}:{addr[1]}",
                                     "seed-capability": f"https://sim9.example.invalid/cap/seed-{self.next_serial}"}})
            elif which == 2:
                # teleport: the new simulator is described in the message's Info block
                evs.append({"message": "TeleportFinish", "body": {"Info": [{
                    "AgentID": self.session.agent_id, "LocationID": struct.pack("!I", 4), "SimIP": socket.inet_aton(addr[0]), "SimPort": port,
                    "RegionHandle": struct.pack("!Q", (3000 + self.next_serial) << 32 | 1000),
                    "SeedCapability": f"https://sim9.example.invalid/cap/seed-{self.next_serial}", "SimAccess": 13,
                    "TeleportFlags": struct.pack("!I", 1 << 12)}]}})
            elif which == 3:
                # border crossing: RegionData describes the simulator, Info only carries position and look-at
                evs.append({"message": "CrossedRegion", "body": {
                    "AgentData": [{"AgentID": self.session.agent_id, "SessionID": self.session.id}],
                    "RegionData": [{"SimIP": socket.inet_aton(addr[0]), "SimPort": port,
                                    "RegionHandle": struct.pack("!Q", (3000 + self.next_serial) << 32 | 1000),
                                    "SeedCapability": f"https://sim9.example.invalid/cap/seed-{self.next_serial}"}],
                    "Info": [{"Position": [1.0, 2.0, 3.0], "LookAt": [1.0, 0.0, 0.0]}]}})
            else:
                evs.append({"message": "EnableSimulator", "body": {"SimulatorInfo": [{
                    "Handle": struct.pack("!Q", (3000 + self.next_serial) << 32 | 1000), "IP": socket.inet_aton(addr[0]),
                    "Port": port}]}})
            self.ctx.cover("announcing_events", evs[-1]["message"])
            akey = (self.t.session, addr)
            self.announced[akey] = self.announced.get(akey, 0) + 1
            self.last_announced = akey
            self.ctx.count("regions_announced")
            self.next_serial += 1
        if kind == "X":
            # an event the proxy's own handling chokes on (announcement without a port)
            evs.append({"message": "EstablishAgentCommunication",
                        "body": {"agent-id": str(self.session.agent_id), "sim-ip-and-port": "10.9.9.%d" % (self.next_serial % 200 + 1),
                                 "seed-capability": f"https://sim9.example.invalid/cap/seed-bad-{self.next_serial}"}})
            self.next_serial += 1
        n = 2 if kind in ("2", "3") else 1
        for _ in range(n):
            evs.append({"message": "HVTestEvent", "body": {"serial": self.next_serial, "text": "line1\nline2"}})
            self.next_serial += 1
        if kind == "3":
            # ... and then says the first thing again: equal to the first event as a value - or, every other time, a look-alike
            # (the same number as a real instead of an integer, which LLSD tells apart and Python's == does not)
            again = copy.deepcopy(evs[-2])
            if self.next_serial % 2:
                again["body"]["serial"] = float(again["body"]["serial"])
                self.ctx.count("responses_with_look_alike_events")
            evs.append(again)
            self.ctx.count("responses_with_equal_events_apart")
        if kind == "2" and self.next_serial % 3 == 0:
            # the simulator says the same thing twice (two events that are equal as values)
            evs[-1] = copy.deepcopy(evs[-2])
            self.ctx.count("responses_with_two_identical_events")
        return evs

    def poll(self, kind, lose, swallow):
        ctx = self.ctx
        ctx.count("polls")
        req = make_flow(self.eq_url, method=b"POST", content=llsd.format_xml({"ack": self.t.viewer_ack, "done": False}),
                        headers={"Content-Type": "application/llsd+xml"})
        seen_before = len(self.addon.seen)
        regions_before = [r.circuit_addr for r in self.session.regions]
        state = self._pump("request", req)
        if state is None:
            return
        mitm_flow = HTTPFlow.from_state(copy.deepcopy(state))
        replayed = mitm_flow.response is not None
        if replayed:
            ctx.count("replays_served")
            if self.t.lost is None:
                self.viol("stale-replay", "the proxy answered a poll from its replay cache although the viewer had received the "
                          "previous response (or a new event-queue session had begun)", ack=self.t.viewer_ack)
                return
            got = llsd.parse_xml(mitm_flow.response.content)
            if got != self.t.lost:
                self.viol("replay-differs", "the replayed response differs from the response that was lost",
                          got=repr(got)[:300], lost=repr(self.t.lost)[:300])
            # the response event for an injected response must not re-run handlers / registrations
            state2 = self._pump("response", mitm_flow)
            if len(self.addon.seen) != seen_before or [r.circuit_addr for r in self.session.regions] != regions_before:
                self.viol("replay-reran-handlers", "serving a replay re-ran event handlers or region registration")
            content = got
            if state2 is not None:
                back = HippoHTTPFlow.from_state(copy.deepcopy(state2), self.rig.session_manager)
                if llsd.parse_xml(back.response.content) != got:
                    self.viol("replay-rewritten", "a replayed response was modified on its way back")
            self.deliver(content, lose)
            return
        if self.t.lost is not None:
            # the viewer repeated its poll, the proxy had processed a response for it and should have replayed it
            self.viol("lost-response-not-replayed", "a repeated poll (same ack) was forwarded to the simulator instead of being "
                      "answered with the previous response", ack=self.t.viewer_ack, lost=repr(self.t.lost)[:200])
            self.t.lost = None
        # simulator answers
        if kind == "5":
            mitm_flow.response = make_flow("http://x.invalid/", resp=True, resp_content=b"upstream timeout", status=502,
                                           resp_headers={"Content-Type": "text/plain"}).response
            state2 = self._pump("response", mitm_flow)
            if state2 is None:
                return
            back = HippoHTTPFlow.from_state(copy.deepcopy(state2), self.rig.session_manager)
            if back.response.status_code != 502 or back.response.content != b"upstream timeout":
                self.viol("non-200-modified", "a non-200 event-queue response was modified")
            return
        events = self.new_events(kind)
        sim_id = self.t.sim_next_id
        self.t.sim_next_id += 1
        serials = [serial_of(e) for e in events]
        self.addon.swallow = set()
        self.addon.swallow_idx = set()
        self.addon.idx = 0
        if swallow == "f":
            self.addon.swallow = {serials[0]}
            self.addon.swallow_idx = {0}
        elif swallow == "a":
            self.addon.swallow = set(serials)
            self.addon.swallow_idx = set(range(len(serials)))
        elif swallow == "l":
            self.addon.swallow = {serials[-1]}
            self.addon.swallow_idx = {len(serials) - 1}
        if self.addon.swallow:
            ctx.count("events_swallowed", len(self.addon.swallow))
            self.interesting = True
        mitm_flow.response = make_flow("http://x.invalid/", resp=True,
                                       resp_content=llsd.format_xml({"id": sim_id, "events": events})).response
        # Round 11: the simulator's web server may compress a response body (Content-Encoding); what it says is the same
        enc = [None, "gzip", None, "deflate"][sim_id % 4]
        if enc is not None:
            plain = mitm_flow.response.content
            mitm_flow.response.headers["Content-Encoding"] = enc
            mitm_flow.response.content = plain          # mitmproxy encodes on assignment
            if mitm_flow.response.raw_content != plain:
                ctx.count("responses_with_a_compressed_body")
        state2 = self._pump("response", mitm_flow)
        self.addon.swallow_done = True
        if state2 is None:
            return
        back = HippoHTTPFlow.from_state(copy.deepcopy(state2), self.rig.session_manager)
        try:
            got = llsd.parse_xml(back.response.content)
        except Exception as e:
            self.viol("response-unparseable", "the rewritten event-queue response is not LLSD", exc=repr(e)[:200])
            return
        if kind == "X":
            # handling failed half-way: the simulator's events must still reach the viewer once, in order, and pending injected
            # events must not be lost - either they ride on this response or they stay queued for the next one
            ctx.count("responses_whose_handling_failed")
            got_serials = [serial_of(e) for e in got["events"]] if isinstance(got, dict) else None
            if got_serials == serials:
                pass                                            # passed through, injected events still pending
            elif got_serials == serials + list(self.t.pending_injected):
                self.t.pending_injected = []
            else:
                self.viol("events-wrong:after-handler-failure", "after the proxy failed while handling a response the viewer did not "
                          "get exactly the simulator's events (optionally followed by the pending injected events)",
                          got=got_serials, sent=serials, pending=list(self.t.pending_injected))
                return
            self.t.expected_stream.extend(got_serials)
            self.deliver(got, False)
            return
        kept = [s for i, s in enumerate(serials) if i not in self.addon.swallow_idx]
        expect = kept + list(self.t.pending_injected)
        handled = self.addon.seen[seen_before:]
        if handled != serials:
            self.viol("eq-handlers-not-run-once", "event handlers did not run exactly once per simulator event, in order",
                      handled=handled[:6], events=serials)
        if not expect:
            ctx.count("emptied_responses")
            if got is not None:
                self.viol("emptied-response-not-undef", "a response emptied by addons was not replaced by the no-events form",
                          got=repr(got)[:300])
        else:
            if not isinstance(got, dict) or got.get("id") != sim_id:
                self.viol("response-id-wrong", "the rewritten response lost the simulator's response id", got=repr(got)[:200])
            else:
                got_serials = [serial_of(e) for e in got["events"]]
                if got_serials != expect:
                    mech = "events-wrong"
                    if self.t.pending_injected and kept == got_serials:
                        mech = "injected-event-not-delivered"
                    elif set(got_serials) - set(expect):
                        mech = "swallowed-or-foreign-event-delivered"
                    self.viol(mech, "the response does not carry exactly the simulator's surviving events followed by the "
                              "pending injected events", got=got_serials, expected=expect)
                # simulator events must come through unchanged (LLSD types included: 7 is not 7.0 on the wire)
                kept_events = [e for i, e in enumerate(events) if i not in self.addon.swallow_idx]
                for e, k in zip(got["events"], kept_events):
                    if repr(e) != repr(k) and e == k:
                        self.viol("event-content-changed", "the viewer was given a look-alike of the event that was kept (equal as a "
                                  "Python value, another LLSD type)", got=repr(e)[:200], sent=repr(k)[:200])
                        break
                by_serial = {serial_of(e): e for e in events}
                for e in got["events"]:
                    s = serial_of(e)
                    if s in by_serial and e != by_serial[s]:
                        self.viol("event-content-changed", "a simulator event was changed on its way to the viewer",
                                  got=repr(e)[:200], sent=repr(by_serial[s])[:200])
            if self.t.pending_injected:
                ctx.count("injected_delivered", len(self.t.pending_injected))
        self.t.expected_stream.extend(expect)
        self.t.pending_injected = []
        # region registration
        swallowed_announce = any(i in self.addon.swallow_idx for i, s in enumerate(serials) if isinstance(s, str) and
                                 s.startswith(("enable-", "eac-", "tp-", "cr-")))
        if kind == "A" and swallowed_announce:
            # an announcement an addon swallowed is not acted upon
            self.announced.pop(self.last_announced, None)
        for (sess, addr), n in self.announced.items():
            have = sum(1 for r in sess.regions if r.circuit_addr == addr)
            if have != 1:
                self.viol("region-not-registered-once", "an announced region is not registered exactly once (in the session it was "
                          "announced to)", addr=addr, count=have)
        self.deliver(got, lose)

    def deliver(self, content, lose):
        if lose:
            self.ctx.count("responses_lost")
            self.interesting = True
            self.t.lost = content if content is not None else None
            return
        self.t.lost = None
        if isinstance(content, dict):
            self.t.viewer_ack = content.get("id")
            self.t.viewer_events.extend(serial_of(e) for e in content["events"])

    def inject(self):
        s = f"inj-{self.next_serial}"
        self.next_serial += 1
        try:
            if self.next_serial % 2:
                # the other way in: a Message object as addons build them (enum members for the enumerated fields), converted
                # by the queue's own message serializer
                from hippolyzer.lib.base.message.message import Message, Block
                from hippolyzer.lib.base.templates import ChatType, ChatSourceType
                if self.next_serial % 4 == 1 and getattr(self, "_chat_template", None) is not None:
                    # the addon keeps ONE message object around as its template: new text, injected again (what was injected
                    # before is what it was then)
                    self._chat_template["ChatData"]["Message"] = s
                    self.region.eq_manager.inject_message(self._chat_template)
                    self.ctx.count("events_injected_from_a_reused_message_object")
                else:
                    self._chat_template = Message(
                        "ChatFromSimulator",
                        Block("ChatData", FromName="hv", SourceID=self.session.agent_id, OwnerID=self.session.agent_id,
                              SourceType=ChatSourceType.OBJECT, ChatType=ChatType.OWNER, Audible=1, Position=(1.0, 2.0, 3.0), Message=s))
                    self.region.eq_manager.inject_message(self._chat_template)
                self.ctx.count("events_injected_as_messages")
            else:
                self.region.eq_manager.inject_event({"message": "HVInjected", "body": {"serial": s}})
        except Exception as e:
            self.viol("inject-raised", "injecting an event raised", exc=repr(e)[:200])
            return
        self.t.pending_injected.append(s)
        self.interesting = True

    def teardown(self):
        self.ctx.count("teardowns")
        # events that were only in a lost response / still queued die with the old event-queue session
        if self.t.lost is not None and isinstance(self.t.lost, dict):
            for e in self.t.lost["events"]:
                s = serial_of(e)
                if s in self.t.expected_stream:
                    self.t.expected_stream.remove(s)
        self.t.lost = None
        self.t.pending_injected = []
        try:
            self.region.mark_dead()
        except Exception as e:
            self.viol("teardown-raised", "tearing a region down raised (its event-queue state may have survived)", exc=repr(e)[:300],
                      target=self.t.name)
            return
        self.region.circuit.is_alive = True
        self.t.viewer_ack = None
        self.t.sim_next_id = 1

    def step(self, action):
        self.path.append(action)
        self.t = self.targets[""]
        if action[0] in "NB":
            self.t = self.targets[action[0]]
            action = action[1:]
            self.ctx.count("steps_on_other_conversations")
        if action == "W":
            # time passes (half a minute, ten minutes, a day): what was not delivered is still owed
            self.clock.advance([31, 601, 86401][len(self.path) % 3])
            self.ctx.count("clock_advances")
        elif action == "I":
            self.inject()
        elif action == "D":
            self.teardown()
        else:
            kind = action[1]
            lose = "L" in action[2:]
            sw = "f" if action.endswith("f") else "a" if action.endswith("a") else "l" if action.endswith("l") else ""
            self.poll(kind, lose, sw)

    def finish(self):
        """End the history with deliveries that are not lost, then judge what each viewer received."""
        for name, t in self.targets.items():
            self.t = t
            for _ in range(3):
                if not self.ok:
                    return
                self.path.append(name + "P1(final)")
                self.poll("1", False, "")
            got = [s for s in t.viewer_events]
            if got != t.expected_stream:
                missing = [s for s in t.expected_stream if s not in got]
                foreign = [s for s in got if s not in t.expected_stream]
                dup = sorted({repr(s) for s in got if got.count(s) > 1})
                mech = "event-lost" if missing else "foreign-event" if foreign else "event-duplicated" if dup else "events-reordered"
                self.viol("viewer-stream:" + mech, "the events a viewer received are not the surviving simulator events and the "
                          "injected events of its own conversation, each once and in order", conversation=name or "main",
                          missing=missing[:6], duplicated=dup[:6], foreign=foreign[:6], got=got[-12:], expected=t.expected_stream[-12:])
                return
        self.ctx.count("histories_judged")

    def state_key(self):
        key = []
        for t in self.targets.values():
            eq = t.region.eq_manager
            key.append((t.viewer_ack, t.lost is not None, len(t.pending_injected), len(t.session.regions),
                        eq._last_ack, eq._last_payload is not None, len(eq._queued_events)))
        return tuple(key)


def replay_path(ctx, path, judge=True):
    w = World(ctx)
    try:
        for a in path:
            w.step(a)
            if not w.ok:
                break
        key = w.state_key()
        interesting = w.interesting
        if judge and w.ok:
            w.finish()
        return key, w.ok, interesting
    finally:
        w.close()


def dfs(ctx, depth, firsts):
    seen = set()
    frontier = [[a] for a in firsts]
    states = 0
    while frontier:
        path = frontier.pop()
        if ctx.out_of_time():
            ctx.inconclusive_because("DFS budget exhausted")
            break
        key, ok, interesting = replay_path(ctx, path)
        ctx.ev()
        if not ok:
            continue
        if key in seen:
            continue
        seen.add(key)
        states += 1
        if interesting:
            ctx.nontrivial(key)
        if len(path) < depth:
            for a in ACTIONS:
                frontier.append(path + [a])
    ctx.count("states", states)
    return states


def random_history(ctx, rng, steps):
    w = World(ctx)
    try:
        acts = ACTIONS + OTHER_ACTIONS
        weights = [3 if a.lstrip("NB").startswith("P") else 4 if a.endswith("I") else 1 for a in acts]
        for _ in range(steps):
            w.step(rng.choices(acts, weights=weights)[0])
            if not w.ok:
                break
        if w.ok:
            w.finish()
        ctx.ev()
        ctx.nontrivial(("walk", tuple(w.path)))
        return w.path
    finally:
        w.close()


def run(ctx):
    try:
        asyncio.get_event_loop_policy().get_event_loop()
    except Exception:
        asyncio.set_event_loop(asyncio.new_event_loop())
    depth = ctx.pick(4, 6)
    firsts = [a for i, a in enumerate(ACTIONS) if ctx.mine(i)]
    n = dfs(ctx, depth, firsts)
    ctx.flag("exhaustive", True)
    ctx.flag("dfs_depth", depth)
    ctx.sample({"dfs_first_actions": firsts, "depth": depth, "states": n, "alphabet": ACTIONS})
    if ctx.shard in (0, 1):
        # an addon that injects a lot while the viewer is slow to poll: well over a thousand events waiting for one response
        # (injected both ways), then polls - each delivered once, in order
        n_burst = [1001, 1300][ctx.shard] if ctx.quick else [2500, 1001][ctx.shard]
        w = World(ctx)
        try:
            w.step("P1")
            for _ in range(n_burst):
                w.inject()
                if not w.ok:
                    break
            w.path.append(f"I x {n_burst}")
            ctx.count("events_waiting_for_one_response", n_burst)
            if w.ok:
                w.step("P1")
            if w.ok:
                w.finish()
            ctx.ev()
            ctx.nontrivial(("burst", n_burst))
        finally:
            w.close()
    rng = ctx.rng
    for k in range(ctx.pick(20, 800)):
        if ctx.out_of_time():
            break
        path = random_history(ctx, rng, 60)
        if k == 0:
            ctx.sample({"random_history_head": path[:30]})


def replay(ctx, w):
    try:
        asyncio.get_event_loop_policy().get_event_loop()
    except Exception:
        asyncio.set_event_loop(asyncio.new_event_loop())
    if "path" in w:
        replay_path(ctx, [a for a in w["path"] if not a.endswith("(final)")])
