"""C14 - tracked world stays self-consistent under any object update / kill history.

Shadow-model monitor: a reference scene graph is stepped in lock-step with the real session / region object
managers (real Messages, encoded and decoded first so the subfield serializers run, pushed through the real
session and region message handlers).  After every step a quiescent-point walker compares the real indices,
parent / child / orphan bookkeeping and request futures with the model.
Bounded-exhaustive DFS (replay from the root, state-hashed) + random histories.
"""
import asyncio
import logging
import random

from .. import env

env.import_repo()

import hippolyzer.lib.base.templates as T  # noqa: E402
from hippolyzer.lib.base.datatypes import UUID, Vector3  # noqa: E402
from hippolyzer.lib.base.message.message import Message, Block  # noqa: E402
from hippolyzer.lib.base.message.udpserializer import UDPMessageSerializer  # noqa: E402
from hippolyzer.lib.base.message.udpdeserializer import UDPMessageDeserializer  # noqa: E402
from hippolyzer.lib.client.object_manager import ObjectUpdateType  # noqa: E402
from hippolyzer.lib.proxy.settings import ProxySettings  # noqa: E402

from .. import gen_spec  # noqa: E402
from ..harness_proxy import Rig  # noqa: E402
from .c05 import RecTransport  # noqa: E402

LEVEL = "exploration"
SHARDS = {"quick": 8, "thorough": 16}
TIMEOUT_S = {"quick": 900, "thorough": 3600}
BUDGET_S = {"quick": 150, "thorough": 1800}
RULE = ("universe: 2 regions, local ids 1..5, 5 objects; alphabet of 38 concrete actions {full / compressed update (new, "
        "re-parent, un-parent, unknown parent, local-id change, region move), terse update, cached hit / miss, properties, "
        "family, kill of 1..2 ids (known, unknown, orphan parents), region teardown + re-track, request objects / properties}; "
        "inadmissible steps (live local-id reuse, parent cycles) are skipped by the model. Exhaustive DFS to depth 3 (quick) / "
        "4 (thorough) with state hashing + random histories of 80 steps. distinct_nontrivial = distinct hashed model states "
        "with at least two live objects"
        ". Round-5 additions: avatars with name/value pairs of every shape, alone and in one message with an attachment; in the viewer-cache configuration two viewers' real on-disk caches under $HOME (one per struct alignment) hold current and older entries for objects 6..8 in both directory orders: cached updates hit them (unknown object, tracked object in another state, object tracked under another local id), teardown reloads the caches"
        ". Rounds 6-7: object kinds other than prim and avatar (tree, grass, particle system) as children; one of several callers waiting for the same object gives up"
        ". Round 8: the viewers' cache files written again while the proxy runs (action WA) - the region's next life reads the new files (a state only they know: XA8new), the current one keeps what it loaded"
        ". Round 9: teardown followed by a straggling update of that region before it is brought up again (also with nothing tracked anywhere)"
        ". Round 10: the viewers' cache files start with entries of the largest and smallest size the format allows (10000 bytes, 9999, 1) for objects nobody asks about. Round 11: the avatar sits on a prim (known or not yet seen), alone and with an attachment; the seat is killed (the avatar stays and waits for its parent) and its local id announced again")
ASSUMPTIONS = [
    "a kill does not cascade to an avatar sitting on the killed object (the code's deliberate special case, after the simulator's): the avatar stays tracked and waits for its parent like any object whose parent is unknown",
    "updates only name regions the session tracks; a torn-down region is tracked again before further updates",
    "a request for an object that never appears may stay pending; a request for an object that moves to another region / local id must not stay pending; requests must be resolved by the matching update and "
    "cancelled by a kill of that local id or a teardown of its region",
    "child order is not asserted (link order is guesswork in the code by its own comments)",
]
MUST_REACH = {"kills_of_a_seat_under_an_avatar": 10, "kills_of_an_unknown_seat_an_avatar_waits_for": 10, "steps": 5000, "states": 300, "orphans_adopted": 20, "cascade_kills": 20, "region_moves": 20,
              "local_id_changes": 10, "teardowns": 20, "futures_resolved": 20, "futures_cancelled": 20, "reparents": 20,
              "multi_orphan_lists": 10, "kills_of_unknown_with_orphans": 5, "steps_without_loop_iteration": 50, "requests_pending_when_object_left": 5, "object_manager_configs_covered": 3,
              "avatar_updates": 50, "multi_object_messages": 20, "viewer_cache_hits": 20, "stragglers_after_teardown": 20, "teardowns_with_nothing_tracked_anywhere": 5, "viewer_cache_hits_only_in_rewritten_files": 4, "viewer_cache_chains_loaded": 5,
              "viewer_cache_hits_on_tracked_objects": 5, "requests_abandoned_while_others_wait": 20}

HA = (1000 << 32) | 1000
HB = (1001 << 32) | 1000
HANDLES = {"A": HA, "B": HB}
FULL = {i: UUID(int=0xF000 + i) for i in range(1, 10)}
# 6..8 only ever appear out of the viewer's on-disk object cache (viewer-cache configuration), 9 is an avatar
CACHE_ID_A = UUID(int=0xCAC4E)
# what the two viewers' caches hold for region A: (local, crc) -> (full index, parent); "stale" entries carry another crc
CACHED = {(6, 43): (6, 0), (7, 50): (7, 1), (8, 57): (8, 6)}
# the other viewer's cache still has an older state of the same objects (another CRC, not linked to anything)
CACHED_OLDER = {(k[0], k[1] + 1000): (v[0], 0) for k, v in CACHED.items()}
ALL_CACHED = {**CACHED, **CACHED_OLDER}
# a viewer writes its cache again while the proxy runs: the second generation of the files knows one more state
GEN1_ONLY = {(8, 3057): (8, 0)}
# not everything in the scene is a plain prim: trees, grass and particle systems are objects like any other (and, unlike avatars,
# die with the object they are linked to)
def pcode_of(full):
    return {FULL[3]: T.PCode.NEW_TREE, FULL[4]: T.PCode.TREE, FULL[5]: T.PCode.GRASS, FULL[2]: T.PCode.PARTICLE_SYSTEM}.get(full, T.PCode.PRIMITIVE)


NAMEVALUES = {
    "both": "FirstName STRING RW SV Jane\nLastName STRING RW SV Doe\nTitle STRING RW SV x",
    "first": "FirstName STRING RW SV Jane",
    "last": "LastName STRING RW SV Doe",
    "title": "Title STRING RW SV just a title",
    "display": "DisplayName STRING RW SV \nFirstName STRING RW SV J",
    "none": None,
}
_ser = UDPMessageSerializer()
_deser = UDPMessageDeserializer()


class _LogCatcher(logging.Handler):
    def __init__(self):
        super().__init__(level=logging.ERROR)
        self.records = []

    def emit(self, record):
        self.records.append(record.getMessage()[:200] + " | " + (repr(record.exc_info[1])[:200] if record.exc_info else ""))


CATCHER = _LogCatcher()
for _name in ("hippolyzer.lib.base.events",):
    _lg = logging.getLogger(_name)
    _lg.setLevel(logging.ERROR)
    _lg.addHandler(CATCHER)
    _lg.propagate = False


# ------------------------------------------------------------------ message builders (encoded once, decoded per use)

_CACHE = {}


def _roundtrip(msg):
    return bytes(_ser.serialize(msg))


def object_update(handle, local, full, parent):
    key = ("U", handle, local, full, parent)
    if key not in _CACHE:
        msg = Message(
            "ObjectUpdate",
            Block("RegionData", RegionHandle=handle, TimeDilation=123),
            Block("ObjectData", ID=local, FullID=full, PCode=int(pcode_of(full)), Scale=Vector3(0.5, 0.5, 0.5),
                  UpdateFlags=268568894, PathCurve=16, ParentID=parent, ProfileCurve=1, PathScaleX=100, PathScaleY=100,
                  CRC=local * 7 + 1, NameValue=None, TextureEntry=b"", TextColor=b"\x00" * 4, ExtraParams=b"\x00",
                  fill_missing=True),
            packet_id=1)
        msg["ObjectData"][0].serialize_var("ObjectData", (60, {
            "Position": (1.0, 2.0, 3.0), "Velocity": (0.0, 0.0, 0.0), "Acceleration": (0.0, 0.0, 0.0),
            "Rotation": (0.0, 0.0, 0.0, 1.0), "AngularVelocity": (0.0, 0.0, 0.0)}))
        _CACHE[key] = _roundtrip(msg)
    return _CACHE[key]


def avatar_block(local, full, parent, nv):
    blk = Block("ObjectData", ID=local, FullID=full, PCode=int(T.PCode.AVATAR), Scale=Vector3(0.5, 0.5, 1.9),
                UpdateFlags=0, PathCurve=16, ParentID=parent, ProfileCurve=1, PathScaleX=100, PathScaleY=100,
                CRC=local * 7 + 1, NameValue=NAMEVALUES[nv], TextureEntry=b"", TextColor=b"\x00" * 4, ExtraParams=b"\x00",
                fill_missing=True)
    return blk


def prim_block(local, full, parent):
    return Block("ObjectData", ID=local, FullID=full, PCode=int(pcode_of(full)), Scale=Vector3(0.5, 0.5, 0.5),
                 UpdateFlags=268568894, PathCurve=16, ParentID=parent, ProfileCurve=1, PathScaleX=100, PathScaleY=100,
                 CRC=local * 7 + 1, NameValue=None, TextureEntry=b"", TextColor=b"\x00" * 4, ExtraParams=b"\x00",
                 fill_missing=True)


def multi_update(handle, items):
    """One ObjectUpdate carrying several objects: items = (local, full, parent, kind) with kind 'prim' or a NAMEVALUES key."""
    key = ("M", handle, tuple(items))
    if key not in _CACHE:
        blocks = []
        for (local, full, parent, kind) in items:
            blk = prim_block(local, full, parent) if kind == "prim" else avatar_block(local, full, parent, kind)
            blocks.append(blk)
        msg = Message("ObjectUpdate", Block("RegionData", RegionHandle=handle, TimeDilation=123), *blocks, packet_id=1)
        for blk in msg["ObjectData"]:
            blk.serialize_var("ObjectData", (60, {
                "Position": (1.0, 2.0, 3.0), "Velocity": (0.0, 0.0, 0.0), "Acceleration": (0.0, 0.0, 0.0),
                "Rotation": (0.0, 0.0, 0.0, 1.0), "AngularVelocity": (0.0, 0.0, 0.0)}))
        _CACHE[key] = _roundtrip(msg)
    return _CACHE[key]


def compressed_payload(local, full, parent, crc, seed_key):
    ser = T.ObjectUpdateCompressedDataSerializer
    extra = random.Random(repr(seed_key)).getrandbits(11) & ~int(T.CompressedFlags.PARENT_ID)
    flags = T.CompressedFlags(extra | (int(T.CompressedFlags.PARENT_ID) if parent else 0))
    for attempt in range(40):
        d = gen_spec.Deriver(random.Random(f"{seed_key}:{attempt}"), size_budget=8,
                             top_overrides={"Flags": flags, "PCode": T.PCode.PRIMITIVE, "ID": local, "FullID": full, "CRC": crc})
        try:
            val = d.gen(ser.TEMPLATE)
        except gen_spec.Unsupported:
            continue
        if parent:
            val["ParentID"] = parent
        blk = Block("ObjectData", UpdateFlags=0, fill_missing=True)
        blk.message_name = "ObjectUpdateCompressed"
        try:
            return bytes(ser.serialize(blk, val))
        except Exception:
            continue
    raise RuntimeError("could not build a compressed payload")


def write_viewer_caches(home, gen=0):
    """Two viewers' object caches for region A.  Each current entry sits in one of them while the other holds a stale entry
    (another CRC) for the same local id - in both orders, since the order in which viewer directories are found is arbitrary."""
    import os
    from ..vocache_fs import write_viewer_dir
    cur = {k: compressed_payload(k[0], FULL[v[0]], v[1], k[1], ("cache", k)) for k, v in CACHED.items()}
    stale = {k: compressed_payload(k[0], FULL[CACHED_OLDER[(k[0], k[1] + 1000)][0]], 0, k[1] + 1000, ("stale", k)) for k in CACHED}
    a, b = [], []
    for i, k in enumerate(sorted(CACHED)):
        first, second = (a, b) if i % 2 == 0 else (b, a)
        first.append((k[0], k[1] + 1000, stale[k]))
        second.append((k[0], k[1], cur[k]))
    # something for another region and an unrelated object too
    a.append((77, 1, cur[sorted(CACHED)[0]]))
    # in front of everything else, in both files: entries of the largest and the smallest size the format allows (10000 bytes, 1
    # byte) for objects nobody asks about - a reader that mis-steps over them loses every entry behind them
    a.insert(0, (78, 2, bytes(10000)))
    b.insert(0, (79, 3, b"\x07"))
    b.insert(1, (78, 4, bytes(9999)))
    write_viewer_dir(os.path.join(home, ".viewer_one"), {HA: (CACHE_ID_A.bytes and __import__("uuid").UUID(int=CACHE_ID_A.int), a),
                                                         ((2000 * 256) << 32) | (2001 * 256):
                                                             (__import__("uuid").UUID(int=5), [(6, 43, cur[(6, 43)])])})
    write_viewer_dir(os.path.join(home, ".viewer_two"), {HA: (__import__("uuid").UUID(int=CACHE_ID_A.int), b)}, aligned8=True)
    if gen:
        c = [(k[0], k[1], compressed_payload(k[0], FULL[v[0]], v[1], k[1], ("gen1", k))) for k, v in GEN1_ONLY.items()]
        write_viewer_dir(os.path.join(home, ".viewer_three"), {HA: (__import__("uuid").UUID(int=CACHE_ID_A.int), c)})


_HOME = {}


def _viewer_home(gen=0):
    """The viewers' cache directories (two generations of them: what is on disk before and after a viewer has written its cache
    again), written once per process (removed when the process ends)."""
    if gen not in _HOME:
        import atexit
        import shutil
        import tempfile
        home = tempfile.mkdtemp(prefix="hvc14_")
        atexit.register(shutil.rmtree, home, ignore_errors=True)
        write_viewer_caches(home, gen)
        _HOME[gen] = home
    return _HOME[gen]


def compressed_update(handle, local, full, parent):
    key = ("C", handle, local, full, parent)
    if key not in _CACHE:
        ser = T.ObjectUpdateCompressedDataSerializer
        # the other optional sections come and go too (a spinning child prim has both an angular velocity and a parent id)
        extra = random.Random(repr(key)).getrandbits(11) & ~int(T.CompressedFlags.PARENT_ID)
        if local % 2:
            extra |= int(T.CompressedFlags.ANGULAR_VELOCITY)
        flags = T.CompressedFlags(extra | (int(T.CompressedFlags.PARENT_ID) if parent else 0))
        for attempt in range(40):
            d = gen_spec.Deriver(random.Random(f"{key}:{attempt}"), size_budget=8,
                                 top_overrides={"Flags": flags, "PCode": pcode_of(full), "ID": local, "FullID": full,
                                                "CRC": local * 7 + 1})
            try:
                val = d.gen(ser.TEMPLATE)
            except gen_spec.Unsupported:
                continue
            if parent:
                val["ParentID"] = parent
            blk = Block("ObjectData", UpdateFlags=0, fill_missing=True)
            blk.message_name = "ObjectUpdateCompressed"
            try:
                data = ser.serialize(blk, val)
            except Exception:
                continue
            msg = Message("ObjectUpdateCompressed", Block("RegionData", RegionHandle=handle, TimeDilation=123),
                          Block("ObjectData", UpdateFlags=0, Data=bytes(data)), packet_id=1)
            _CACHE[key] = _roundtrip(msg)
            break
        else:
            raise RuntimeError("could not build a compressed update")
    return _CACHE[key]


def terse_update(handle, local):
    key = ("T", handle, local)
    if key not in _CACHE:
        ser = T.ImprovedTerseObjectUpdateDataSerializer
        d = gen_spec.Deriver(random.Random(repr(key)), top_overrides={"ID": local, "State": 0})
        val = d.gen(ser.TEMPLATE)
        blk = Block("ObjectData")
        blk.message_name = "ImprovedTerseObjectUpdate"
        data = ser.serialize(blk, val)
        msg = Message("ImprovedTerseObjectUpdate", Block("RegionData", RegionHandle=handle, TimeDilation=65345),
                      Block("ObjectData", Data=bytes(data), TextureEntry=b""), packet_id=1)
        _CACHE[key] = _roundtrip(msg)
    return _CACHE[key]


def cached_update(handle, local, crc):
    key = ("X", handle, local, crc)
    if key not in _CACHE:
        msg = Message("ObjectUpdateCached", Block("RegionData", TimeDilation=102, RegionHandle=handle),
                      Block("ObjectData", ID=local, CRC=crc, UpdateFlags=4321), packet_id=1)
        _CACHE[key] = _roundtrip(msg)
    return _CACHE[key]


def kill(locals_):
    key = ("K", tuple(locals_))
    if key not in _CACHE:
        msg = Message("KillObject", *[Block("ObjectData", ID=x) for x in locals_], packet_id=1)
        _CACHE[key] = _roundtrip(msg)
    return _CACHE[key]


def properties(full, family):
    key = ("P", full, family)
    if key not in _CACHE:
        if family:
            msg = Message("ObjectPropertiesFamily", Block("ObjectData", RequestFlags=0, ObjectID=full, OwnerID=UUID(int=9),
                                                          GroupID=UUID(), BaseMask=1, OwnerMask=1, GroupMask=0, EveryoneMask=0,
                                                          NextOwnerMask=0, OwnershipCost=0, SaleType=0, SalePrice=0, Category=0,
                                                          LastOwnerID=UUID(), Name="fam", Description="d"), packet_id=1)
        else:
            msg = Message("ObjectProperties", Block("ObjectData", ObjectID=full, CreatorID=UUID(int=8), OwnerID=UUID(int=9),
                                                    GroupID=UUID(), CreationDate=1, BaseMask=1, OwnerMask=1, GroupMask=0,
                                                    EveryoneMask=0, NextOwnerMask=0, OwnershipCost=0, SaleType=0, SalePrice=0,
                                                    AggregatePerms=0, AggregatePermTextures=0, AggregatePermTexturesOwner=0,
                                                    Category=0, InventorySerial=0, ItemID=UUID(), FolderID=UUID(),
                                                    FromTaskID=UUID(), LastOwnerID=UUID(), Name="props", Description="d",
                                                    TouchName="", SitName="", TextureID=b""), packet_id=1)
        _CACHE[key] = _roundtrip(msg)
    return _CACHE[key]


# ------------------------------------------------------------------ actions

# (name, kind, args)
ACTIONS = [
    ("UA1", "U", ("A", 1, 1, 0)), ("UA2p1", "U", ("A", 2, 2, 1)), ("UA3p2", "U", ("A", 3, 3, 2)), ("UA3p1", "U", ("A", 3, 3, 1)),
    ("UA2p0", "U", ("A", 2, 2, 0)), ("UA4p5", "U", ("A", 4, 4, 5)), ("UA2p5", "U", ("A", 2, 2, 5)), ("UA5", "U", ("A", 5, 5, 0)),
    ("UA5p3", "U", ("A", 5, 5, 3)), ("UA1L3", "U", ("A", 3, 1, 0)), ("UA1p2", "U", ("A", 1, 1, 2)),
    ("CA1", "C", ("A", 1, 1, 0)), ("CA3p1", "C", ("A", 3, 3, 1)), ("CA4p5", "C", ("A", 4, 4, 5)),
    ("UB1f1", "U", ("B", 1, 1, 0)), ("UB2f2p1", "U", ("B", 2, 2, 1)), ("UB1f4", "U", ("B", 1, 4, 0)),
    ("TA1", "T", ("A", 1)), ("TA4", "T", ("A", 4)),
    ("XA1hit", "X", ("A", 1, 1 * 7 + 1)), ("XA3miss", "X", ("A", 3, 999)),
    # ids the viewers' on-disk caches know (only the viewer-cache configuration finds them), an ordinary child of one of them
    ("XA6", "X", ("A", 6, 43)), ("XA7", "X", ("A", 7, 50)), ("XA8", "X", ("A", 8, 57)), ("XA6other", "X", ("A", 6, 2043)), ("XA6older", "X", ("A", 6, 1043)),
    ("UA2p6", "U", ("A", 2, 2, 6)), ("KA6", "K", ("A", (6,))),
    # a viewer writes its cache files again (what is on disk changes; the proxy reads them at the region's next handshake), and
    # a state only the rewritten files know
    ("WA", "W", ("A",)), ("XA8new", "X", ("A", 8, 3057)),
    # an object the viewers' caches know under another local id than the one it is announced with now
    ("UA3f6", "U", ("A", 3, 6, 0)),
    # an avatar (name/value pairs of every shape) alone and together with an attachment in one message
    ("VA9both", "M", ("A", ((9, 9, 0, "both"),))), ("VA9first", "M", ("A", ((9, 9, 0, "first"),))),
    ("VA9last+2", "M", ("A", ((9, 9, 0, "last"), (2, 2, 9, "prim")))), ("VA9first+4", "M", ("A", ((9, 9, 0, "first"), (4, 4, 9, "prim")))),
    ("VA9title+1", "M", ("A", ((9, 9, 0, "title"), (1, 1, 0, "prim")))), ("VA9display", "M", ("A", ((9, 9, 0, "display"),))),
    ("KA9", "K", ("A", (9,))),
    # Round 11: the avatar sits on an object (its parent is a prim); a kill of the seat does not kill the avatar, which waits
    # for its parent like any other object whose parent is unknown
    ("VA9on1", "M", ("A", ((9, 9, 1, "both"),))), ("VA9on2+4", "M", ("A", ((9, 9, 2, "first"), (4, 4, 9, "prim")))),
    ("PA1", "P", (1, False)), ("FA2", "P", (2, True)), ("PA4", "P", (4, False)),
    ("KA1", "K", ("A", (1,))), ("KA2", "K", ("A", (2,))), ("KA5", "K", ("A", (5,))), ("KA12", "K", ("A", (1, 2))), ("KB1", "K", ("B", (1,))),
    ("DA", "D", ("A",)), ("DB", "D", ("B",)),
    # ... with a straggler: an update of the torn-down region that arrives before the region is brought up again
    ("DAs", "D", ("A", 5)), ("DBs", "D", ("B", 4)),
    # "!": a locally originated action after which the event loop does not get to run before the next action
    ("DA!", "D", ("A",)), ("RA1!", "R", ("A", 1, "objects")),
    ("RA1", "R", ("A", 1, "objects")), ("RA5", "R", ("A", 5, "objects")), ("QA1", "R", ("A", 1, "properties")),
    # one of several callers waiting for the same object gives up (its wait timed out): the others are still owed an answer
    ("ZA1", "Z", ("A", 1)), ("ZA4", "Z", ("A", 4)),
    ("QA2", "R", ("A", 2, "properties")), ("RQA4", "R", ("A", 4, "both")),
]
ACTION_BY_NAME = {a[0]: a for a in ACTIONS}


AVATAR_FIDX = 9


class Model:
    def __init__(self):
        self.objs = {}     # full index -> [region, local, parent]
        self.crc = {}      # full index -> CRC of the state last seen

    def live(self, region, local):
        for f, (r, l, p) in self.objs.items():
            if r == region and l == local:
                return f
        return None

    def children_of(self, region, local):
        return sorted(l for f, (r, l, p) in self.objs.items() if r == region and p == local)

    def has_cycle(self, region):
        for f, (r, l, p) in self.objs.items():
            if r != region:
                continue
            seen = {l}
            cur = p
            while cur:
                if cur in seen:
                    return True
                seen.add(cur)
                nf = self.live(region, cur)
                if nf is None:
                    break
                cur = self.objs[nf][2]
        return False

    def key(self):
        return tuple(sorted((f, tuple(v), self.crc.get(f)) for f, v in self.objs.items()))


class World:
    def __init__(self, ctx):
        self.ctx = ctx
        settings = ProxySettings()
        # three configurations of the proxy's object manager, one per shard residue: nothing automatic (default of this rig),
        # automatic re-requests of cache misses, viewer-object-cache mode
        cfg = getattr(ctx, "shard", 0) % 3
        self.cfg = cfg
        self.home = None
        self.disk_gen = self.loaded_gen = 0
        settings.ALLOW_AUTO_REQUEST_OBJECTS = cfg == 1
        settings.AUTOMATICALLY_REQUEST_MISSING_OBJECTS = cfg == 1
        settings.USE_VIEWER_OBJECT_CACHE = cfg == 2
        try:
            ctx.cover("object_manager_configs", ["manual", "auto-request", "viewer-cache"][cfg])
        except Exception:
            pass
        self.rig = Rig(settings=settings)
        self.session = self.rig.add_session(("10.1.0.1", 13001), handle_xy=(1000, 1000))
        self.regions = {"A": self.session.regions[0]}
        self.regions["B"] = self.session.register_region(circuit_addr=("10.1.0.2", 13002), seed_url="https://sim.example.invalid/b",
                                                         handle=HB)
        self.transport = RecTransport()
        for name, region in self.regions.items():
            self.session.open_circuit(("10.0.0.1", 40001), region.circuit_addr, self.transport)
            self.session.objects.track_region_objects(region.handle)
        if cfg == 2:
            # the viewers' caches are found under the user's home directory; region A's cache id arrives with its handshake
            import os
            self.home = _viewer_home()
            self.old_home = os.environ.get("HOME")
            os.environ["HOME"] = self.home
            self.disk_gen = self.loaded_gen = 0
            self.load_viewer_cache()
        self.model = Model()
        self.futures = []      # [region, local, type name, future]
        self.path = []
        self.ok = True
        self.pending_fut_keys = set()
        self.skip_rng = None

    def load_viewer_cache(self):
        region = self.regions["A"]
        region.cache_id = CACHE_ID_A
        region.objects.load_cache()
        self.loaded_gen = self.disk_gen
        n = len(region.objects.object_cache.region_caches)
        if n != 2 + self.disk_gen:
            self.viol("viewer-cache-not-read-at-handshake", "the region's handshake did not give the object manager what the viewers' "
                      "cache directories hold now", found=n, on_disk=2 + self.disk_gen)
        else:
            self.ctx.count("viewer_cache_chains_loaded")
            if self.disk_gen:
                self.ctx.count("viewer_cache_chains_loaded_after_rewrite")

    def close(self):
        try:
            self.rig.close()
        finally:
            if self.home:
                import os
                if self.old_home is None:
                    os.environ.pop("HOME", None)
                else:
                    os.environ["HOME"] = self.old_home

    def viol(self, mech, what, **extra):
        self.ok = False
        self.ctx.violation(mech, what, dict(extra, path=list(self.path)))

    def handle(self, region_name, data):
        region = self.regions[region_name]
        msg = _deser.deserialize(data)
        msg.sender = region.circuit_addr
        n0 = len(CATCHER.records)
        try:
            self.session.message_handler.handle(msg)
            region.message_handler.handle(msg)
        except Exception as e:
            self.viol("handler-raised", "an object message handler raised", exc=repr(e)[:300])
        if len(CATCHER.records) > n0:
            self.viol("handler-raised", "an object message handler raised (caught and logged by the event dispatcher)",
                      logged=CATCHER.records[n0:][:3])
            del CATCHER.records[:]

    # ---- one step: returns False if the model says the step is not admissible
    def step(self, name):
        kind, args = ACTION_BY_NAME[name][1], ACTION_BY_NAME[name][2]
        m = self.model
        ctx = self.ctx
        if kind in ("U", "C"):
            rn, local, fidx, parent = args
            holder = m.live(rn, local)
            if holder is not None and holder != fidx:
                return False            # the simulator never gives one local id to two live objects
            old = m.objs.get(fidx)
            m.objs[fidx] = [rn, local, parent]
            if m.has_cycle(rn):
                if old is None:
                    del m.objs[fidx]
                else:
                    m.objs[fidx] = old
                return False
            m.crc[fidx] = local * 7 + 1
            if old is not None:
                if old[0] != rn:
                    ctx.count("region_moves")
                elif old[1] != local:
                    ctx.count("local_id_changes")
                elif old[2] != parent:
                    ctx.count("reparents")
            adopted = m.children_of(rn, local)
            if (old is None or old[0] != rn or old[1] != local) and adopted:
                ctx.count("orphans_adopted")
            self.path.append(name)
            builder = object_update if kind == "U" else compressed_update
            self.handle(rn, builder(HANDLES[rn], local, FULL[fidx], parent))
            self.expect_resolved(rn, local, "UPDATE")
            if old is not None and (old[0] != rn or old[1] != local):
                # the object left its old (region, local id) without a kill: nothing can answer requests for that id any more
                self.expect_left(old[0], old[1])
        elif kind == "T":
            rn, local = args
            self.path.append(name)
            self.handle(rn, terse_update(HANDLES[rn], local))
            if m.live(rn, local) is not None:
                self.expect_resolved(rn, local, "UPDATE")
        elif kind == "M":
            rn, items = args
            saved = {f: list(v) for f, v in m.objs.items()}
            olds = []
            for (local, fidx, parent, _k) in items:
                holder = m.live(rn, local)
                if holder is not None and holder != fidx:
                    m.objs = saved
                    return False
                olds.append((fidx, m.objs.get(fidx)))
                m.objs[fidx] = [rn, local, parent]
            if m.has_cycle(rn):
                m.objs = saved
                return False
            for (local, fidx, parent, _k) in items:
                m.crc[fidx] = local * 7 + 1
            self.path.append(name)
            if len(items) > 1:
                ctx.count("multi_object_messages")
            ctx.count("avatar_updates")
            self.handle(rn, multi_update(HANDLES[rn], tuple((l, FULL[f], p, k) for (l, f, p, k) in items)))
            for (local, fidx, parent, _k) in items:
                self.expect_resolved(rn, local, "UPDATE")
            for fidx, old in olds:
                if old is not None and (old[0] != rn or old[1] != m.objs[fidx][1]):
                    self.expect_left(old[0], old[1])
        elif kind == "X":
            rn, local, crc = args
            hit = False
            known = ALL_CACHED if not self.loaded_gen else {**ALL_CACHED, **GEN1_ONLY}
            if self.cfg == 2 and rn == "A" and (local, crc) in known:
                fidx, parent = known[(local, crc)]
                if (local, crc) in GEN1_ONLY:
                    ctx.count("viewer_cache_hits_only_in_rewritten_files")
                holder = m.live(rn, local)
                if holder is not None and holder != fidx:
                    return False
                if holder is None or m.crc.get(fidx) != crc:
                    # unknown object, or a known one in another state than the one the simulator refers to: the cached
                    # state is what the viewer (and so the tracker) goes by
                    old = m.objs.get(fidx)
                    m.objs[fidx] = [rn, local, parent]
                    if m.has_cycle(rn):
                        if old is None:
                            del m.objs[fidx]
                        else:
                            m.objs[fidx] = old
                        return False
                    m.crc[fidx] = crc
                    hit = True
                    ctx.count("viewer_cache_hits")
                    if holder is not None:
                        ctx.count("viewer_cache_hits_on_tracked_objects")
            self.path.append(name)
            self.handle(rn, cached_update(HANDLES[rn], local, crc))
            if hit:
                self.expect_resolved(rn, local, "UPDATE")
        elif kind == "W":
            if self.cfg != 2:
                return False
            import os
            self.path.append(name)
            self.disk_gen ^= 1
            os.environ["HOME"] = _viewer_home(self.disk_gen)
            ctx.count("viewer_cache_rewrites")
        elif kind == "P":
            fidx, family = args
            self.path.append(name)
            rn = m.objs[fidx][0] if fidx in m.objs else "A"
            self.handle(rn, properties(FULL[fidx], family))
            if fidx in m.objs and not family:
                self.expect_resolved(m.objs[fidx][0], m.objs[fidx][1], "PROPERTIES")
        elif kind == "K":
            rn, locals_ = args
            self.path.append(name)
            killed_locals = set()
            for l in locals_:
                if m.live(rn, l) is None and m.children_of(rn, l):
                    ctx.count("kills_of_unknown_with_orphans")
                stack = [l]
                while stack:
                    cur = stack.pop()
                    killed_locals.add(cur)
                    kids = m.children_of(rn, cur)
                    if any(m.live(rn, k) == AVATAR_FIDX for k in kids):
                        # a kill does not cascade to a seated avatar (it stays, its parent now unknown)
                        kids = [k for k in kids if m.live(rn, k) != AVATAR_FIDX]
                        ctx.count("kills_of_a_seat_under_an_avatar" if m.live(rn, cur) is not None else "kills_of_an_unknown_seat_an_avatar_waits_for")
                    if kids and cur != l:
                        ctx.count("cascade_kills")
                    elif kids:
                        ctx.count("cascade_kills")
                    f = m.live(rn, cur)
                    if f is not None:
                        del m.objs[f]
                    stack.extend(kids)
            self.handle(rn, kill(locals_))
            for l in killed_locals:
                self.expect_cancelled(rn, l)
        elif kind == "D":
            rn = args[0]
            straggler = len(args) > 1
            self.path.append(name)
            ctx.count("teardowns")
            if not m.objs:
                ctx.count("teardowns_with_nothing_tracked_anywhere")
            for f in [f for f, v in m.objs.items() if v[0] == rn]:
                del m.objs[f]
            region = self.regions[rn]
            try:
                region.mark_dead()
                if straggler:
                    # a datagram of the region that was still on its way: an update for an object nobody tracks (anymore).
                    # The region is unloaded - nothing of it is tracked until it is brought up again
                    fidx = args[1]
                    if fidx not in m.objs:
                        self.handle(rn, object_update(HANDLES[rn], fidx, FULL[fidx], 0))
                        ctx.count("stragglers_after_teardown")
                self.session.objects.track_region_objects(region.handle)
                region.circuit.is_alive = True
                if self.cfg == 2 and rn == "A":
                    self.load_viewer_cache()      # (the next handshake does this)
            except Exception as e:
                self.viol("teardown-raised", "region teardown raised", exc=repr(e)[:300])
            for ent in self.futures:
                if ent[0] == rn and not ent[3].done():
                    self.viol("future-pending-after-teardown", "an object request is still pending after its region was torn down",
                              local=ent[1], kind=ent[2])
                elif ent[0] == rn and ent[3].cancelled():
                    ctx.count("futures_cancelled")
            self.futures = [e for e in self.futures if e[0] != rn]
        elif kind == "Z":
            rn, local = args
            mine = [e for e in self.futures if e[0] == rn and e[1] == local and not e[3].done()]
            if not mine:
                return False
            self.path.append(name)
            mine[0][3].cancel()
            self.futures.remove(mine[0])
            ctx.count("requests_abandoned_by_their_caller")
            if len(mine) > 1:
                ctx.count("requests_abandoned_while_others_wait")
        elif kind == "R":
            rn, local, what = args
            self.path.append(name)
            region = self.regions[rn]
            try:
                if what in ("objects", "both"):
                    for fut in region.objects.request_objects(local):
                        self.futures.append([rn, local, "UPDATE", fut])
                if what in ("properties", "both"):
                    for fut in region.objects.request_object_properties(local):
                        self.futures.append([rn, local, "PROPERTIES", fut])
            except Exception as e:
                self.viol("request-raised", "requesting objects raised", exc=repr(e)[:300])
        ctx.count("steps")
        # asyncio delivers one datagram per loop iteration: callbacks scheduled while handling one message
        # (done-callbacks of cancelled / resolved request futures) run before the next message is handled.
        # Locally originated actions (teardown, requests) can follow each other within one iteration.
        if name.endswith("!") or (kind in ("D", "R") and self.skip_rng is not None and self.skip_rng.random() < 0.4):
            ctx.count("steps_without_loop_iteration")
        else:
            self.rig.run_loop_once()
        self.check_invariants()
        return True

    def expect_resolved(self, rn, local, kind):
        for ent in self.futures:
            if ent[0] == rn and ent[1] == local and ent[2] == kind:
                if not ent[3].done():
                    self.viol("future-not-resolved", "an object request was not resolved by the update it was waiting for",
                              local=local, kind=kind)
                elif not ent[3].cancelled():
                    self.ctx.count("futures_resolved")
        self.futures = [e for e in self.futures if not (e[0] == rn and e[1] == local and e[2] == kind)]

    def expect_left(self, rn, local):
        for ent in self.futures:
            if ent[0] == rn and ent[1] == local:
                self.ctx.count("requests_pending_when_object_left")
                if not ent[3].done():
                    self.viol("future-pending-after-object-left:" + ent[2].lower(), "an object request is still pending after the "
                              "object moved to another region / local id", local=local, region=rn, kind=ent[2])
                elif ent[3].cancelled():
                    self.ctx.count("futures_cancelled")
        self.futures = [e for e in self.futures if not (e[0] == rn and e[1] == local)]

    def expect_cancelled(self, rn, local):
        for ent in self.futures:
            if ent[0] == rn and ent[1] == local:
                if not ent[3].done():
                    self.viol("future-pending-after-kill:" + ent[2].lower(), "an object request is still pending after the object "
                              "(local id) was killed", local=local, kind=ent[2],
                              all_kinds=sorted({e[2] for e in self.futures if e[0] == rn and e[1] == local}))
                elif ent[3].cancelled():
                    self.ctx.count("futures_cancelled")
        self.futures = [e for e in self.futures if not (e[0] == rn and e[1] == local)]

    def check_invariants(self):
        m = self.model
        world = self.session.objects
        # 1. full-id index
        real_full = {}
        for full, obj in world._fullid_lookup.items():
            real_full[full] = obj
        want_full = {FULL[f] for f in m.objs}
        if set(real_full.keys()) != want_full:
            self.viol("fullid-index-differs", "the world's full-id index differs from the reference scene graph",
                      real=sorted(str(x)[-4:] for x in real_full), model=sorted(str(x)[-4:] for x in want_full))
            return
        # 2. per region local-id index
        for rn, region in self.regions.items():
            state = region.objects.state
            want = {v[1]: FULL[f] for f, v in m.objs.items() if v[0] == rn}
            real = {l: o.FullID for l, o in state.localid_lookup.items()}
            if real != want:
                self.viol("localid-index-differs", "a region's local-id index differs from the reference scene graph",
                          region=rn, real={k: str(v)[-4:] for k, v in real.items()}, model={k: str(v)[-4:] for k, v in want.items()})
                return
            for l, o in state.localid_lookup.items():
                if world._fullid_lookup.get(o.FullID) is not o:
                    self.viol("indices-disagree", "lookup by local id and by full id give different objects", region=rn, local=l)
                if o.LocalID != l or o.RegionHandle != region.handle:
                    self.viol("object-fields-disagree-with-index", "an object's LocalID/RegionHandle disagree with where it is indexed",
                              region=rn, local=l, obj_local=o.LocalID)
                if region.objects.lookup_localid(l) is not o or region.objects.lookup_fullid(o.FullID) is not o:
                    self.viol("lookup-api-disagrees", "lookup_localid / lookup_fullid disagree with the indices", region=rn, local=l)
            # 3. parent / child links
            want_orphans = {}
            for f, (r, l, p) in m.objs.items():
                if r != rn:
                    continue
                o = state.localid_lookup[l]
                kids = m.children_of(rn, l)
                if sorted(o.ChildIDs) != kids or len(o.ChildIDs) != len(set(o.ChildIDs)):
                    self.viol("children-differ", "an object's child list is not exactly the tracked objects naming it as parent",
                              region=rn, local=l, real=list(o.ChildIDs), model=kids)
                if [c.LocalID for c in o.Children] != list(o.ChildIDs):
                    self.viol("children-objects-differ", "Children and ChildIDs disagree", region=rn, local=l)
                if o.ParentID != p:
                    self.viol("parent-id-differs", "an object's ParentID differs from the last update", region=rn, local=l,
                              real=o.ParentID, model=p)
                parent_live = p and m.live(rn, p) is not None
                try:
                    o.Parent is not None and o.Parent.LocalID
                except ReferenceError:
                    self.viol("parent-link-dangling", "an object's Parent link refers to an object that no longer exists",
                              region=rn, local=l, parent=p)
                    return
                if parent_live:
                    if o.Parent is None or o.Parent.LocalID != p:
                        self.viol("parent-link-missing", "an object whose parent is tracked has no Parent link", region=rn, local=l,
                                  parent=p)
                else:
                    if o.Parent is not None:
                        self.viol("parent-link-stale", "an object has a Parent link although its parent is not tracked", region=rn,
                                  local=l, parent=p)
                    if p:
                        want_orphans.setdefault(p, []).append(l)
            real_orphans = {k: sorted(v) for k, v in state._orphans.items() if v}
            want_orphans = {k: sorted(v) for k, v in want_orphans.items()}
            if real_orphans != want_orphans:
                self.viol("orphans-differ", "the orphan list is not exactly the tracked objects whose parent is unknown", region=rn,
                          real=real_orphans, model=want_orphans)
            if any(len(v) > 1 for v in want_orphans.values()):
                self.ctx.count("multi_orphan_lists")

    def state_key(self):
        futs = tuple(sorted((e[0], e[1], e[2], e[3].done()) for e in self.futures))
        return (self.model.key(), futs, self.disk_gen, self.loaded_gen)


def replay_path(ctx, path):
    w = World(ctx)
    try:
        for name in path:
            if not w.step(name):
                return None, w
            if not w.ok:
                break
        # let done-callbacks of futures run
        w.rig.run_loop_once()
        return w.state_key(), w
    finally:
        w.close()


def dfs(ctx, depth, firsts):
    seen = set()
    frontier = [[a] for a in firsts]
    states = 0
    while frontier:
        path = frontier.pop()
        if ctx.out_of_time():
            ctx.inconclusive_because("DFS budget exhausted")
            break
        key, w = replay_path(ctx, path)
        ctx.ev()
        if key is None or not w.ok:
            continue
        if key in seen:
            continue
        seen.add(key)
        states += 1
        if len(w.model.objs) >= 2:
            ctx.nontrivial(key)
        if len(path) < depth:
            for a in ACTIONS:
                frontier.append(path + [a[0]])
    ctx.count("states", states)
    return states


def random_history(ctx, rng, steps):
    w = World(ctx)
    w.skip_rng = random.Random(rng.getrandbits(32))
    try:
        names = [a[0] for a in ACTIONS]
        weights = [3 if a[1] in ("U", "C") else 2 if a[1] in ("K", "R") else 1 for a in ACTIONS]
        for _ in range(steps):
            w.step(rng.choices(names, weights=weights)[0])
            if not w.ok:
                break
        w.rig.run_loop_once()
        ctx.ev()
        ctx.nontrivial(("walk", tuple(w.path)))
        return w.path
    finally:
        w.close()


def run(ctx):
    try:
        asyncio.get_event_loop_policy().get_event_loop()
    except Exception:
        asyncio.set_event_loop(asyncio.new_event_loop())
    depth = ctx.pick(3, 4)
    firsts = [a[0] for i, a in enumerate(ACTIONS) if ctx.mine(i)]
    n = dfs(ctx, depth, firsts)
    ctx.flag("exhaustive", True)
    ctx.flag("dfs_depth", depth)
    ctx.sample({"dfs_first_actions": firsts, "depth": depth, "states": n, "alphabet": [a[0] for a in ACTIONS]})
    # directed: the viewer-cache files written again between two lives of the region
    if ctx.shard % 3 == 2:
        for path in (["WA", "DA", "XA8new"], ["XA6", "WA", "DA", "XA8new", "UA2p6", "KA6"], ["WA", "DA", "WA", "DA", "XA8new"],
                     ["WA", "XA8new", "DA", "XA8new", "KA2"], ["XA8", "WA", "DA", "XA8new", "XA8"], ["RA1", "WA", "DA", "XA8new", "DA", "XA8new"]):
            replay_path(ctx, path)
            ctx.ev()
    rng = ctx.rng
    for k in range(ctx.pick(25, 1500)):
        if ctx.out_of_time():
            break
        path = random_history(ctx, rng, 80)
        if k == 0:
            ctx.sample({"random_history_head": path[:40]})


def replay(ctx, w):
    try:
        asyncio.get_event_loop_policy().get_event_loop()
    except Exception:
        asyncio.set_event_loop(asyncio.new_event_loop())
    if "path" in w:
        replay_path(ctx, w["path"])
