"""C15 - intercepted HTTP flows are handed back exactly once, state intact.

Fault-enumeration history checker over the pickling queues.  For every scenario (flow kind x event type x addon
behaviour) a dry run records, with sys.monitoring PY_START events, the ordered list of repository functions entered
while a request / response handler is on the stack; the scenario is then re-run once per recorded point with a
callback that raises there (a source-free failpoint).  After each run the items on to_proxy_queue are judged.
The mitmproxy-side addon (IPCInterceptionAddon) is driven in-process for the resume-once clause.
"""
import asyncio
import copy
import os
import sys
import xmlrpc.client

from .. import env

env.import_repo()

import hippolyzer.lib.base.llsd as llsd  # noqa: E402
from hippolyzer.lib.base.datatypes import UUID  # noqa: E402
from hippolyzer.lib.proxy.caps import CapData, CapType, SerializedCapData  # noqa: E402
from hippolyzer.lib.proxy.http_flow import HippoHTTPFlow  # noqa: E402
from mitmproxy.http import HTTPFlow  # noqa: E402
import mitmproxy.http  # noqa: E402
import weakref  # noqa: E402

from ..harness_http import HTTPRig, make_flow, PicklingFlowContext  # noqa: E402

LEVEL = "fault_enumeration"
SHARDS = {"quick": 8, "thorough": 16}
TIMEOUT_S = {"quick": 900, "thorough": 3600}
BUDGET_S = {"quick": 150, "thorough": 1800}
RULE = ("scenarios = {seed, event-queue (LLSD and garbage body), wrapper, asset served by the local repo, proxy-only, temporary, plain asset, login, upload, "
        "unknown URL} x {request, response} x addon behaviours {ignore, take and release later, take and release after the owning session is gone, take and resume inside the hook, "
        "resume inside the hook, take then raise, inject response, rewrite URL, raise, retarget cap data, disable streaming, "
        "return True}; each scenario is run once cleanly and once per function entered inside the handlers (failpoint raising "
        "there; quick: every 3rd failpoint per scenario, thorough: all) and once per statement executed inside the event manager's own handler functions (sys.monitoring LINE failpoints; quick: every 4th); + the mitmproxy-side callback pump (good / corrupt state / "
        "unknown event / preempt / two flows) and whole request+response cycles through both sides x {viewer, proxy-injected, "
        "browser} origins. distinct_nontrivial = distinct (scenario, failpoint function) pairs + end-to-end combinations"
        ". Round-5 additions: flows taken in a hook and released from a task scheduled through the addon API (default and unscoped) while region change(s), neighbour registration, circuit creation, another flow or another session's end happen in between - incl. the library's own WebAppCapAddon serving a proxy-only cap; wait_for() with the caller's timeout on the session / region HTTP message handler: served, timed out, cancelled then timed out, timed out then cancelled"
        ". Round 6: which of the two avatars logged in first alternates"
        ". Round 8: an addon answers a request with preempt() after the request event was handed back (other flows in between): response and flags reach the mitmproxy side's flow, intercepted and resumed once more"
        ". Round 9: the flow's avatar logs out while the other avatar stays - while an addon holds the flow, and between the request and the response event of a whole cycle"
        ". Round 10: a flow handed back after 0 / 300 / 1023 / 1024 / 1500+ other flows went through the mitmproxy-side addon; an addon rewriting a wrapper-capability request (what is sent on is the rewritten request with the asset host put in)")
ASSUMPTIONS = [
    "a failpoint is any repository function entered while _handle_request/_handle_response is on the stack (including "
    "addon dispatch and the hooks' own calls); the cross-process hand-back code itself (resume/get_state) is not faulted",
    "an addon that took a flow releases it later by calling resume() on it, whatever happened in between",
    "an exception escaping pump_proxy_event is tolerated (the run loop logs and continues) as long as the flow is handed back",
]
MUST_REACH = {"preempts_after_handback": 4, "scenarios": 40, "failpoint_runs": 500, "clean_runs": 40, "taken_flows_released": 30, "state_transfers_compared": 500,
              "exceptions_escaped_pump": 50, "mitm_side_runs": 6, "e2e_runs": 100, "e2e_states_compared": 150, "session_only_capdata": 5, "locally_served_assets": 3, "line_failpoint_runs": 300, "mitm_history_runs": 6, "owners_gone_before_release": 10, "owners_gone_while_another_avatar_stays": 5, "rewritten_wrapper_requests": 1, "flows_between_interception_and_hand_back": 3000, "e2e_owner_left_between_request_and_response": 10,
              "deferred_releases": 100, "deferred_events_covered": 7, "deferred_webapp_flows": 5, "waiter_served_flows": 5,
              "waiter_abandoned_scenarios": 15}

FAIL = {"armed_at": None, "count": 0, "in_handler": 0, "points": [], "fired": None}
TOOL_ID = 3
_REPO_PREFIX = os.path.join(env.HV_REPO, "hippolyzer") + os.sep
_SKIP_FUNCS = {"resume", "get_state", "preempt", "serialize"}


class InjectedFault(Exception):
    pass


def _on_py_start(code, offset):
    fn = code.co_filename
    if not fn.startswith(_REPO_PREFIX):
        return sys.monitoring.DISABLE
    if not FAIL["in_handler"]:
        return None
    if code.co_name in _SKIP_FUNCS or code.co_name.startswith("<"):
        return None
    if FAIL.get("mode", "call") != "call":
        return None
    idx = FAIL["count"]
    FAIL["count"] += 1
    FAIL["points"].append(f"{os.path.basename(fn)}:{code.co_qualname}")
    if FAIL["armed_at"] is not None and idx == FAIL["armed_at"]:
        FAIL["fired"] = FAIL["points"][-1]
        raise InjectedFault(f"injected at {FAIL['points'][-1]}")
    return None


def _on_line(code, line):
    """Statement-level failpoints inside the HTTP event manager's own handler functions."""
    if not FAIL["in_handler"] or FAIL.get("mode") != "line":
        return None
    idx = FAIL["count"]
    FAIL["count"] += 1
    FAIL["points"].append(f"{code.co_qualname}:{line}")
    if FAIL["armed_at"] is not None and idx == FAIL["armed_at"]:
        FAIL["fired"] = FAIL["points"][-1]
        raise InjectedFault(f"injected at line {line} of {code.co_qualname}")
    return None


def _line_targets():
    from hippolyzer.lib.proxy.http_event_manager import MITMProxyEventManager as M
    return [getattr(M, n).__code__ for n in ("_handle_request", "_handle_response", "_handle_login_flow", "_handle_eq_event")]


_mon_on = False


def monitoring_on():
    global _mon_on
    if _mon_on:
        return
    mon = sys.monitoring
    try:
        mon.use_tool_id(TOOL_ID, "hv-failpoints")
    except ValueError:
        pass
    mon.register_callback(TOOL_ID, mon.events.PY_START, _on_py_start)
    mon.register_callback(TOOL_ID, mon.events.LINE, _on_line)
    mon.set_events(TOOL_ID, mon.events.PY_START)
    for code in _line_targets():
        mon.set_local_events(TOOL_ID, code, mon.events.LINE)
    _mon_on = True


def monitoring_off():
    global _mon_on
    if _mon_on:
        sys.monitoring.set_events(TOOL_ID, 0)
        for code in _line_targets():
            sys.monitoring.set_local_events(TOOL_ID, code, 0)
        sys.monitoring.free_tool_id(TOOL_ID)
        _mon_on = False


def wrap_handlers(manager):
    for name in ("_handle_request", "_handle_response"):
        orig = getattr(manager, name)

        def wrapped(flow, _orig=orig):
            FAIL["in_handler"] += 1
            try:
                return _orig(flow)
            finally:
                FAIL["in_handler"] -= 1
        setattr(manager, name, wrapped)


# ------------------------------------------------------------------ scripted addon

class FlowAddon:
    def __init__(self, behaviour, on):
        self.behaviour = behaviour
        self.on = on          # "request" / "response"
        self.taken = None
        self.injected = False
        self.calls = 0
        self.session = None

    def _act(self, flow):
        self.calls += 1
        b = self.behaviour
        if b == "ignore":
            return None
        if b in ("take", "take_owner_gone"):
            self.taken = flow.take()
            return None
        if b == "take_resume_now":
            flow.take()
            flow.resume()
            return None
        if b == "resume_now":
            flow.resume()
            return None
        if b == "take_then_raise":
            self.taken = flow.take()
            raise RuntimeError("addon failed after taking the flow")
        if b == "inject_response":
            flow.response = mitmproxy.http.Response.make(200, b"injected by addon", {"Content-Type": "text/plain"})
            self.injected = True
            return None
        if b == "rewrite_url":
            flow.request.url = "https://rewritten.example.invalid/new/path?x=1"
            return None
        if b == "raise":
            raise ValueError("scripted addon failure")
        if b == "retarget":
            if self.session is not None:
                flow.cap_data = CapData("HVRetargeted", None, weakref.ref(self.session), "https://base.example.invalid/", CapType.NORMAL)
            return None
        if b == "no_stream":
            flow.can_stream = False
            return None
        if b == "true":
            return True
        raise AssertionError(b)

    def handle_http_request(self, session_manager, flow):
        if self.on == "request":
            return self._act(flow)

    def handle_http_response(self, session_manager, flow):
        if self.on == "response":
            return self._act(flow)


# ------------------------------------------------------------------ scenarios

URL_KINDS = ["seed", "eq", "eq_garbage", "wrapper", "served", "proxy_only", "temporary", "asset", "login", "upload", "unknown"]
BEHAVIOURS = ["ignore", "take", "take_owner_gone", "take_resume_now", "resume_now", "take_then_raise", "inject_response", "rewrite_url", "raise", "retarget", "no_stream", "true"]


_BUILDS = [0]


def build(rig, kind, event_type):
    """Returns the mitmproxy-side flow to hand to the main process."""
    # two avatars on the same simulator, and a second region in the first session: identity must not get mixed up
    # (which of the two logged in first alternates: the flow's session is the older or the newer one)
    _BUILDS[0] += 1
    if _BUILDS[0] % 2:
        other = rig.add_session(("10.1.0.2", 13002))
        session = rig.add_session(("10.1.0.1", 13001))
    else:
        session = rig.add_session(("10.1.0.1", 13001))
        other = rig.add_session(("10.1.0.2", 13002))
    other.regions[0].update_caps({"EventQueueGet": "https://simB.example.invalid:12043/cap/eq"})
    region = session.register_region(("10.1.0.2", 13002), seed_url="https://sim1.example.invalid:12043/cap/seed-second",
                                     handle=(256256 << 32) | 256000)
    session.register_region(("10.1.0.3", 13003), seed_url="https://sim1.example.invalid:12043/cap/seed-third")
    from hippolyzer.lib.proxy.message_logger import FilteringMessageLogger
    rig.session_manager.message_logger = FilteringMessageLogger()
    region.update_caps({"EventQueueGet": "https://sim1.example.invalid:12043/cap/eq", "GetTexture": "http://assets.example.invalid/tex",
                        "UpdateScriptAgent": "https://sim1.example.invalid:12043/cap/upd"})
    wrapper = region.register_wrapper_cap("GetTexture")
    proxy_only = region.register_proxy_cap("HippoFake")
    region.register_cap("UpdateScriptAgentUploader", "https://sim1.example.invalid:12043/cap/tmp-0001", CapType.TEMPORARY)
    seed_url = region.cap_urls["Seed"]
    if kind == "seed":
        flow = make_flow(seed_url, method=b"POST", content=llsd.format_xml(["EventQueueGet", "HippoFake", "GetTexture"]))
        resp = llsd.format_xml({"EventQueueGet": "https://sim1.example.invalid:12043/cap/eq2", "GetTexture": "http://assets.example.invalid/t2"})
    elif kind in ("eq", "eq_garbage"):
        body = llsd.format_xml({"ack": None, "done": False}) if kind == "eq" else b"this is not llsd"
        flow = make_flow("https://sim1.example.invalid:12043/cap/eq", method=b"POST", content=body)
        resp = llsd.format_xml({"id": 7, "events": [{"message": "HVEvent", "body": {"serial": 1}}]})
    elif kind == "wrapper":
        flow = make_flow(wrapper + "/?texture_id=" + str(UUID(int=5)))
        resp = b"\x00\x01texturedata"
    elif kind == "served":
        # an asset the proxy itself holds: the local asset repo answers, nobody else sees the request
        aid = rig.session_manager.asset_repo.create_asset(b"HV-LOCAL-ASSET-BYTES")
        flow = make_flow(wrapper + "/?texture_id=" + str(aid))
        resp = b"never"
    elif kind == "proxy_only":
        flow = make_flow(proxy_only + "/do")
        resp = b"never"
    elif kind == "temporary":
        flow = make_flow("https://sim1.example.invalid:12043/cap/tmp-0001", method=b"POST", content=b"script body")
        resp = llsd.format_xml({"state": "complete"})
    elif kind == "asset":
        flow = make_flow("http://assets.example.invalid/tex/?texture_id=" + str(UUID(int=6)))
        resp = b"assetbytes"
    elif kind == "login":
        flow = make_flow("https://login.example.invalid/cgi-bin/login.cgi", method=b"POST",
                         content=b'<?xml version="1.0"?><methodCall><methodName>login_to_simulator</methodName></methodCall>',
                         headers={"Content-Type": "text/xml"})
        login_resp = {"session_id": str(UUID(int=0x77)), "secure_session_id": str(UUID(int=0x78)), "agent_id": str(UUID(int=0x79)),
                      "circuit_code": 4242, "sim_ip": "10.3.0.1", "sim_port": 13009, "region_x": 256000, "region_y": 256256,
                      "seed_capability": "https://sim3.example.invalid:12043/cap/seed-login", "login": "true"}
        resp = xmlrpc.client.dumps((login_resp,), None, True).encode()
    elif kind == "upload":
        flow = make_flow("https://sim1.example.invalid:12043/cap/upd", method=b"POST", content=llsd.format_xml({"item_id": UUID(int=9)}))
        resp = llsd.format_xml({"uploader": "https://sim1.example.invalid:12043/cap/uploader-9", "state": "upload"})
    else:
        flow = make_flow("https://www.example.invalid/some/page?q=1")
        resp = b"<html></html>"
    flow.metadata["cap_data_ser"] = SerializedCapData()
    if event_type == "response":
        # the request phase ran before: attach what it would have left in the flow's metadata
        cap = rig.session_manager.resolve_cap(flow.request.url) if kind != "temporary" else \
            CapData("UpdateScriptAgentUploader", weakref.ref(region), weakref.ref(session),
                    "https://sim1.example.invalid:12043/cap/tmp-0001", CapType.TEMPORARY)
        if kind == "login":
            cap = CapData(cap_name="LoginRequest")
        flow.metadata["cap_data_ser"] = cap.serialize()
        flow.metadata["needed_proxy_caps"] = ["HippoFake"] if kind == "seed" else []
        flow.response = make_flow("http://x.invalid/", resp=True, resp_content=resp,
                                  resp_headers={"Content-Type": "application/llsd+xml"}).response
    return session, flow


def snapshot(hflow):
    cd = hflow.cap_data
    req = hflow.request
    resp = hflow.response
    meta = {k: copy.deepcopy(v) for k, v in hflow.metadata.items() if k not in ("cap_data", "cap_data_ser")}
    return {
        "cap": None if cd is None else (cd.cap_name, cd.type.name, cd.base_url,
                                        id(cd.region()) if cd.region and cd.region() else None,
                                        id(cd.session()) if cd.session and cd.session() else None),
        "meta": meta,
        "request": (req.method, req.url, bytes(req.content or b""), tuple(sorted(req.headers.items()))),
        "response": None if resp is None else (resp.status_code, bytes(resp.content or b""), tuple(sorted(resp.headers.items()))),
    }


_SNAPS = {}
_orig_resume = HippoHTTPFlow.resume


def _resume_with_snapshot(self):
    try:
        _SNAPS.setdefault(self.id, []).append(snapshot(self))
    except Exception as e:       # never disturb the code under observation
        _SNAPS.setdefault(self.id, []).append({"snapshot_error": repr(e)})
    return _orig_resume(self)


HippoHTTPFlow.resume = _resume_with_snapshot


def run_scenario(ctx, kind, event_type, behaviour, armed_at, mode="call"):
    """One execution. Returns the list of failpoints reached (for the dry run)."""
    addon = FlowAddon(behaviour, event_type)
    rig = HTTPRig(addons=[addon])
    wrap_handlers(rig.manager)
    FAIL.update(armed_at=armed_at, count=0, in_handler=0, points=[], fired=None, mode=mode)
    _SNAPS.clear()
    try:
        session, flow = build(rig, kind, event_type)
        addon.session = session
        q = rig.flow_context.to_proxy_queue
        q.log.clear()
        q.items.clear()
        rig.send_event(event_type, flow)
        monitoring_on()
        try:
            exc = rig.pump()
        finally:
            FAIL["armed_at"] = None
        wit = {"kind": kind, "event": event_type, "behaviour": behaviour, "failpoint_index": armed_at, "failpoint": FAIL["fired"],
               "failpoint_mode": mode}
        if exc is not None:
            ctx.count("exceptions_escaped_pump")
        callbacks = [it for it in q.log if it[0] == "callback" and it[1] == flow.id]
        took = addon.taken is not None
        if took:
            if callbacks:
                ctx.violation("taken-flow-handed-back-early", "a flow an addon took ownership of was handed back before the addon "
                              "released it", dict(wit, callbacks=len(callbacks)))
            if behaviour == "take_owner_gone":
                # while the addon holds the flow, the session it belongs to logs out and is collected
                import gc
                # (alternately: only that avatar logs out and the other one stays, or everybody goes)
                _BUILDS[0] += 0
                owner = None
                try:
                    cd = addon.taken.cap_data
                    owner = cd.session() if cd is not None and cd.session else None
                except Exception:
                    owner = None
                for sess in list(rig.session_manager.sessions):
                    if sess is owner or owner is None or _BUILDS[0] % 4 >= 2:
                        rig.session_manager.sessions.remove(sess)
                owner = None
                if rig.session_manager.sessions:
                    ctx.count("owners_gone_while_another_avatar_stays")
                addon.session = None
                session = None
                sess = None
                gc.collect()
                ctx.count("owners_gone_before_release")
            try:
                addon.taken.resume()
                ctx.count("taken_flows_released")
            except Exception as e:
                ctx.violation("taken-flow-release-failed", "the addon could not release the flow it had taken",
                              dict(wit, exc=repr(e)[:200]))
            callbacks = [it for it in q.log if it[0] == "callback" and it[1] == flow.id]
            if len(callbacks) != 1:
                ctx.violation("taken-flow-not-handed-back-once", "a taken flow was not handed back exactly once after its release",
                              dict(wit, callbacks=len(callbacks)))
        else:
            if len(callbacks) != 1:
                ctx.violation("flow-not-handed-back-once:" + ("never" if not callbacks else "more-than-once"),
                              "an intercepted flow was not handed back exactly once after handling",
                              dict(wit, callbacks=len(callbacks), exc=repr(exc)[:200]))
        # state transfer: what the main process held at hand-back time vs what comes out of the queue item
        if callbacks:
            state = callbacks[-1][2]
            try:
                back = HippoHTTPFlow.from_state(copy.deepcopy(state), rig.session_manager)
                got = snapshot(back)
            except Exception as e:
                ctx.violation("state-transfer-raises", "the handed-back flow state cannot be rebuilt", dict(wit, exc=repr(e)[:300]))
                got = None
            snaps = _SNAPS.get(flow.id, [])
            if got is not None and snaps and "snapshot_error" not in snaps[-1]:
                ctx.count("state_transfers_compared")
                want = snaps[-1]
                if behaviour == "take_owner_gone" and took and want["cap"]:
                    # the owner was removed from the session manager while the addon held the flow; a stray reference
                    # (e.g. the traceback of an injected failure) may keep the object alive for the main process, but the
                    # other side can only resolve owners the manager still knows: the expectation is "no owner"
                    want = dict(want, cap=want["cap"][:3] + (None, None))
                if want["cap"] and want["cap"][4] is not None and want["cap"][3] is None:
                    ctx.count("session_only_capdata")
                if addon.injected and not got["meta"].get("response_injected"):
                    ctx.violation("injected-flag-not-set", "a flow whose response an addon injected is handed back without the "
                                  "injected flag", wit)
                for field in ("cap", "meta", "request", "response"):
                    if got[field] != want[field]:
                        ctx.violation("state-transfer-changed:" + field, "flow state changed across the process boundary",
                                      dict(wit, field=field, before=repr(want[field])[:300], after=repr(got[field])[:300]))
                        break
        if kind == "wrapper" and behaviour == "rewrite_url" and event_type == "request" and armed_at is None and callbacks:
            # two features on one flow: an addon rewrites the request, and the proxy sends wrapper requests on to the asset host
            # (by redirect, or by rewriting the URL once more) - what goes on is the ADDON's request with the asset host put in
            ctx.count("rewritten_wrapper_requests")
            st = callbacks[-1][2]
            back = HippoHTTPFlow.from_state(copy.deepcopy(st), rig.session_manager)
            where = back.response.headers.get("Location", "") if back.response is not None else back.request.url
            if "/new/path?x=1" not in where or "rewritten.example.invalid" in where:
                ctx.violation("rewritten-wrapper-request-lost", "an addon rewrote a wrapper-capability request; what the proxy sent on "
                              "(redirect target / request URL) is not the rewritten request with the asset host put in",
                              dict(wit, sent_on=where[:200]))
        if kind == "served" and event_type == "request" and armed_at is None and callbacks:
            ctx.count("locally_served_assets")
            st = callbacks[-1][2]
            back = HippoHTTPFlow.from_state(copy.deepcopy(st), rig.session_manager)
            if back.response is None or bytes(back.response.content or b"") != b"HV-LOCAL-ASSET-BYTES" or not back.response_injected:
                ctx.violation("served-asset-response-lost", "the response the local asset repo injected did not survive the hand-back",
                              dict(wit, response=None if back.response is None else bytes(back.response.content or b"")[:40],
                                   injected=back.response_injected))
        ctx.ev()
        return list(FAIL["points"])
    finally:
        FAIL["armed_at"] = None
        rig.close()


# ------------------------------------------------------------------ mitmproxy side (resume once per callback)

class _Master:
    def __init__(self):
        self.shutdowns = 0
        self.commands = self
        self.calls = []

    def shutdown(self):
        self.shutdowns += 1

    def call(self, *a, **k):
        self.calls.append(a)


def pump_mitm(ipc, rounds=4):
    """Run the real callback pump of the mitmproxy-side addon until its queue is drained."""
    import mitmproxy.ctx
    import hippolyzer.lib.proxy.http_proxy as hp

    class _Watcher:
        def __init__(self, sig):
            self.n = 0

        def check_shutdown_needed(self):
            self.n += 1
            return self.n > rounds

    old_watcher, old_master = hp.ParentProcessWatcher, getattr(mitmproxy.ctx, "master", None)
    hp.ParentProcessWatcher = _Watcher
    mitmproxy.ctx.master = _Master()
    try:
        asyncio.get_event_loop_policy().get_event_loop().run_until_complete(ipc._pump_callbacks())
    finally:
        hp.ParentProcessWatcher = old_watcher
        mitmproxy.ctx.master = old_master


def mitm_variants(ctx):
    """Each callback resumes the original flow once, also when applying the state fails."""
    from hippolyzer.lib.proxy.http_proxy import IPCInterceptionAddon
    for variant in ("good", "corrupt_state", "unknown_event", "preempt_known", "preempt_unknown", "two_flows"):
        fc = PicklingFlowContext()
        addon = IPCInterceptionAddon(fc)
        flow = make_flow("https://www.example.invalid/x")
        resumes = []
        intercepts = []
        flow.resume = lambda: resumes.append(1)           # count, instead of waking a (non-existent) proxy layer
        orig_intercept = flow.intercept
        flow.intercept = lambda: (intercepts.append(1), orig_intercept())[1]
        addon.request(flow)
        if len(fc.from_proxy_queue.log) != 1 or len(intercepts) != 1:
            ctx.violation("mitm-request-not-queued-once", "the mitmproxy-side addon did not intercept and queue the request once",
                          {"variant": variant})
        state = flow.get_state()
        flow2 = None
        resumes2 = []
        if variant == "good":
            fc.to_proxy_queue.put(("callback", flow.id, state))
        elif variant == "corrupt_state":
            bad = dict(state)
            bad.pop("request", None)
            fc.to_proxy_queue.put(("callback", flow.id, bad))
        elif variant == "unknown_event":
            fc.to_proxy_queue.put(("bogus", flow.id, state))
        elif variant == "preempt_known":
            fc.to_proxy_queue.put(("preempt", flow.id, state))
        elif variant == "two_flows":
            flow2 = make_flow("https://www.example.invalid/y")
            flow2.resume = lambda: resumes2.append(1)
            addon.request(flow2)
            fc.to_proxy_queue.put(("callback", flow2.id, flow2.get_state()))
            fc.to_proxy_queue.put(("callback", flow.id, state))
        else:
            fc.to_proxy_queue.put(("preempt", "no-such-flow", state))
        pump_mitm(addon)
        ctx.count("mitm_side_runs")
        ctx.ev()
        expect = {"good": 1, "corrupt_state": 1, "unknown_event": 0, "preempt_known": 1, "preempt_unknown": 0, "two_flows": 1}[variant]
        if len(resumes) != expect or (flow2 is not None and len(resumes2) != 1):
            ctx.violation("mitm-resume-count:" + variant, "the intercepted flow was not resumed exactly once per callback",
                          {"variant": variant, "resumes": len(resumes), "expected": expect, "resumes2": len(resumes2)})
        ctx.nontrivial(("mitm", variant))


def mitm_histories(ctx):
    """Several items through ONE run of the callback pump: an item that names no live flow (a replay request, a hand-back for a
    flow that is gone) must not resume the flow handled just before it - that flow may have been intercepted again since."""
    from hippolyzer.lib.proxy.http_proxy import IPCInterceptionAddon
    for filler in ("replay", "callback_unknown", "preempt_unknown", "bogus"):
        fc = PicklingFlowContext()
        addon = IPCInterceptionAddon(fc)
        flow = make_flow("https://www.example.invalid/a", resp=True, resp_content=b"server body")
        resumes = []
        flow.resume = lambda: resumes.append(1)
        addon.request(flow)
        fc.to_proxy_queue.put(("callback", flow.id, flow.get_state()))
        pump_mitm(addon)
        ok = len(resumes) == 1
        # mitmproxy intercepts the same flow again for its response; the main process has not answered yet
        addon.response(flow)
        other = make_flow("https://www.example.invalid/other")
        if filler == "replay":
            fc.to_proxy_queue.put(("replay", None, other.get_state()))
        elif filler == "callback_unknown":
            fc.to_proxy_queue.put(("callback", "flow-that-is-gone", other.get_state()))
        elif filler == "preempt_unknown":
            fc.to_proxy_queue.put(("preempt", "flow-that-is-gone", other.get_state()))
        else:
            fc.to_proxy_queue.put(("bogus", "x", other.get_state()))
        pump_mitm(addon)
        ctx.count("mitm_history_runs")
        ctx.ev()
        if not ok or len(resumes) != 1:
            ctx.violation("mitm-resumed-without-hand-back:" + filler, "an intercepted flow was resumed although the main process had "
                          "not handed it back (an unrelated queue item resumed it)", {"filler": filler, "resumes": len(resumes)})
        fc.to_proxy_queue.put(("callback", flow.id, flow.get_state()))
        pump_mitm(addon)
        if len(resumes) != 2:
            ctx.violation("mitm-resume-count:history:" + filler, "the intercepted flow was not resumed exactly once per hand-back",
                          {"filler": filler, "resumes": len(resumes), "expected": 2})
        ctx.nontrivial(("mitm-history", filler))
    # the same inside one pump run (items queued back to back)
    for filler in ("replay", "callback_unknown"):
        fc = PicklingFlowContext()
        addon = IPCInterceptionAddon(fc)
        flow = make_flow("https://www.example.invalid/b", resp=True, resp_content=b"server body")
        resumes = []
        flow.resume = lambda: resumes.append(1)
        addon.request(flow)
        other = make_flow("https://www.example.invalid/other")
        fc.to_proxy_queue.put(("callback", flow.id, flow.get_state()))
        fc.to_proxy_queue.put(("replay", None, other.get_state()) if filler == "replay" else ("callback", "gone", other.get_state()))
        pump_mitm(addon, rounds=6)
        ctx.count("mitm_history_runs")
        ctx.ev()
        if len(resumes) != 1:
            ctx.violation("mitm-resume-count:burst:" + filler, "a flow was not resumed exactly once for its one hand-back when another "
                          "queue item followed immediately", {"filler": filler, "resumes": len(resumes)})
        ctx.nontrivial(("mitm-burst", filler))


def mitm_long_wait(ctx, n_between):
    """A flow an addon holds for a long while: its request is intercepted, then `n_between` other flows come and go through the
    same mitmproxy-side addon, and only then the main process hands the first one back. It is still known, gets the state and
    is resumed once."""
    from hippolyzer.lib.proxy.http_proxy import IPCInterceptionAddon
    fc = PicklingFlowContext()
    addon = IPCInterceptionAddon(fc)
    first = make_flow("https://www.example.invalid/held-for-long")
    resumes = []
    first.resume = lambda: resumes.append(1)
    addon.request(first)
    state = first.get_state()
    state["request"]["path"] = b"/rewritten-while-held"
    keep = []
    for i in range(n_between):
        other = make_flow(f"https://www.example.invalid/other/{i}")
        other.resume = lambda: None
        keep.append(other)          # (requests in flight are referenced by their connections)
        addon.request(other)
        fc.to_proxy_queue.put(("callback", other.id, other.get_state()))
        if i % 200 == 199:
            pump_mitm(addon, rounds=260)
    pump_mitm(addon, rounds=260)
    fc.to_proxy_queue.put(("callback", first.id, state))
    pump_mitm(addon)
    ctx.ev()
    ctx.count("mitm_long_waits")
    ctx.count("flows_between_interception_and_hand_back", n_between)
    if len(resumes) != 1 or first.request.path != "/rewritten-while-held":
        ctx.violation("mitm-held-flow-forgotten", "a flow handed back after many other flows had gone through was not given its state "
                      "and resumed exactly once", {"flows_between": n_between, "resumes": len(resumes), "path": first.request.path})
    ctx.nontrivial(("mitm-long-wait", n_between))


def mitm_view(flow):
    req, resp = flow.request, flow.response
    ser = flow.metadata.get("cap_data_ser")
    return {
        "cap": None if ser is None else tuple(ser),
        "meta": {k: v for k, v in flow.metadata.items() if k not in ("cap_data", "cap_data_ser")},
        "request": (req.method, req.url, bytes(req.content or b""), tuple(sorted(req.headers.items()))),
        "response": None if resp is None else (resp.status_code, bytes(resp.content or b""), tuple(sorted(resp.headers.items()))),
    }


def end_to_end(ctx, kind, behaviour, on, ua, owner_leaves=False):
    """Whole cycle through both processes' code: mitm addon -> queue -> main process -> queue -> mitm addon."""
    from hippolyzer.lib.proxy.http_proxy import IPCInterceptionAddon
    server_response = _server_response(kind)
    addon = FlowAddon(behaviour, on)
    rig = HTTPRig(addons=[addon])
    FAIL.update(armed_at=None, count=0, in_handler=0, points=[], fired=None)
    _SNAPS.clear()
    wit = {"e2e": True, "kind": kind, "behaviour": behaviour, "on": on, "ua": ua}
    try:
        session, flow = build(rig, kind, "request")
        addon.session = session
        del flow.metadata["cap_data_ser"]
        if ua == "browser":
            flow.request.headers["User-Agent"] = "Mozilla/5.0 (HippoBrowser)"
        if ua in ("injected", "browser"):
            flow.request.headers["X-Hippo-Injected"] = "1"
        expect_flags = {"from_browser": ua == "browser", "request_injected": ua == "injected"}
        ipc = IPCInterceptionAddon(rig.flow_context)
        resumes = []
        flow.resume = lambda: resumes.append(1)
        done_resumes = 0
        for phase in ("request", "response"):
            if phase == "request":
                ipc.request(flow)
            else:
                if owner_leaves:
                    # between the two events of the flow its avatar logs out (the other avatar stays): the response event names a
                    # session the main process no longer knows - the flow has no owner now, and certainly not somebody else
                    if session in rig.session_manager.sessions:
                        rig.session_manager.sessions.remove(session)
                    addon.session = None
                    ctx.count("e2e_owner_left_between_request_and_response")
                if flow.response is None:
                    flow.response = server_response
                # (a response injected in the request phase still gets mitmproxy's response event)
                ipc.responseheaders(flow)
                before = len(rig.flow_context.from_proxy_queue.log)
                ipc.response(flow)
                if len(rig.flow_context.from_proxy_queue.log) == before:
                    break                                     # deliberately not intercepted
            addon.taken = None
            exc = rig.pump()
            if exc is not None:
                ctx.count("exceptions_escaped_pump")
            if addon.taken is not None:
                pump_mitm(ipc)
                if len(resumes) != done_resumes:
                    ctx.violation("e2e-taken-flow-resumed-early", "mitmproxy resumed a flow the addon still owned", dict(wit, phase=phase))
                try:
                    addon.taken.resume()
                    ctx.count("taken_flows_released")
                except Exception as e:
                    ctx.violation("taken-flow-release-failed", "the addon could not release the flow it had taken",
                                  dict(wit, phase=phase, exc=repr(e)[:200]))
            pump_mitm(ipc)
            done_resumes += 1
            if len(resumes) != done_resumes:
                ctx.violation("e2e-resume-count", "the original mitmproxy flow was not resumed exactly once for the event",
                              dict(wit, phase=phase, resumes=len(resumes), expected=done_resumes))
            snaps = _SNAPS.get(flow.id, [])
            if snaps and "snapshot_error" not in snaps[-1]:
                want = snaps[-1]
                got = mitm_view(flow)
                ctx.count("e2e_states_compared")
                # (a login response is where a session is born: that flow gets the new session as its owner)
                if owner_leaves and phase == "response" and kind != "login" and want["cap"] and \
                        (want["cap"][3] is not None or want["cap"][4] is not None):
                    ctx.violation("flow-attributed-to-another-avatar", "the response event of a flow whose avatar had logged out was "
                                  "attributed to a session / region of somebody else", dict(wit, cap=repr(want["cap"])[:200]))
                if phase == "request":
                    for k, v in expect_flags.items():
                        if want["meta"].get(k) != v:
                            ctx.violation("e2e-flag-wrong:" + k, "the main process saw the wrong origin flag for the flow",
                                          dict(wit, flag=k, got=want["meta"].get(k), expected=v))
                for field in ("meta", "request", "response"):
                    if got[field] != want[field]:
                        ctx.violation("e2e-state-changed:" + field, "the flow applied on the mitmproxy side differs from what the "
                                      "main process handed back", dict(wit, phase=phase, field=field, before=repr(want[field])[:300],
                                                                        after=repr(got[field])[:300]))
                        break
            ctx.ev()
        ctx.count("e2e_runs")
        ctx.nontrivial(("e2e", kind, behaviour, on, ua))
    finally:
        rig.close()


def preempt_after_handback(ctx, kind, ua, others):
    """An addon that kept the flow object around answers the request itself while it is on its way to the server: it sets a
    response and calls preempt() after the request event had been handed back. The injected response and the routing metadata
    must reach the mitmproxy side's flow (which is intercepted, given the state and resumed once more)."""
    from hippolyzer.lib.proxy.http_proxy import IPCInterceptionAddon

    class Remember:
        def __init__(self):
            self.seen = []

        def handle_http_request(self, session_manager, flow):
            self.seen.append(flow)

    addon = Remember()
    rig = HTTPRig(addons=[addon])
    FAIL.update(armed_at=None, count=0, in_handler=0, points=[], fired=None)
    wit = {"preempt_after_handback": True, "kind": kind, "ua": ua, "others": others}
    try:
        session, flow = build(rig, kind, "request")
        del flow.metadata["cap_data_ser"]
        if ua == "injected":
            flow.request.headers["X-Hippo-Injected"] = "1"
        ipc = IPCInterceptionAddon(rig.flow_context)
        resumes, intercepts = [], []
        flow.resume = lambda: resumes.append(1)
        orig_intercept = flow.intercept
        flow.intercept = lambda: (intercepts.append(1), orig_intercept())[1]
        ipc.request(flow)
        rig.pump()
        pump_mitm(ipc)
        if len(resumes) != 1:
            ctx.violation("e2e-resume-count", "the original mitmproxy flow was not resumed exactly once for the event",
                          dict(wit, phase="request", resumes=len(resumes), expected=1))
            return
        if not addon.seen:
            ctx.inconclusive_because(f"the request of kind {kind} never reached the addon hook")
            return
        # other traffic goes through both sides in the meantime
        for k in range(others):
            _, of = build(rig, "asset", "request")
            del of.metadata["cap_data_ser"]
            of.resume = lambda: None
            ipc.request(of)
            rig.pump()
            pump_mitm(ipc)
        held = addon.seen[0]
        body = b"answered by the addon %d" % others
        try:
            held.response = mitmproxy.http.Response.make(203, body, {"X-From": "addon"})
            held.preempt()
        except Exception as e:
            ctx.violation("preempt-raised", "preempt() on a handed-back flow raised", dict(wit, exc=repr(e)[:200]))
            return
        pump_mitm(ipc)
        ctx.ev()
        ctx.count("preempts_after_handback")
        resp = flow.response
        if resp is None or bytes(resp.content or b"") != body or resp.status_code != 203 or resp.headers.get("X-From") != "addon":
            ctx.violation("preempt-response-lost", "the response an addon injected with preempt() after the request had been handed "
                          "back did not reach the mitmproxy side's flow", dict(wit, response=repr(resp)[:200], resumes=len(resumes)))
            return
        if flow.metadata.get("response_injected") is not True:
            ctx.violation("preempt-metadata-lost", "the response_injected flag of a preempting response did not reach the mitmproxy side",
                          dict(wit, meta=repr({k: v for k, v in flow.metadata.items() if k != "cap_data"})[:300]))
            return
        if len(resumes) != 2 or len(intercepts) != 2:
            ctx.violation("preempt-resume-count", "a preempted flow was not intercepted and resumed exactly once more",
                          dict(wit, resumes=len(resumes), intercepts=len(intercepts)))
            return
        ctx.nontrivial(("preempt-after-handback", kind, ua, others))
    finally:
        rig.close()


def _server_response(kind):
    rig = HTTPRig(addons=[])
    try:
        return build(rig, kind, "response")[1].response
    finally:
        rig.close()


def mitm_side(ctx):
    mitm_variants(ctx)
    mitm_histories(ctx)
    for n_between in (0, 300, 1023, 1024, ctx.pick(1500, 5000)):
        mitm_long_wait(ctx, n_between)
    for kind in ("asset", "seed", "proxy_only", "unknown", "upload", "temporary"):
        preempt_after_handback(ctx, kind, "viewer", ctx.rng.choice([0, 0, 1, 3]))
    combos = [(k, b, on, ua) for k in URL_KINDS for b in BEHAVIOURS for on in ("request", "response")
              for ua in ("viewer", "injected", "browser")]
    ctx.rng.shuffle(combos)
    for i, (k, b, on, ua) in enumerate(combos[:ctx.pick(120, len(combos))]):
        end_to_end(ctx, k, b, on, ua)
        if i % 4 == 0 and on == "response":
            end_to_end(ctx, k, b, on, ua, owner_leaves=True)
    for k in URL_KINDS:
        end_to_end(ctx, k, "ignore", "response", "viewer", owner_leaves=True)



# ------------------------------------------------------------------ flows released later by an addon's own task

DEFERRED_EVENTS = ["none", "region_changed", "region_registered", "circuit_created", "other_flow", "other_session_closed",
                   "region_changed_twice"]


def deferred_release(ctx, kind, event_type, scope, between, yields, use_webapp):
    """The way real addons hold on to a flow: take it in the hook, answer it from a task scheduled through the addon API (the
    default session+addon scoped task, or an unscoped one), release it when the task gets there.  While the task is pending
    the session's life goes on - the avatar moves to another region, a neighbour region registers, another flow passes
    through, another avatar's session ends.  None of that owns the flow: it is handed back exactly once all the same."""
    from hippolyzer.lib.proxy.addon_utils import BaseAddon
    from hippolyzer.lib.proxy.addons import AddonManager
    state = {"taken": 0, "resumed": 0}

    class TaskAddon(BaseAddon):
        def _take(self, flow):
            if flow.cap_data is None or flow.cap_data.cap_name in (None, "") and kind != "unknown":
                pass
            taken = flow.take()
            state["taken"] += 1
            sess = flow.cap_data.session() if flow.cap_data and flow.cap_data.session else None

            async def later():
                for _ in range(yields):
                    await asyncio.sleep(0)
                state["resumed"] += 1
                taken.resume()
            if scope == "unscoped" or sess is None:
                self._schedule_task(later(), session_scoped=False, addon_scoped=False)
            else:
                self._schedule_task(later(), session=sess)

        def handle_http_request(self, session_manager, flow):
            if event_type == "request" and flow.id == state.get("flow_id"):
                self._take(flow)

        def handle_http_response(self, session_manager, flow):
            if event_type == "response" and flow.id == state.get("flow_id"):
                self._take(flow)

    addons = [TaskAddon()]
    if use_webapp:
        # the library's own user of this pattern: a cap served by an ASGI app inside a scheduled task
        from hippolyzer.lib.proxy.webapp_cap_addon import WebAppCapAddon
        import mitmproxy.ctx

        async def app(scope_, receive, send):
            await receive()
            await asyncio.sleep(0)
            await send({"type": "http.response.start", "status": 200, "headers": [(b"content-type", b"text/plain")]})
            await send({"type": "http.response.body", "body": b"served by the web app"})

        class HVWebApp(WebAppCapAddon):
            CAP_NAME = "HippoFake"
            APP = staticmethod(app)
        addons = [HVWebApp()]
        if not hasattr(mitmproxy.ctx, "master"):
            mitmproxy.ctx.master = None
    rig = HTTPRig(addons=addons)
    wit = {"kind": kind, "event": event_type, "task_scope": scope, "between": between, "yields": yields, "webapp": use_webapp}
    try:
        session, flow = build(rig, kind, event_type)
        state["flow_id"] = flow.id
        q = rig.flow_context.to_proxy_queue
        q.log.clear()
        q.items.clear()
        rig.send_event(event_type, flow)
        exc = rig.pump()
        if exc is not None:
            ctx.violation("deferred:pump-raised", "handling an intercepted flow raised", dict(wit, exc=repr(exc)[:200]))
            return
        early = [it for it in q.log if it[0] == "callback" and it[1] == flow.id]
        if not use_webapp and not state["taken"]:
            ctx.count("deferred_flow_never_reached_addon")
            return
        if use_webapp and early:
            ctx.count("deferred_webapp_not_taken")
            return
        if early and state["resumed"] == 0:
            ctx.violation("taken-flow-handed-back-early", "a flow an addon took ownership of was handed back before the addon "
                          "released it", dict(wit, callbacks=len(early)))
            return
        # ---- life goes on while the task is pending
        region = session.main_region or session.regions[0]
        try:
            if between in ("region_changed", "region_changed_twice"):
                AddonManager.handle_region_changed(session, session.regions[-1])
                if between == "region_changed_twice":
                    rig.loop.run_until_complete(asyncio.sleep(0))
                    AddonManager.handle_region_changed(session, session.regions[0])
            elif between == "region_registered":
                session.register_region(("10.1.0.9", 13009), seed_url="https://sim1.example.invalid:12043/cap/seed-ninth")
            elif between == "circuit_created":
                AddonManager.handle_circuit_created(session, region)
            elif between == "other_flow":
                other = make_flow("https://elsewhere.example.invalid/x")
                rig.send_event("request", other)
                rig.pump()
            elif between == "other_session_closed":
                for s2 in list(rig.session_manager.sessions):
                    if s2 is not session:
                        rig.session_manager.close_session(s2)
                        break
        except Exception as e:
            ctx.violation("deferred:event-raised", "an ordinary session event raised while a flow was held", dict(wit, exc=repr(e)[:200]))
            return
        for _ in range(yields + 12):
            rig.loop.run_until_complete(asyncio.sleep(0))
        callbacks = [it for it in q.log if it[0] == "callback" and it[1] == flow.id]
        if len(callbacks) != 1:
            ctx.violation("deferred-flow-not-handed-back-once:" + ("never" if not callbacks else "more-than-once") + ":" + between,
                          "a flow whose addon releases it from a scheduled task was not handed back exactly once",
                          dict(wit, callbacks=len(callbacks), task_ran_to_release=state["resumed"]))
            return
        if use_webapp:
            back = HippoHTTPFlow.from_state(copy.deepcopy(callbacks[-1][2]), rig.session_manager)
            if back.response is None or bytes(back.response.content or b"") != b"served by the web app":
                ctx.violation("deferred:webapp-response-lost", "the web app's response did not come back with the flow",
                              dict(wit, got=None if back.response is None else bytes(back.response.content or b"")[:40]))
                return
            ctx.count("deferred_webapp_flows")
        ctx.count("deferred_releases")
        ctx.cover("deferred_events", between)
        ctx.nontrivial(("deferred", kind, event_type, scope, between, yields, use_webapp))
        ctx.ev()
    finally:
        rig.close()


def waiter_scenarios(ctx, level, how, kind):
    """Flows taken through the session's / region's HTTP message handler instead of an addon hook: `wait_for()` with the
    caller's own timeout.  A waiter that is served owns the flow until it releases it; a waiter that gave up (cancelled,
    timed out, or both in either order) owns nothing - the next matching response belongs to nobody and goes straight back."""
    rig = HTTPRig(addons=[])
    wit = {"waiter_level": level, "waiter": how, "kind": kind}
    try:
        session, flow = build(rig, kind, "response")
        cap = {"eq": "EventQueueGet", "seed": "Seed", "wrapper": "GetTexture", "upload": "UpdateScriptAgent"}[kind]
        region = [r for r in session.regions if r.cap_urls.get("EventQueueGet")][0]
        target = session.http_message_handler if level == "session" else region.http_message_handler
        q = rig.flow_context.to_proxy_queue
        served = {}

        async def prepare():
            fut = target.wait_for((cap,), timeout=0.02 if how != "served" else 5.0)
            if how == "cancel_then_timeout":
                fut.cancel()
            if how != "served":
                await asyncio.sleep(0.06)
            if how == "timeout_then_cancel":
                fut.cancel()
            if fut.done() and not fut.cancelled():
                fut.exception()
            return fut
        fut = rig.loop.run_until_complete(prepare())
        q.log.clear()
        q.items.clear()
        rig.send_event("response", flow)
        exc = rig.pump()
        callbacks = [it for it in q.log if it[0] == "callback" and it[1] == flow.id]
        if how == "served":
            if not fut.done() or fut.cancelled() or fut.exception() is not None:
                ctx.violation("waiter-not-served", "a pending wait_for() was not given the matching flow", dict(wit, exc=repr(exc)[:200]))
                return
            if callbacks:
                ctx.violation("taken-flow-handed-back-early", "a flow a waiter took ownership of was handed back before the waiter "
                              "released it", dict(wit, callbacks=len(callbacks)))
                return
            fut.result().resume()
            callbacks = [it for it in q.log if it[0] == "callback" and it[1] == flow.id]
            ctx.count("waiter_served_flows")
        else:
            ctx.count("waiter_abandoned_scenarios")
        if len(callbacks) != 1:
            ctx.violation("waiter-flow-not-handed-back-once:" + how + (":never" if not callbacks else ":more-than-once"),
                          "a response flow was not handed back exactly once around a wait_for() on the HTTP message handler",
                          dict(wit, callbacks=len(callbacks), exc=repr(exc)[:200]))
            return
        # and the one after it as well
        session2_flow = build_more(rig, session, kind)
        if session2_flow is not None:
            rig.send_event("response", session2_flow)
            rig.pump()
            cb2 = [it for it in q.log if it[0] == "callback" and it[1] == session2_flow.id]
            if len(cb2) != 1:
                ctx.violation("waiter-flow-not-handed-back-once:" + how + ":later-flow",
                              "a later response flow was not handed back exactly once after a wait_for() on the HTTP message handler",
                              dict(wit, callbacks=len(cb2)))
                return
        ctx.nontrivial(("waiter", level, how, kind))
        ctx.ev()
    finally:
        rig.close()


def build_more(rig, session, kind):
    """A second response flow for the same cap of the same session (no new sessions / regions)."""
    if kind != "eq":
        return None
    flow = make_flow("https://sim1.example.invalid:12043/cap/eq", method=b"POST", content=llsd.format_xml({"ack": 7, "done": False}))
    cap = CapData("EventQueueGet", weakref.ref([r for r in session.regions if r.cap_urls.get("EventQueueGet")][0]),
                  weakref.ref(session), "https://sim1.example.invalid:12043/cap/eq", CapType.NORMAL)
    flow.metadata["cap_data_ser"] = cap.serialize()
    flow.metadata["needed_proxy_caps"] = []
    flow.response = make_flow("http://x.invalid/", resp=True, resp_content=llsd.format_xml({"id": 8, "events": []}),
                              resp_headers={"Content-Type": "application/llsd+xml"}).response
    return flow


def deferred_all(ctx):
    n = 0
    for kind in ("proxy_only", "seed", "eq", "asset", "wrapper", "temporary", "upload"):
        for event_type in ("request", "response"):
            if kind == "proxy_only" and event_type == "response":
                continue
            for scope in ("default", "unscoped"):
                for between in DEFERRED_EVENTS:
                    n += 1
                    if not ctx.mine(n):
                        continue
                    deferred_release(ctx, kind, event_type, scope, between, yields=1 + n % 4, use_webapp=False)
    for between in DEFERRED_EVENTS:
        n += 1
        if ctx.mine(n):
            deferred_release(ctx, "proxy_only", "request", "default", between, yields=2, use_webapp=True)
    for level in ("session", "region"):
        for how in ("served", "timeout_only", "cancel_then_timeout", "timeout_then_cancel"):
            for kind in ("eq", "seed", "upload"):
                n += 1
                if ctx.mine(n):
                    waiter_scenarios(ctx, level, how, kind)


def run(ctx):
    try:
        asyncio.get_event_loop_policy().get_event_loop()
    except Exception:
        asyncio.set_event_loop(asyncio.new_event_loop())
    deferred_all(ctx)
    scenarios = [(k, e, b) for k in URL_KINDS for e in ("request", "response") for b in BEHAVIOURS]
    stride = ctx.pick(3, 1)
    try:
        for i, (kind, event_type, behaviour) in enumerate(scenarios):
            if not ctx.mine(i):
                continue
            if ctx.out_of_time():
                ctx.inconclusive_because("work budget exhausted before all scenarios were run")
                break
            points = run_scenario(ctx, kind, event_type, behaviour, None)
            ctx.count("scenarios")
            ctx.count("clean_runs")
            ctx.nontrivial((kind, event_type, behaviour, "clean"))
            if len(ctx.samples) < 2:
                ctx.sample({"scenario": [kind, event_type, behaviour], "failpoints": points[:40], "n_failpoints": len(points)})
            for k in range(0, len(points)):
                if (k + i) % stride:
                    continue
                run_scenario(ctx, kind, event_type, behaviour, k)
                ctx.count("failpoint_runs")
                ctx.cover("failpoint_functions", points[k])
                ctx.nontrivial((kind, event_type, behaviour, points[k]))
            # statement-level failpoints inside the event manager's own handler functions
            lines = run_scenario(ctx, kind, event_type, behaviour, None, mode="line")
            lstride = ctx.pick(4, 1)
            for k in range(0, len(lines)):
                if (k + i) % lstride:
                    continue
                run_scenario(ctx, kind, event_type, behaviour, k, mode="line")
                ctx.count("line_failpoint_runs")
                ctx.cover("failpoint_lines", lines[k])
                ctx.nontrivial((kind, event_type, behaviour, lines[k]))
    finally:
        monitoring_off()
    if ctx.shard == ctx.nshards - 1:
        mitm_side(ctx)


def replay(ctx, w):
    try:
        asyncio.get_event_loop_policy().get_event_loop()
    except Exception:
        asyncio.set_event_loop(asyncio.new_event_loop())
    if "waiter" in w:
        waiter_scenarios(ctx, w["waiter_level"], w["waiter"], w["kind"])
    elif "task_scope" in w:
        deferred_release(ctx, w["kind"], w["event"], w["task_scope"], w["between"], w["yields"], w["webapp"])
    elif w.get("e2e"):
        end_to_end(ctx, w["kind"], w["behaviour"], w["on"], w["ua"])
    elif "variant" in w:
        mitm_variants(ctx)
    elif "kind" in w:
        try:
            run_scenario(ctx, w["kind"], w["event"], w["behaviour"], w.get("failpoint_index"), mode=w.get("failpoint_mode", "call"))
        finally:
            monitoring_off()
