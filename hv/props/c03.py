"""C03 - zero-coding is a lossless, bounded, canonical run-length code.

Monitors the real `UDPMessageSerializer.zero_code_compress` / `UDPMessageDeserializer.zero_code_expand`
(and the zero-coded header peek in `_parse_message_header`) against an independent reference
decoder and a canonical-form scanner.
"""
import itertools

from .. import env

env.import_repo()

from hippolyzer.lib.base.message.udpserializer import UDPMessageSerializer  # noqa: E402
from hippolyzer.lib.base.message.udpdeserializer import UDPMessageDeserializer  # noqa: E402
from hippolyzer.lib.base.message.template_dict import DEFAULT_TEMPLATE_DICT  # noqa: E402

from ..refs import wire  # noqa: E402
from .. import gen_msg  # noqa: E402

LEVEL = "exploration"
SHARDS = {"quick": 4, "thorough": 16}
TIMEOUT_S = {"quick": 300, "thorough": 2400}
BUDGET_S = {"quick": 60, "thorough": 900}
CAP = 0x3000
MAX_STEP = 256

RULE = ("encoder: every string over {00,01,FF} up to length L (L=9 quick, 13 thorough; exhaustive), every zero-run "
        "length 0..1100 in 4 left/right contexts, random strings up to the cap; decoder: every input over "
        "{00,01,02,FF} up to length M (8 quick, 11 thorough; exhaustive), adversarial inputs around the 0x3000 cap, "
        "random inputs; header peek: zero-coded datagrams from the template generator. distinct_nontrivial = "
        "distinct inputs containing at least one zero byte"
        ". Rounds 6-7: the result of an earlier expand call must be unchanged after later calls; compress / expand from four threads at once against their single-threaded results"
        ". Round 8: the encoder given a bytearray (what serialize() passes) - the result must survive the caller reusing that buffer and the argument must be "
        "unchanged; peak allocation (tracemalloc) of one expand call on decompression bombs up to 65000 bytes must stay under 8x(cap+256) bytes whether it refuses or not"
        ". Round 9: every string over {00,01,FF} up to length 4 in six byte-string types (bytes, bytearray, memoryview, JankStringyBytes, RawBytes, a plain subclass) through both directions")
ASSUMPTIONS = [
    "reference semantics: 00 N = N zeros, each extra 00 before the count adds 256, an unterminated run of k zero "
    "bytes at the end is 1+256(k-1) zeros (matches the viewer's decoder)",
    "cap: inputs whose reference expansion exceeds 0x3000+256 must be refused with ValueError; inputs whose "
    "expansion is <= 0x3000 must be decoded; in between either is accepted if the output equals the reference",
]
MUST_REACH = {
    "enc_cases": 1, "dec_cases": 1, "dec_refused": 1, "dec_wrap_inputs": 1, "dec_trailing_zero_inputs": 1,
    "enc_runs_over_255": 1, "header_peeks": 1, "dec_between_cap": 1, "enc_repeat_after_mutation": 100, "enc_at_size_boundary": 12,
    "dec_earlier_results_still_intact": 1000, "coder_calls_from_concurrent_threads": 5000,
    "enc_buffer_arguments": 100, "coder_argument_types_checked": 300, "enc_buffer_arguments_without_zero": 40, "dec_allocation_measured_on_refusal": 6,
}


def check_encoder(ctx, s: bytes, tag):
    ctx.ev()
    ctx.count("enc_cases")
    if b"\x00" in s:
        ctx.nontrivial(("e", s))
    try:
        c = bytes(UDPMessageSerializer.zero_code_compress(s))
        if tag == "rand" and len(s) < 80 and ctx.counters.get("sampled_enc", 0) < 2:
            ctx.count("sampled_enc")
            ctx.sample({"encoder_input": s, "encoder_output": c}, force=True)
    except Exception as e:
        ctx.violation("encoder-raises", "zero_code_compress raised on a byte string", {"input": s, "exc": repr(e), "tag": tag, "kind": "enc"})
        return
    if not wire.follows_stated_form(c):
        ctx.violation("encoder-noncanonical", "encoder output has a 00 not followed by a count 1..255",
                      {"input": s, "output": c, "tag": tag, "kind": "enc"})
        return
    if wire.ref_zero_expand(c) != s:
        ctx.violation("encoder-roundtrip-ref", "reference expansion of the encoder's output differs from the input",
                      {"input": s, "output": c, "tag": tag, "kind": "enc"})
        return
    if len(s) <= CAP:
        try:
            back = bytes(UDPMessageDeserializer.zero_code_expand(c))
        except Exception as e:
            ctx.violation("roundtrip-raises", "decoder raised on the encoder's own output (input within the cap)",
                          {"input": s, "output": c, "exc": repr(e), "tag": tag, "kind": "enc"})
            return
        if back != s:
            ctx.violation("roundtrip", "expand(compress(s)) != s", {"input": s, "output": c, "back": back, "tag": tag, "kind": "enc"})
            return
    # encoding is a function of the input alone: what a caller does to an earlier result (append a trailer, clear it,
    # poke a byte) must not show up in a later encoding of the same bytes
    if ctx.counters.get("enc_cases", 0) % 7 == 0:
        try:
            first = UDPMessageSerializer.zero_code_compress(s)
            if isinstance(first, bytearray):
                first += b"\x00\x00HV"
                if len(first) > 4:
                    first[0] ^= 0xFF
            again = bytes(UDPMessageSerializer.zero_code_compress(s))
            ctx.count("enc_repeat_after_mutation")
            if again != c:
                ctx.violation("encoder-depends-on-history", "encoding the same bytes again gave a different result after the caller "
                              "modified an earlier result", {"input": s[:200], "first": c[:200], "again": again[:200], "tag": tag, "kind": "enc"})
                return
        except Exception as e:
            ctx.violation("encoder-raises", "zero_code_compress raised on a byte string", {"input": s[:200], "exc": repr(e), "tag": tag, "kind": "enc"})
            return
    if c == wire.ref_zero_compress(s):
        ctx.count("enc_equal_to_maximal_run_reference")
    if b"\x00" * 256 in s:
        ctx.count("enc_runs_over_255")


_PREV_DEC = []
ALLOC_BOUND = 8 * (CAP + MAX_STEP)


def check_encoder_buffer_argument(ctx, s: bytes, rng):
    """serialize() hands the encoder its body writer's bytearray. What the encoder returns is then the caller's to keep: it
    must not be the argument itself, must not change when the caller reuses its buffer, and the argument must come back as it
    went in."""
    ctx.ev()
    buf = bytearray(s)
    try:
        res = UDPMessageSerializer.zero_code_compress(buf)
    except Exception as e:
        ctx.violation("encoder-raises", "zero_code_compress raised on a bytearray", {"input": s[:200], "exc": repr(e), "kind": "encbuf"})
        return
    ctx.count("enc_buffer_arguments")
    if b"\x00" not in s:
        ctx.count("enc_buffer_arguments_without_zero")
    at_call = bytes(res)
    if bytes(buf) != s:
        ctx.violation("encoder-changes-argument", "zero_code_compress changed the buffer it was given",
                      {"input": s[:200], "after": bytes(buf)[:200], "kind": "encbuf"})
        return
    # the caller reuses its scratch buffer for the next body
    how = rng.choice(["overwrite", "clear", "extend", "poke"])
    if how == "overwrite":
        buf[:] = bytes(len(buf) + 3)
    elif how == "clear":
        del buf[:]
    elif how == "extend":
        buf += b"\x00\x00\x00"
    elif buf:
        buf[rng.randrange(len(buf))] = 0
    else:
        buf += b"\x00"
    if bytes(res) != at_call:
        ctx.violation("encoder-result-aliases-argument", "the encoding handed out earlier changed when the caller reused the buffer "
                      "it had passed in", {"input": s[:200], "reuse": how, "at_call": at_call[:200], "now": bytes(res)[:200], "kind": "encbuf"})
        return
    if at_call != bytes(UDPMessageSerializer.zero_code_compress(s)):
        ctx.violation("encoder-depends-on-argument-type", "a bytearray and the same bytes encode differently",
                      {"input": s[:200], "kind": "encbuf"})


def _byte_string_types():
    from hippolyzer.lib.base.datatypes import JankStringyBytes, RawBytes

    class PlainSubclass(bytes):
        pass
    return [("bytes", bytes), ("bytearray", bytearray), ("memoryview", memoryview), ("JankStringyBytes", JankStringyBytes),
            ("RawBytes", RawBytes), ("bytes-subclass", PlainSubclass)]


def check_coder_argument_types(ctx, s: bytes):
    """'any byte string': what decoded messages hold are bytes subclasses with ideas of their own about truth and equality
    (a lone NUL is falsy and equals ''), callers also pass bytearrays and memoryviews. The code is a function of the bytes."""
    want_c = bytes(UDPMessageSerializer.zero_code_compress(bytes(s)))
    try:
        want_d = bytes(UDPMessageDeserializer.zero_code_expand(bytes(s)))
    except ValueError:
        want_d = None
    for tname, t in _byte_string_types():
        ctx.ev()
        try:
            got = bytes(UDPMessageSerializer.zero_code_compress(t(s)))
        except Exception as e:
            ctx.violation("encoder-raises:" + tname, "zero_code_compress raised on a byte string of another type",
                          {"input": s, "type": tname, "exc": repr(e)[:200], "kind": "argtype"})
            continue
        if got != want_c:
            ctx.violation("encoder-depends-on-argument-type", "the same bytes encode differently when held in another byte-string type",
                          {"input": s, "type": tname, "got": got, "want": want_c, "kind": "argtype"})
            continue
        if want_d is not None:
            try:
                gd = bytes(UDPMessageDeserializer.zero_code_expand(t(s)))
            except Exception as e:
                gd = repr(e)[:100]
            if gd != want_d:
                ctx.violation("decoder-depends-on-argument-type", "the same bytes decode differently when held in another byte-string type",
                              {"input": s, "type": tname, "got": gd, "want": want_d, "kind": "argtype"})
                continue
        ctx.count("coder_argument_types_checked")


def check_decoder_allocation(ctx, d: bytes, tag):
    """'refuses ... instead of allocating without bound': what one call may allocate is bounded by the cap, not by the input.
    Observed with tracemalloc around the call (peak over the call, the input itself already allocated)."""
    import tracemalloc
    ctx.ev()
    started_here = not tracemalloc.is_tracing()
    if started_here:
        tracemalloc.start()
    try:
        tracemalloc.reset_peak()
        base = tracemalloc.get_traced_memory()[0]
        refused = False
        try:
            res = UDPMessageDeserializer.zero_code_expand(d)
        except ValueError:
            refused = True
            res = None
        peak = tracemalloc.get_traced_memory()[1] - base
    finally:
        if started_here:
            tracemalloc.stop()
    del res
    ctx.count("dec_allocation_measured")
    if refused:
        ctx.count("dec_allocation_measured_on_refusal")
    ctx.cover("dec_peak_alloc_kb", min(peak // 4096 * 4, 64))
    if peak > ALLOC_BOUND:
        ctx.violation("decoder-allocates-beyond-cap", "one zero_code_expand() call allocated far more than its size cap allows "
                      "(%s)" % ("before refusing" if refused else "and returned"),
                      {"input_len": len(d), "input_head": d[:32], "peak_bytes": peak, "bound": ALLOC_BOUND, "refused": refused,
                       "tag": tag, "kind": "decalloc", "input": d if len(d) <= 70000 else None})


def threads_phase(ctx, rng):
    """serialize() is documented as safe to call from several threads; the coder underneath must then be re-entrant: the same
    inputs through 4 threads at once (tiny switch interval) give what they give one at a time."""
    import sys
    import threading
    inputs = []
    for _ in range(120):
        n = rng.choice([0, 1, 5, 40, 300, 1200])
        inputs.append(bytes(rng.choice([0, 0, 0, 1, 0xFF, rng.getrandbits(8)]) for _ in range(n)))
    expected = [(bytes(UDPMessageSerializer.zero_code_compress(s)), s) for s in inputs]
    problems = []

    def worker(k):
        order = list(range(len(inputs)))
        for rep in range(ctx.pick(6, 40)):
            for i in order[k::1] + order[:k]:
                enc = bytes(UDPMessageSerializer.zero_code_compress(inputs[i]))
                if enc != expected[i][0]:
                    problems.append(("compress", i))
                    return
                if bytes(UDPMessageDeserializer.zero_code_expand(enc)) != inputs[i]:
                    problems.append(("expand", i))
                    return
    old = sys.getswitchinterval()
    sys.setswitchinterval(1e-6)
    try:
        ts = [threading.Thread(target=worker, args=(k * 7,)) for k in range(4)]
        for t in ts:
            t.start()
        for t in ts:
            t.join()
    finally:
        sys.setswitchinterval(old)
    ctx.count("coder_calls_from_concurrent_threads", 4 * ctx.pick(6, 40) * len(inputs) * 2)
    if problems:
        what, i = problems[0]
        ctx.violation("coder-not-reentrant:" + what, "the zero coder gave another result when called from several threads at once "
                      "than it gives for the same input alone", {"input": inputs[i][:100], "input_len": len(inputs[i]),
                                                                "threads": 4, "kind": "threads"})


def check_decoder(ctx, d: bytes, tag):
    ctx.ev()
    ctx.count("dec_cases")
    if b"\x00" in d:
        ctx.nontrivial(("d", d))
    if b"\x00\x00" in d:
        ctx.count("dec_wrap_inputs")
    if d.endswith(b"\x00"):
        ctx.count("dec_trailing_zero_inputs")
    ref_len = wire.ref_expanded_len(d)
    try:
        res = UDPMessageDeserializer.zero_code_expand(d)
        out = bytes(res)
        # what an earlier call returned is the caller's: a later call must not have changed it
        if _PREV_DEC and bytes(_PREV_DEC[0]) != _PREV_DEC[1]:
            ctx.violation("decoder-result-changed-by-later-call", "the result of an earlier zero_code_expand() call changed when "
                          "another input was expanded", {"earlier_input": _PREV_DEC[2][:100], "later_input": d[:100], "kind": "dec"})
            _PREV_DEC.clear()
            return
        ctx.count("dec_earlier_results_still_intact", 1 if _PREV_DEC else 0)
        _PREV_DEC[:] = [res, out, d]
        if tag == "rand" and 4 < len(d) < 60 and ctx.counters.get("sampled_dec", 0) < 2:
            ctx.count("sampled_dec")
            ctx.sample({"decoder_input": d, "decoder_output_len": len(out), "reference_len": ref_len}, force=True)
    except ValueError as e:
        if ref_len <= CAP:
            ctx.violation("decoder-refuses-small", "decoder refused an input whose expansion is within the cap",
                          {"input": d, "ref_len": ref_len, "exc": repr(e), "tag": tag, "kind": "dec"})
        else:
            ctx.count("dec_refused")
        return
    except Exception as e:
        ctx.violation("decoder-wrong-exception", "decoder raised something other than ValueError",
                      {"input": d, "exc": repr(e), "tag": tag, "kind": "dec"})
        return
    if len(out) > CAP + MAX_STEP + 1:
        ctx.violation("cap-overrun", "decoder returned more than cap + one maximal run",
                      {"input_len": len(d), "input_head": d[:64], "out_len": len(out), "tag": tag, "kind": "dec"})
        return
    if ref_len > CAP + MAX_STEP:
        ctx.violation("cap-not-enforced", "input expanding beyond the cap was not refused",
                      {"input_len": len(d), "input_head": d[:64], "ref_len": ref_len, "out_len": len(out), "tag": tag, "kind": "dec"})
        return
    if ref_len > CAP:
        ctx.count("dec_between_cap")
    if out != wire.ref_zero_expand(d):
        ctx.violation("decoder-vs-reference", "decoder output differs from the reference semantics",
                      {"input": d if len(d) < 200 else d[:200], "out_len": len(out), "ref_len": ref_len, "tag": tag, "kind": "dec"})


def check_header_peek(ctx, rng):
    """Zero-coded datagrams: the header peek must hand the expander no more than 10 + 2*offset bytes and yield
    the same name/extra as a full expansion."""
    templates = gen_msg.all_templates()
    deser = UDPMessageDeserializer()
    calls = []
    orig = UDPMessageDeserializer.__dict__["zero_code_expand"]
    real = orig.__func__

    def spy(buf):
        calls.append(len(buf))
        return real(buf)

    n = ctx.pick(150, 1500)
    UDPMessageDeserializer.zero_code_expand = staticmethod(spy)
    try:
        for i in range(n):
            tmpl = rng.choice(templates)
            spec = gen_msg.limit_for_zerocode(rng, tmpl, {"flags": 0x80 | rng.choice([0, 0x40, 0x10, 0x50]),
                                                           "p_extra": 0.7, "max_var_len": 300})
            if spec["flags"] & 0x10 and not spec["acks"]:
                spec["acks"] = [rng.getrandbits(32)]
            data = wire.ref_encode(tmpl, spec)
            del calls[:]
            ctx.ev()
            try:
                msg = deser._parse_message_header(data)
            except Exception as e:
                ctx.violation("header-peek-raises", "header parse raised on a well-formed zero-coded datagram",
                              {"spec": spec, "exc": repr(e)})
                continue
            ctx.count("header_peeks")
            ctx.nontrivial(("h", spec["name"], len(spec["extra"])))
            limit = 10 + 2 * len(spec["extra"])
            if not calls or max(calls) > limit:
                ctx.violation("header-peek-too-much", "header peek expanded more bytes than it needs",
                              {"spec_name": spec["name"], "extra_len": len(spec["extra"]), "calls": list(calls)})
            if msg.name != spec["name"] or bytes(msg.extra) != spec["extra"]:
                ctx.violation("header-peek-mismatch", "header peek yields a different name/extra than full expansion",
                              {"spec": spec, "got_name": msg.name, "got_extra": bytes(msg.extra)})
    finally:
        UDPMessageDeserializer.zero_code_expand = orig


def run(ctx):
    rng = ctx.rng
    # 1. encoder, exhaustive over {00,01,FF}^<=L
    L = ctx.pick(9, 13)
    idx = 0
    for n in range(0, L + 1):
        for tup in itertools.product((0, 1, 0xFF), repeat=n):
            idx += 1
            if ctx.mine(idx):
                check_encoder(ctx, bytes(tup), "exh")
    ctx.flag("exhaustive", True)
    ctx.flag("exhaustive_encoder_alphabet_len", L)

    # 1b. every short string again in every byte-string type callers hold
    idx = 0
    for n in range(0, 5):
        for tup in itertools.product((0, 1, 0xFF), repeat=n):
            idx += 1
            if ctx.mine(idx):
                check_coder_argument_types(ctx, bytes(tup))

    # 2. zero runs 0..1100 in four contexts
    for run_len in range(0, 1101):
        if not ctx.mine(run_len):
            continue
        for left in (b"", b"\x01"):
            for right in (b"", b"\xff"):
                s = left + b"\x00" * run_len + right
                check_encoder(ctx, s, "run")
                # the decoder on hand-built canonical and wrap encodings of the same run
                if run_len:
                    wraps, rem = divmod(run_len, 256)
                    if rem:
                        check_decoder(ctx, left + b"\x00" * (wraps + 1) + bytes([rem]) + right, "run-wrap")

    # 3. decoder, exhaustive over {00,01,02,FF}^<=M
    M = ctx.pick(8, 11)
    idx = 0
    for n in range(0, M + 1):
        for tup in itertools.product((0, 1, 2, 0xFF), repeat=n):
            idx += 1
            if ctx.mine(idx):
                check_decoder(ctx, bytes(tup), "exh")
    ctx.flag("exhaustive_decoder_alphabet_len", M)

    # 4. adversarial decoder inputs around the cap (deterministic; split by shard)
    adv = []
    for k in range(40, 60):
        adv.append(b"\x00\xff" * k)
        adv.append(b"\x00" * k)
        adv.append(b"\x00" * k + b"\x01")
        adv.append(b"\x00" * k + b"\xff")
        adv.append(b"\x01" + b"\x00\xff" * k + b"\x00")
        adv.append(b"\x00\xff" * k + b"\x00" * 2)
    for k in (1000, 5000, 0x3000 - 1, 0x3000, 0x3000 + 1, 0x3000 + 2, 0x3000 + 256, 0x3000 + 257, 0x3000 + 258, 20000):
        adv.append(b"\x01" * k)
        adv.append(b"\x01" * k + b"\x00")
        adv.append(b"\x01" * k + b"\x00\xff")
        adv.append(b"\x01" * k + b"\x00\x00")
        adv.append(b"\x01" * k + b"\x00\x00\xff")
    for base in range(0x3000 - 600, 0x3000 + 10, 7):
        adv.append(b"\x02" * base + b"\x00\xff\x00\xff\x00\xff")
        adv.append(b"\x02" * base + b"\x00\x00\x00")
    adv.append(b"\x00\xff" * 100000)
    adv.append(b"\x00" * 100000)
    for i, d in enumerate(adv):
        if ctx.mine(i):
            check_decoder(ctx, d, "adv")
    bombs = [b"\x00" * 60000, b"\x00\xff" * 30000, b"\x01" * 100 + b"\x00" * 9000, b"\x00\xff" * 50 + b"\x00" * 1500,
             b"\x00\xff" * 49 + b"\x07" * 65000, b"\x07" * 65000, b"\x00\xff" * 47, b"\x00" * 48]
    for _ in range(ctx.pick(6, 60)):
        head = bytes(rng.choice([0, 0, 0xff, 1, rng.getrandbits(8)]) for _ in range(rng.randint(0, 300)))
        bombs.append(head + rng.choice([b"\x00", b"\x00\xff", b"\x00\x00\x01"]) * rng.randint(50, 20000))
    for i, d in enumerate(bombs):
        if ctx.mine(i):
            check_decoder_allocation(ctx, d, "bomb")
            check_decoder(ctx, d, "bomb")

    # 5. random strings
    n_rand = ctx.pick(300, 20000)
    for _ in range(n_rand):
        if ctx.out_of_time():
            break
        ln = rng.choice([rng.randint(0, 64), rng.randint(0, 2000), rng.randint(0, CAP)])
        pz = rng.choice([0.05, 0.5, 0.9, 0.99])
        s = bytes(0 if rng.random() < pz else rng.choice([1, 0xff, rng.getrandbits(8) or 1]) for _ in range(ln))
        check_encoder(ctx, s, "rand")
        if rng.random() < 0.5:
            zf = bytes(rng.choice([1, 0xff, rng.getrandbits(8) or 3]) for _ in range(rng.choice([0, 1, 4, rng.randint(0, 300)])))
            check_encoder_buffer_argument(ctx, rng.choice([s, zf, zf, s[:rng.randint(0, 40)]]), rng)
        d = bytes(rng.choice([0, 0, 1, 2, 0xff, rng.getrandbits(8)]) for _ in range(rng.randint(0, 400)))
        check_decoder(ctx, d, "rand")

    # 5b. lengths at the size boundary itself: a string of exactly the cap still round-trips, whatever it is made of
    if ctx.shard == 0:
        for ln in (CAP - 2, CAP - 1, CAP):
            for fill in ("nonzero", "zeros", "alternating", "sparse"):
                if fill == "nonzero":
                    s = bytes([7]) * ln
                elif fill == "zeros":
                    s = bytes(ln)
                elif fill == "alternating":
                    s = (b"\x00\x05" * ln)[:ln]
                else:
                    s = bytes(0 if i % 37 else 9 for i in range(ln))
                ctx.count("enc_at_size_boundary")
                check_encoder(ctx, s, "boundary")

    # 6. header peek
    check_header_peek(ctx, rng)
    threads_phase(ctx, rng)


def replay(ctx, w):
    kind = w.get("kind")
    if kind == "enc":
        check_encoder(ctx, w["input"], "replay")
    elif kind == "argtype":
        check_coder_argument_types(ctx, w["input"])
    elif kind == "encbuf":
        for _ in range(8):
            check_encoder_buffer_argument(ctx, w["input"], ctx.rng)
    elif kind == "decalloc" and w.get("input") is not None:
        check_decoder_allocation(ctx, w["input"], "replay")
    elif kind == "dec" and "input" in w:
        check_decoder(ctx, w["input"], "replay")
    else:
        check_header_peek(ctx, ctx.rng)
