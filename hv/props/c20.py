"""C20 - inventory, animation, mesh and wearable codecs round-trip; chunked transfers reassemble exactly.

Boundary monitors over generated models:
  inventory : model -> legacy text / legacy LLSD / AIS LLSD -> model, node by node and as a whole model, plus a sweep of
              every lookup-name enum member;
  wearables : Wearable -> text -> Wearable;
  animation : both format versions; representable models (one normalising pass) must come back equal and re-encode to the
              same bytes, the unquantised fields must survive the first pass exactly;
  mesh      : segment trees (LODs with quantised arrays and weights, convex physics, skin, havok, unknown and raw
              segments) under the same normalise-then-compare rule;
  transfers : the sender's real chunking feeds the receiver's real packet handler under every bounded arrival sequence
              (permutations with duplicates); completion is judged after every arrival.
"""
import asyncio
import datetime as dt
import itertools
import math
import os
import random
import time

from .. import env

env.import_repo()

import hippolyzer.lib.base.llsd as llsd  # noqa: E402
import hippolyzer.lib.base.serialization as se  # noqa: E402
from hippolyzer.lib.base.datatypes import UUID, Vector3, Vector2, Quaternion, RawBytes  # noqa: E402
from hippolyzer.lib.base.inventory import (  # noqa: E402
    InventoryModel, InventoryItem, InventoryCategory, InventoryObject, InventoryPermissions, InventorySaleInfo)
from hippolyzer.lib.base.message.message import Message, Block  # noqa: E402
from hippolyzer.lib.base.message.udpserializer import UDPMessageSerializer  # noqa: E402
from hippolyzer.lib.base.message.udpdeserializer import UDPMessageDeserializer  # noqa: E402
from hippolyzer.lib.base.multidict import OrderedMultiDict  # noqa: E402
from hippolyzer.lib.base.templates import (  # noqa: E402
    AssetType, InventoryType, FolderType, SaleType, WearableType, XferPacket, TransferStatus, TransferChannelType)
from hippolyzer.lib.base import llanim, mesh as meshmod, wearables  # noqa: E402
from hippolyzer.lib.base import xfer_manager as xm, transfer_manager as tm  # noqa: E402

from .. import gen_spec  # noqa: E402
from ..gen_msg import f32  # noqa: E402

LEVEL = "exploration"
SHARDS = {"quick": 9, "thorough": 18}
TIMEOUT_S = {"quick": 900, "thorough": 3600}
BUDGET_S = {"quick": 120, "thorough": 1500}
TZS = ["UTC", "America/Los_Angeles", "Asia/Kolkata"]
RULE = ("inventory: random item/category/object nodes (every AssetType/InventoryType/FolderType/SaleType member, each optional "
        "field absent/present, LLSD metadata trees) x {legacy text, legacy LLSD (in memory and through the XML/binary/notation "
        "codecs), AIS LLSD}, node level and model level; enum sweep of every member; wearables; animations of both versions "
        "(0..4 joints, 0..5 keyframes, 0..2 constraints); mesh assets (0..4 LODs x 1..3 materials, optional weights, convex, skin, "
        "havok, unknown and raw segments); transfers: payload sizes within +-5 of every chunk boundary up to 4 chunks x every "
        "arrival sequence of length <= chunks+2 (quick: <= chunks+1), for Xfer (prefixed and raw) and Transfer; shards are split "
        "over 3 process time zones. distinct_nontrivial = distinct (codec, shape) classes + (size, arrival sequence) pairs"
        ". Round-5 additions: the Xfer receiver in both acknowledgement modes (per packet, turbo); fixed-width strings with NULs before the last character"
        ". Rounds 6-7: sub-second dates in metadata (compared as instants); a parsed model is edited in place and the same text parsed again; the Xfer receive pump driven in shifted time (steady chunks with gaps up to 4.9 s over up to 22 s complete, a 6 s silence fails)"
        ". Round 8: the library's sender (confirmations awaited and not) against the library's receiver (per packet, turbo) for 10 sizes up to 12 chunks, judged in loop iterations"
        ". Round 10: a raw mesh segment that inflates to more than a megabyte")
ASSUMPTIONS = [
    "names and descriptions are text without '|', tab, CR, LF and without leading/trailing blanks (the line format cannot carry "
    "them; the viewer itself replaces '|'); strings inside embedded metadata avoid '|', tab, CR, LF for the text flavour only",
    "dates are whole seconds between 1970 and 2037; permission masks and flags are 32-bit unsigned, restricted to 31 bits when "
    "the LLSD form is additionally pushed through an LLSD wire codec (LLSD integers are signed 32-bit)",
    "AIS flavour: categories have asset type CATEGORY and link items carry the default link permissions/sale info, since AIS "
    "does not transmit those",
    "quantised values (animation v1.0 keyframes, packed quaternions, mesh positions/normals/UVs/weights) are compared after one "
    "normalising pass: the model that was parsed once must come back equal and re-encode to identical bytes; fields that are "
    "not quantised must already be equal after the first pass",
    "an animation with key frames has a positive duration",
    "completion of a transfer is judged after each arrival: done() iff every chunk id from 0 to the end-marked one has arrived",
]
MUST_REACH = {"inventory_nodes": 600, "text_roundtrips": 200, "legacy_llsd_roundtrips": 200, "ais_roundtrips": 200,
              "llsd_wire_roundtrips": 150, "model_roundtrips": 60, "ais_model_roundtrips": 40, "enum_members_swept": 100, "optional_absent": 300,
              "metadata_present": 100, "wearables": 40, "animations": 80, "anim_versions_covered": 2, "meshes": 40,
              "mesh_segments_covered": 6, "mesh_segments_over_a_megabyte_inflated": 1, "meshes_edited_after_raw_parse": 15, "xfer_sequences": 3000, "xfer_sequences_turbo": 1000, "paced_transfers": 4, "paired_transfers_completed_turbo_multichunk": 4, "parsed_models_edited_then_parsed_again": 30, "paced_transfers_completed": 3, "out_of_order_completions_turbo": 100, "transfer_sequences": 1500, "out_of_order_completions": 500,
              "duplicate_arrivals": 500, "boundary_sizes_covered": 20, "tz_covered": 3}

TEXT_POOL = ["", "a", "New Script", "Object", "hello world", "é中\U0001f600", "quote\"s 'single'", "back\\slash", "{", "}", "a = b",
             "name with  two spaces", "#hash", "<llsd>", "0", "-1", "x" * 63, "permissions 0", "inv_item\t0".replace("\t", " ")]


def rand_uuid(rng):
    r = rng.random()
    if r < 0.15:
        return UUID.ZERO if hasattr(UUID, "ZERO") else UUID(int=0)
    return UUID(int=rng.getrandbits(128))


def rand_name(rng):
    if rng.random() < 0.6:
        return rng.choice(TEXT_POOL)
    n = rng.randint(1, 20)
    alphabet = "abcXYZ 09_-.,:;!?()[]{}<>/\\'\"@#$%^&*+=~`éß中"
    s = "".join(rng.choice(alphabet) for _ in range(n)).strip()
    return s


def rand_date(rng):
    return dt.datetime(1970, 1, 1) + dt.timedelta(seconds=rng.choice([0, 1, 86399, 1587367239, rng.randrange(0, 2 ** 31 - 1)]))


def rand_llsd(rng, depth, text_safe):
    r = rng.random()
    if depth <= 0 or r < 0.5:
        k = rng.randrange(8)
        if k == 7:
            # a date with a sub-second part that every LLSD flavour can carry exactly (binary fractions of a second)
            return rand_date(rng) + dt.timedelta(microseconds=rng.choice([0, 500000, 250000, 125000, 875000]))
        if k == 0:
            return rng.randrange(-2 ** 31, 2 ** 31)
        if k == 1:
            return rng.choice([0.0, 1.5, -2.25, 1e10, f32(rng.uniform(-100, 100))])
        if k == 2:
            s = rand_name(rng)
            return s if text_safe else s + rng.choice(["", "|", "\n", "\tx"])
        if k == 3:
            return rand_uuid(rng)
        if k == 4:
            return rng.choice([True, False])
        if k == 5:
            return bytes(rng.getrandbits(8) for _ in range(rng.randint(0, 8)))
        return rand_name(rng)
    if r < 0.75:
        return {rng.choice(["experience", "thumbnail", "asset_id", "k" + str(i), "a b"]): rand_llsd(rng, depth - 1, text_safe)
                for i in range(rng.randint(0, 3))}
    return [rand_llsd(rng, depth - 1, text_safe) for _ in range(rng.randint(0, 3))]


def rand_metadata(rng, text_safe=True):
    if rng.random() < 0.45:
        return None
    d = rand_llsd(rng, 2, text_safe)
    if not isinstance(d, dict) or not d:
        d = {"experience": rand_uuid(rng)}
    return d


def rand_perms(rng, mask_bits=32):
    m = lambda: rng.choice([0, 0x7FFFFFFF, 0x0008e000, rng.getrandbits(mask_bits), (1 << mask_bits) - 1])  # noqa: E731
    return InventoryPermissions(base_mask=m(), owner_mask=m(), group_mask=m(), everyone_mask=m(), next_owner_mask=m(),
                                creator_id=rand_uuid(rng), owner_id=rand_uuid(rng), last_owner_id=rand_uuid(rng), group_id=rand_uuid(rng))


def rand_item(rng, parent, mask_bits=32, text_safe=True):
    opt = lambda v: None if rng.random() < 0.25 else v  # noqa: E731
    type_ = rng.choice(list(AssetType))
    item = InventoryItem(
        item_id=UUID(int=rng.getrandbits(128) | 1), parent_id=parent, permissions=rand_perms(rng, mask_bits),
        asset_id=opt(rand_uuid(rng)), shadow_id=opt(rand_uuid(rng)), type=opt(type_), inv_type=opt(rng.choice(list(InventoryType))),
        flags=opt(rng.choice([0, 1, 0x7FFFFFFF, rng.getrandbits(mask_bits), (1 << mask_bits) - 1])),
        sale_info=opt(InventorySaleInfo(sale_type=rng.choice(list(SaleType)), sale_price=rng.choice([0, 10, 2 ** 31 - 1, rng.randrange(0, 10000)]))),
        name=opt(rand_name(rng)), desc=opt(rand_name(rng)), metadata=rand_metadata(rng, text_safe), creation_date=opt(rand_date(rng)))
    return item


def rand_category(rng, parent, ais=False):
    return InventoryCategory(
        cat_id=UUID(int=rng.getrandbits(128) | 1), parent_id=parent, type=AssetType.CATEGORY if ais or rng.random() < 0.7 else rng.choice(list(AssetType)),
        pref_type=rng.choice([f for f in FolderType if not f.name.startswith("ENSEMBLE_")]), name=rand_name(rng), owner_id=None if rng.random() < 0.3 else rand_uuid(rng),
        version=rng.choice([InventoryCategory.VERSION_NONE, 1, 77]), metadata=rand_metadata(rng))


def rand_object(rng, parent):
    return InventoryObject(obj_id=UUID(int=rng.getrandbits(128) | 1), parent_id=parent, type=rng.choice([AssetType.CATEGORY] * 3 + list(AssetType)),
                           name=rand_name(rng), metadata=rand_metadata(rng))


def node_fields(node):
    import dataclasses
    out = {}
    for f in dataclasses.fields(node):
        if f.name == "model":
            continue
        v = getattr(node, f.name)
        if dataclasses.is_dataclass(v):
            v = node_fields(v)
        out[f.name] = v
    return out


def first_diff(a, b):
    fa, fb = node_fields(a), node_fields(b)
    for k in fa:
        if gen_spec.canon(fa[k]) != gen_spec.canon(fb.get(k)) or type(fa[k]) is not type(fb.get(k)):
            return k, fa[k], fb.get(k)
    return None


def _naive_dates(v):
    """LLSD dates are instants: the binary parser hands them back timezone-aware (UTC), the other parsers naive (UTC by
    convention).  Compared as instants."""
    if isinstance(v, dt.datetime) and v.tzinfo is not None:
        return v.astimezone(dt.timezone.utc).replace(tzinfo=None)
    if isinstance(v, dict):
        return {k: _naive_dates(x) for k, x in v.items()}
    if isinstance(v, list):
        return [_naive_dates(x) for x in v]
    return v


def _norm_model(model):
    for node in model.nodes.values():
        if getattr(node, "metadata", None):
            node.metadata = _naive_dates(node.metadata)
    return model


def same_node(ctx, a, b, codec, wit):
    if b is not None and getattr(b, "metadata", None):
        b.metadata = _naive_dates(b.metadata)
    if b is None:
        ctx.violation(f"inventory-{codec}:node-lost", "a node did not come back from its own serialisation", wit)
        return
    if type(a) is not type(b):
        ctx.violation(f"inventory-{codec}:node-class-changed", "a node came back as another class", dict(wit, got=type(b).__name__))
        return
    d = first_diff(a, b)
    if d or a != b:
        field = d[0] if d else "__eq__"
        ctx.violation(f"inventory-{codec}:field-changed:{field}", "a field changed across serialise-then-parse",
                      dict(wit, field=field, before=repr(d[1])[:200] if d else "", after=repr(d[2])[:200] if d else ""))


def text_view(node):
    """The node as the legacy text schema can express it: fields declared LLSD-only take their defaults."""
    import copy
    import dataclasses
    c = copy.copy(node)
    c.model = None
    for f in dataclasses.fields(c):
        if f.metadata.get("llsd_only"):
            setattr(c, f.name, f.default)
    return c


def count_optionals(ctx, node):
    for k, v in node_fields(node).items():
        if v is None:
            ctx.count("optional_absent")
    if getattr(node, "metadata", None) is not None:
        ctx.count("metadata_present")


def inventory(ctx, n_models):
    rng = ctx.rng
    for mi in range(n_models):
        if ctx.out_of_time():
            ctx.inconclusive_because("work budget exhausted in inventory")
            return
        wire_safe = rng.random() < 0.5
        bits = 31 if wire_safe else 32
        model = InventoryModel()
        root = rand_object(rng, UUID.ZERO if hasattr(UUID, "ZERO") else UUID(int=0)) if rng.random() < 0.5 else \
            rand_category(rng, UUID(int=0))
        model.add(root)
        nodes = [root]
        for _ in range(rng.randint(0, 6)):
            parent = rng.choice([n for n in nodes if not isinstance(n, InventoryItem)]).node_id
            k = rng.random()
            node = rand_item(rng, parent, bits) if k < 0.6 else (rand_category(rng, parent) if k < 0.85 else rand_object(rng, parent))
            model.add(node)
            nodes.append(node)
        for n in nodes:
            ctx.count("inventory_nodes")
            count_optionals(ctx, n)
            ctx.cover("asset_types", n.type.name if getattr(n, "type", None) is not None else "None")
            if isinstance(n, InventoryItem) and n.inv_type is not None:
                ctx.cover("inv_types", n.inv_type.name)
        shape_key = tuple(sorted((type(n).__name__, tuple(k for k, v in node_fields(n).items() if v is None)) for n in nodes))
        pristine = [gen_spec.canon(node_fields(n)) for n in nodes]          # serialising must not change the model itself
        # ---- legacy text, model level
        wit = {"model": repr([node_fields(n) for n in nodes])[:1500]}
        try:
            text = model.to_str()
            if model.to_str() != text or repr(model.to_llsd()) != repr(model.to_llsd()):
                ctx.violation("inventory:serialisation-not-repeatable", "serialising the same model twice gave different output", wit)
            back = InventoryModel.from_str(text)
        except Exception as e:
            ctx.violation("inventory-text:raises:" + type(e).__name__, "legacy text round trip raised", dict(wit, exc=repr(e)[:300]))
            back = None
        if back is not None:
            # (the objects the parser handed out, before anything here replaces them for comparison)
            parsed_metadata = [n.metadata for n in back.nodes.values() if isinstance(getattr(n, "metadata", None), dict)]
            ctx.count("text_roundtrips", len(nodes))
            ctx.count("model_roundtrips")
            ctx.ev()
            for n in nodes:
                same_node(ctx, text_view(n), back.nodes.get(n.node_id), "text", dict(wit, node=str(n.node_id), text=text[:1200]))
            tmodel = InventoryModel()
            for n in nodes:
                tmodel.add(text_view(n))
            if len(back.nodes) != len(nodes) or _norm_model(back) != tmodel:
                ctx.violation("inventory-text:model-differs", "the re-parsed model is not equal to the model", dict(wit, text=text[:1200]))
            else:
                # a parsed model is the caller's to edit: what was changed in one parse result must not show up in the next
                # parse of the same text
                touched = 0
                for md in parsed_metadata:
                    for v in list(md.values()):
                        if isinstance(v, dict):
                            v["hv-edited"] = 1
                        elif isinstance(v, list):
                            v.append("hv-edited")
                    md["hv-edited"] = "after parsing"
                    touched += 1
                if touched:
                    ctx.count("parsed_models_edited_then_parsed_again")
                    try:
                        back2 = InventoryModel.from_str(text)
                        if len(back2.nodes) != len(nodes) or _norm_model(back2) != tmodel:
                            ctx.violation("inventory-text:parse-depends-on-earlier-result", "parsing the same text again after the "
                                          "first result was edited gives a model that differs from the original", dict(wit, text=text[:1200]))
                    except Exception as e:
                        ctx.violation("inventory-text:raises:" + type(e).__name__, "parsing the same text a second time raised",
                                      dict(wit, exc=repr(e)[:300]))
            if [n.node_id for n in back.ordered_nodes] != [n.node_id for n in model.ordered_nodes]:
                ctx.violation("inventory-text:order-differs", "node order changed", wit)
        # ---- legacy LLSD, model level, in memory and through the LLSD codecs
        codecs = [("mem", lambda x: x)]
        if wire_safe:
            codecs += [("xml", lambda x: llsd.parse_xml(llsd.format_xml(x))), ("binary", lambda x: llsd.parse_binary(llsd.format_binary(x))),
                       ("notation", lambda x: llsd.parse_notation(llsd.format_notation(x)))]
        for cname, codec in codecs:
            try:
                payload = codec(model.to_llsd())
                back = InventoryModel.from_llsd(payload)
            except Exception as e:
                ctx.violation(f"inventory-llsd-{cname}:raises:" + type(e).__name__, "legacy LLSD round trip raised", dict(wit, exc=repr(e)[:300]))
                continue
            ctx.count("legacy_llsd_roundtrips", len(nodes))
            if cname != "mem":
                ctx.count("llsd_wire_roundtrips")
            ctx.count("model_roundtrips")
            ctx.ev()
            for n in nodes:
                same_node(ctx, n, back.nodes.get(n.node_id), "llsd-" + cname, dict(wit, node=str(n.node_id)))
            if len(back.nodes) != len(nodes) or _norm_model(back) != model:
                ctx.violation(f"inventory-llsd-{cname}:model-differs", "the re-parsed model is not equal to the model", wit)
        if [gen_spec.canon(node_fields(n)) for n in nodes] != pristine:
            ctx.violation("inventory:serialising-mutates-model", "serialising an inventory model changed the model itself",
                          {"model": repr(pristine)[:800]})
        ctx.count("models_checked_unchanged")
        # ---- AIS LLSD, node level (how the client uses it) and as a whole model
        amodel = InventoryModel()
        aroot = rand_category(rng, UUID(int=0), ais=True)
        amodel.add(aroot)
        anodes = [aroot]
        for _ in range(3):
            k = rng.random()
            parent = rng.choice([n for n in anodes if isinstance(n, InventoryCategory)]).node_id
            if k < 0.6:
                node = rand_item(rng, parent, bits)
                if node.type is None or node.inv_type is None:
                    node.type, node.inv_type = rng.choice(list(AssetType)), rng.choice(list(InventoryType))
                if node.type == AssetType.LINK:
                    node.permissions = InventoryPermissions(base_mask=0xFFffFFff, owner_mask=0xFFffFFff, group_mask=0xFFffFFff, everyone_mask=0,
                                                            next_owner_mask=0xFFffFFff, creator_id=UUID(int=0), owner_id=UUID(int=0),
                                                            last_owner_id=UUID(int=0), group_id=UUID(int=0))
                    node.sale_info = InventorySaleInfo(sale_type=SaleType.NOT, sale_price=0)
                    if node.asset_id is None:
                        node.asset_id = rand_uuid(rng)
                if node.sale_info is None:
                    node.sale_info = InventorySaleInfo(sale_type=SaleType.NOT, sale_price=0)
            else:
                node = rand_category(rng, parent, ais=True)
            wit = {"node": repr(node_fields(node))[:900]}
            for cname, codec in codecs:
                try:
                    payload = codec(node.to_llsd("ais"))
                    back = type(node).from_llsd(payload, flavor="ais")
                except Exception as e:
                    ctx.violation(f"inventory-ais-{cname}:raises:" + type(e).__name__, "AIS LLSD round trip raised", dict(wit, exc=repr(e)[:300]))
                    continue
                ctx.count("ais_roundtrips")
                ctx.ev()
                same_node(ctx, node, back, "ais-" + cname, wit)
            ctx.nontrivial(("ais", type(node).__name__, getattr(node, "type", None)))
            amodel.add(node)
            anodes.append(node)
        wit = {"model": repr([node_fields(n) for n in anodes])[:1500]}
        for cname, codec in codecs:
            try:
                back = InventoryModel.from_llsd(codec(amodel.to_llsd("ais")), "ais")
            except Exception as e:
                ctx.violation(f"inventory-ais-model-{cname}:raises:" + type(e).__name__, "AIS LLSD model round trip raised", dict(wit, exc=repr(e)[:300]))
                continue
            ctx.count("model_roundtrips")
            ctx.count("ais_model_roundtrips")
            ctx.ev()
            for n in anodes:
                same_node(ctx, n, back.nodes.get(n.node_id), "ais-model-" + cname, dict(wit, node=str(n.node_id)))
            if len(back.nodes) != len(anodes) or _norm_model(back) != amodel:
                ctx.violation(f"inventory-ais-model-{cname}:model-differs", "the re-parsed model is not equal to the model", wit)
        ctx.nontrivial(("inv", shape_key))
        if len(ctx.samples) < 2:
            ctx.sample({"inventory_text": model.to_str()[:800]})


def enum_sweep(ctx):
    for cls in (AssetType, InventoryType, FolderType, SaleType):
        seen = {}
        for m in cls:
            ctx.count("enum_members_swept")
            ctx.ev()
            try:
                name = m.to_lookup_name()
                back = cls.from_lookup_name(name)
            except Exception as e:
                ctx.violation("enum-lookup-raises:" + cls.__name__, "a lookup name could not be produced or parsed",
                              {"enum": cls.__name__, "member": m.name, "exc": repr(e)[:200]})
                continue
            if back is not m:
                ctx.violation(f"enum-lookup-roundtrip:{cls.__name__}.{m.name}", "an enum member does not survive its lookup name",
                              {"enum": cls.__name__, "member": m.name, "lookup": name, "back": getattr(back, "name", repr(back))})
            if name in seen and seen[name] is not m:
                ctx.violation(f"enum-lookup-collision:{cls.__name__}.{name}", "two members share one lookup name",
                              {"enum": cls.__name__, "a": seen[name].name, "b": m.name, "lookup": name})
            seen[name] = m
            ctx.nontrivial(("enum", cls.__name__, m.name))


def wearable_checks(ctx, n):
    rng = ctx.rng
    for i in range(n):
        w = wearables.Wearable(
            name=rand_name(rng).strip() or "x", wearable_type=rng.choice(list(WearableType)), permissions=rand_perms(rng),
            sale_info=InventorySaleInfo(sale_type=rng.choice(list(SaleType)), sale_price=rng.randrange(0, 1000)),
            parameters={rng.randrange(0, 2000): rng.choice([0.0, 1.0, -0.5, 0.33, f32(rng.uniform(-1, 1)), 1e-07]) for _ in range(rng.randint(0, 8))},
            textures={rng.randrange(0, 40): rand_uuid(rng) for _ in range(rng.randint(0, 5))})
        try:
            back = wearables.Wearable.from_str(w.to_str())
        except Exception as e:
            ctx.violation("wearable:raises:" + type(e).__name__, "wearable round trip raised", {"wearable": repr(w)[:600], "exc": repr(e)[:200]})
            continue
        ctx.count("wearables")
        ctx.ev()
        if back != w:
            import dataclasses
            diff = [f.name for f in dataclasses.fields(w) if getattr(w, f.name) != getattr(back, f.name)]
            ctx.violation("wearable:field-changed:" + (diff[0] if diff else "?"), "a wearable field changed across serialise-then-parse",
                          {"wearable": repr(w)[:600], "fields": diff, "after": repr(back)[:600]})
        ctx.nontrivial(("wearable", w.wearable_type.name, len(w.parameters), len(w.textures)))


# ------------------------------------------------------------------ animations

def rand_unit_quat(rng):
    v = [rng.uniform(-1, 1) for _ in range(4)]
    n = math.sqrt(sum(x * x for x in v)) or 1.0
    return Quaternion(*(x / n for x in v))


def rand_anim(rng):
    version = rng.choice([(0, 1), (1, 0)])
    duration = f32(rng.choice([1.0, 0.5, 10.0, rng.uniform(0.1, 60.0)]))
    joints = OrderedMultiDict()
    for _ in range(rng.randint(0, 4)):
        name = rng.choice(["mPelvis", "mTorso", "mHead", "mWristLeft", "é", ""])
        rots = [llanim.RotKeyframe(time=f32(rng.uniform(0, duration)), rot=rand_unit_quat(rng)) for _ in range(rng.randint(0, 5))]
        poss = [llanim.PosKeyframe(time=f32(rng.uniform(0, duration)),
                                   pos=Vector3(*(f32(rng.uniform(-4.9, 4.9)) for _ in range(3)))) for _ in range(rng.randint(0, 5))]
        joints.add(name, llanim.Joint(priority=rng.randrange(-1, 7), rot_keyframes=rots, pos_keyframes=poss))
    constraints = [llanim.Constraint(
        chain_length=rng.randrange(0, 256), type=rng.choice(list(llanim.ConstraintType)), source_volume=rng.choice(["", "L_HAND", "x" * 15, "mHead\x00L", "\x00lead", "\u00e9\u00e9"]),
        source_offset=Vector3(*(f32(rng.uniform(-1, 1)) for _ in range(3))), target_volume=rng.choice(["GROUND", "", "R_FOOT"]),
        target_offset=Vector3(*(f32(rng.uniform(-1, 1)) for _ in range(3))), target_dir=Vector3(*(f32(rng.uniform(-1, 1)) for _ in range(3))),
        ease_in_start=f32(rng.random()), ease_in_stop=f32(rng.random()), ease_out_start=f32(rng.random()), ease_out_stop=f32(rng.random()))
        for _ in range(rng.randint(0, 2))]
    return llanim.Animation(
        major_version=version[0], minor_version=version[1], base_priority=rng.randrange(-1, 7), duration=duration,
        emote_name=rng.choice(["", "express_smile", "é中"]), loop_in_point=f32(rng.uniform(0, duration)), loop_out_point=f32(rng.uniform(0, duration)),
        loop=rng.choice([0, 1]), ease_in_duration=f32(rng.random()), ease_out_duration=f32(rng.random()), hand_pose=rng.choice(list(llanim.HandPose)),
        joints=joints, constraints=constraints)


def anim_plain(a, with_quantised):
    """Comparable tree; quantised members are dropped when with_quantised is False."""
    joints = []
    for name, j in a.joints.items(multi=True):
        rk = [(gen_spec.canon(k.time), gen_spec.canon(k.rot)) for k in j.rot_keyframes] if with_quantised else len(j.rot_keyframes)
        if with_quantised:
            pk = [(gen_spec.canon(k.time), gen_spec.canon(k.pos)) for k in j.pos_keyframes]
        elif (a.major_version, a.minor_version) == (0, 1):
            pk = [(gen_spec.canon(k.time), gen_spec.canon(k.pos)) for k in j.pos_keyframes]      # plain floats in the old version
        else:
            pk = len(j.pos_keyframes)
        joints.append((name, j.priority, rk, pk))
    cons = [gen_spec.canon([c.chain_length, int(c.type), c.source_volume, c.source_offset, c.target_volume, c.target_offset, c.target_dir,
                            c.ease_in_start, c.ease_in_stop, c.ease_out_start, c.ease_out_stop]) for c in a.constraints]
    return [a.major_version, a.minor_version, a.base_priority, a.duration, a.emote_name, a.loop_in_point, a.loop_out_point, a.loop,
            a.ease_in_duration, a.ease_out_duration, int(a.hand_pose), joints, cons]


def animations(ctx, n):
    rng = ctx.rng
    for i in range(n):
        a0 = rand_anim(rng)
        wit = {"animation": repr(a0)[:1500]}
        try:
            b0 = a0.to_bytes()
            a1 = llanim.Animation.from_bytes(b0)
            b1 = a1.to_bytes()
            a2 = llanim.Animation.from_bytes(b1)
            b2 = a2.to_bytes()
        except Exception as e:
            ctx.violation("animation:raises:" + type(e).__name__, "animation round trip raised", dict(wit, exc=repr(e)[:300]))
            continue
        ctx.count("animations")
        ctx.cover("anim_versions", (a0.major_version, a0.minor_version))
        ctx.ev()
        if anim_plain(a0, False) != anim_plain(a1, False):
            p0, p1 = anim_plain(a0, False), anim_plain(a1, False)
            idx = next(k for k in range(len(p0)) if p0[k] != p1[k])
            ctx.violation("animation:unquantised-field-changed", "an unquantised animation field changed across serialise-then-parse",
                          dict(wit, index=idx, before=repr(p0[idx])[:300], after=repr(p1[idx])[:300]))
        if anim_plain(a1, True) != anim_plain(a2, True) or a1 != a2:
            ctx.violation("animation:representable-model-changed", "a parsed animation does not come back equal from its own serialisation", wit)
        if b1 != b2:
            ctx.violation("animation:bytes-not-stable", "re-encoding a parsed animation gives different bytes", wit)
        # quantised members stay within one quantisation step of what was asked for
        for (n0, j0), (n1, j1) in zip(a0.joints.items(multi=True), a1.joints.items(multi=True)):
            for k0, k1 in zip(j0.pos_keyframes, j1.pos_keyframes):
                if any(abs(x - y) > 10.0 / 65535 + 1e-6 for x, y in zip(k0.pos, k1.pos)) or abs(k0.time - k1.time) > a0.duration / 65535 + 1e-6:
                    ctx.violation("animation:quantised-value-off", "a key frame moved by more than one quantisation step",
                                  dict(wit, before=repr(k0), after=repr(k1)))
            for k0, k1 in zip(j0.rot_keyframes, j1.rot_keyframes):
                q0, q1 = tuple(k0.rot), tuple(k1.rot)
                if q0[3] < 0:
                    q0 = tuple(-x for x in q0)
                # W is rebuilt from the vector part, so only the vector part is bounded by the step (error in W grows as W -> 0)
                if any(abs(x - y) > 2.0 / 65535 + 1e-6 for x, y in zip(q0[:3], q1[:3])) or q1[3] < 0:
                    ctx.violation("animation:quantised-value-off", "a rotation key frame moved by more than the packing error",
                                  dict(wit, before=repr(k0), after=repr(k1)))
        ctx.nontrivial(("anim", a0.major_version, len(a0.joints), len(a0.constraints), sum(len(j.rot_keyframes) for _, j in a0.joints.items(multi=True))))
        if len(ctx.samples) < 3:
            ctx.sample({"animation_bytes": len(b0), "version": [a0.major_version, a0.minor_version], "joints": len(a0.joints)})


# ------------------------------------------------------------------ mesh

def rand_lod_material(rng, rigged):
    if rng.random() < 0.1:
        return {"NoGeometry": True}
    nverts = rng.randint(1, 6)
    mat = {
        "Position": [Vector3(*(rng.random() for _ in range(3))) for _ in range(nverts)],
        "PositionDomain": {"Max": [0.5, 0.5, rng.random()], "Min": [-0.5, -0.5, 0.0]},
        "Normal": [Vector3(*(rng.uniform(-1, 1) for _ in range(3))) for _ in range(nverts)],
        "TriangleList": [[rng.randrange(nverts) for _ in range(3)] for _ in range(rng.randint(1, 4))],
    }
    if rng.random() < 0.8:
        mat["TexCoord0"] = [Vector2(rng.random(), rng.random()) for _ in range(nverts)]
        mat["TexCoord0Domain"] = {"Max": [1.0, 1.0], "Min": [0.0, 0.0]}
    if rigged:
        mat["Weights"] = [[meshmod.VertexWeight(rng.randrange(0, 4), rng.random()) for _ in range(rng.randint(0, 4))] for _ in range(nverts)]
    return mat


def rand_mesh(rng):
    m = meshmod.MeshAsset()
    m.header = {"version": 1}
    if rng.random() < 0.5:
        m.header["creator"] = rand_uuid(rng)
    if rng.random() < 0.3:
        m.header["physics_cost_data"] = {"hull": 1.5, "mesh_triangles": 12}
    rigged = rng.random() < 0.5
    for lod in rng.sample(["lowest_lod", "low_lod", "medium_lod", "high_lod", "physics_mesh"], rng.randint(0, 5)):
        m.header[lod] = {"offset": 0, "size": 0}
        m.segments[lod] = [rand_lod_material(rng, rigged and lod != "physics_mesh") for _ in range(rng.randint(1, 3))]
    if rng.random() < 0.6:
        m.header["physics_convex"] = {"offset": 0, "size": 0}
        seg = {"Max": [0.5, 0.5, 0.5], "Min": [-0.5, -0.5, -0.5],
               "BoundingVerts": [Vector3(*(rng.uniform(-1, 1) for _ in range(3))) for _ in range(rng.randint(1, 5))]}
        if rng.random() < 0.5:
            hulls = [rng.randint(1, 4) for _ in range(rng.randint(1, 3))]
            seg["HullList"] = hulls
            seg["Positions"] = [Vector3(*(rng.uniform(-1, 1) for _ in range(3))) for _ in range(sum(hulls))]
        m.segments["physics_convex"] = seg
    if rigged:
        m.header["skin"] = {"offset": 0, "size": 0}
        m.segments["skin"] = {"joint_names": ["mPelvis", "mTorso"][:rng.randint(1, 2)], "bind_shape_matrix": [float(i) for i in range(16)],
                              "inverse_bind_matrix": [[float(i) * 0.5 for i in range(16)]], "pelvis_offset": 0.25}
    if rng.random() < 0.3:
        m.header["physics_havok"] = {"offset": 0, "size": 0, "version": 1}
        m.segments["physics_havok"] = {"WeldingData": bytes(rng.getrandbits(8) for _ in range(8)), "MOPP": {"BuildType": 1, "MoppData": b"\x01\x02",
                                                                                                     "MoppInfo": [0.5, 1.0, 2.0, 3.0]}}
    if rng.random() < 0.25:
        m.header["hv_unknown"] = {"offset": 0, "size": 0}
        m.segments["hv_unknown"] = {"anything": [1, 2.5, "three"]}
    if rng.random() < 0.25:
        m.header["hv_raw"] = {"offset": 0, "size": 0}
        m.raw_segments["hv_raw"] = llsd.zip_llsd({"raw": True, "n": rng.randrange(100)})
    return m


def mesh_plain(m, quantised):
    def lod(mat):
        out = {}
        for k, v in mat.items():
            if k in ("Position", "Normal", "TexCoord0", "Weights") and not quantised:
                out[k] = len(v)
            elif k == "Weights":
                out[k] = [[(int(w[0]), float(w[1])) for w in vert] for vert in v]
            else:
                out[k] = gen_spec.canon(v)
        return out
    segs = {}
    for name, seg in m.segments.items():
        if isinstance(seg, list):
            segs[name] = [lod(x) for x in seg]
        elif name == "physics_convex":
            segs[name] = {k: (len(v) if k in ("BoundingVerts", "Positions") and not quantised else gen_spec.canon(v)) for k, v in seg.items()}
        else:
            segs[name] = gen_spec.canon(seg)
    header = {k: ({kk: vv for kk, vv in v.items() if kk not in ("offset", "size")} if isinstance(v, dict) else gen_spec.canon(v))
              for k, v in m.header.items()}
    return gen_spec.canon([header, segs])


def meshes(ctx, n):
    rng = ctx.rng
    ser = meshmod.LLMeshSerializer()
    for i in range(n):
        m0 = rand_mesh(rng)
        if i == 1:
            # a segment that is large once inflated (a dense mesh: well over a megabyte of vertex data), compressing to little
            import zlib as _zlib
            big = {"Position": bytes(rng.getrandbits(8) for _ in range(4096)) * 330, "n": i}
            m0.raw_segments["hv_big"] = llsd.zip_llsd(big)
            m0.header["hv_big"] = {"offset": 0, "size": 0}
            ctx.count("mesh_segments_over_a_megabyte_inflated")
        wit = {"header": repr(m0.header)[:400], "segments": repr({k: (len(v) if isinstance(v, list) else sorted(v)) for k, v in m0.segments.items()})[:400]}

        def enc(m):
            w = se.BufferWriter("!")
            w.write(ser, m)
            return w.copy_buffer()

        def dec(b):
            return se.BufferReader("!", b).read(ser)
        try:
            b0 = enc(m0)
            m1 = dec(b0)
            b1 = enc(m1)
            m2 = dec(b1)
            b2 = enc(m2)
        except Exception as e:
            ctx.violation("mesh:raises:" + type(e).__name__, "mesh round trip raised", dict(wit, exc=repr(e)[:300]))
            continue
        ctx.count("meshes")
        ctx.ev()
        for k in m0.segments:
            ctx.cover("mesh_segments", k if k.endswith("_lod") else k)
        expect_segments = set(m0.segments) | set(m0.raw_segments)
        if set(m1.segments) != expect_segments:
            ctx.violation("mesh:segments-lost-or-added", "the set of mesh segments changed", dict(wit, got=sorted(m1.segments)))
            continue
        p0, p1 = mesh_plain(m0, False), mesh_plain(m1, False)
        if "hv_raw" in m0.raw_segments:
            p0[1]["hv_raw"] = gen_spec.canon(llsd.unzip_llsd(m0.raw_segments["hv_raw"]))
        if "hv_big" in m0.raw_segments:
            import zlib as _zlib
            p0[1]["hv_big"] = gen_spec.canon(llsd.parse_binary(_zlib.decompress(m0.raw_segments["hv_big"])))
        if p0 != p1:
            ctx.violation("mesh:unquantised-content-changed", "unquantised mesh content changed across serialise-then-parse",
                          dict(wit, before=repr(p0)[:500], after=repr(p1)[:500]))
        if mesh_plain(m1, True) != mesh_plain(m2, True):
            ctx.violation("mesh:representable-model-changed", "a parsed mesh does not come back equal from its own serialisation", wit)
        if b1 != b2:
            ctx.violation("mesh:bytes-not-stable", "re-encoding a parsed mesh gives different bytes", wit)
        # quantised content within a step
        for name, seg in m0.segments.items():
            if isinstance(seg, list):
                for mat0, mat1 in zip(seg, m1.segments[name]):
                    for key, span in (("Position", 1.0), ("TexCoord0", 1.0), ("Normal", 2.0)):
                        for v0, v1 in zip(mat0.get(key, []), mat1.get(key, [])):
                            if any(abs(x - y) > span / 65535 + 1e-9 for x, y in zip(v0, v1)):
                                ctx.violation("mesh:quantised-value-off", "a quantised mesh value moved by more than one step",
                                              dict(wit, key=key, before=repr(v0), after=repr(v1)))
                    for w0, w1 in zip(mat0.get("Weights", []), mat1.get("Weights", [])):
                        if [int(a[0]) for a in w0] != [int(a[0]) for a in w1] or any(abs(a[1] - b[1]) > 1 / 65535 for a, b in zip(w0, w1)):
                            ctx.violation("mesh:weights-changed", "vertex weights changed", dict(wit, before=repr(w0), after=repr(w1)))
        # a model parsed WITH its raw segment bytes kept, then edited: the edited segments are the model
        try:
            ser_raw = meshmod.LLMeshSerializer(include_raw_segments=True)
            mr = se.BufferReader("!", b1).read(ser_raw)
            edited = None
            for name, seg in mr.segments.items():
                if isinstance(seg, list) and seg and isinstance(seg[0], dict) and seg[0].get("TriangleList"):
                    seg[0]["TriangleList"] = list(seg[0]["TriangleList"]) + [[0, 0, 0]]
                    edited = name
                    break
                if name == "skin":
                    seg["pelvis_offset"] = 0.75
                    edited = name
                    break
                if name == "hv_unknown":
                    seg["anything"] = [9, 9]
                    edited = name
                    break
            if edited is not None:
                w = se.BufferWriter("!")
                w.write(ser_raw, mr)
                m3 = dec(w.copy_buffer())
                ctx.count("meshes_edited_after_raw_parse")
                if mesh_plain(m3, True)[1].get(edited) != mesh_plain(mr, True)[1].get(edited):
                    ctx.violation("mesh:edited-segment-not-serialised", "a mesh parsed with its raw segment bytes kept and then edited "
                                  "does not come back with the edit", dict(wit, segment=edited))
        except Exception as e:
            ctx.violation("mesh:raises:" + type(e).__name__, "mesh round trip with raw segments kept raised", dict(wit, exc=repr(e)[:300]))
        ctx.nontrivial(("mesh", tuple(sorted(m0.segments)), tuple(sorted(m0.raw_segments))))


# ------------------------------------------------------------------ transfers

class _Circuit:
    def __init__(self):
        self.sent = []

    def send(self, msg):
        self.sent.append(msg)

    def send_reliable(self, msg, transport=None):
        self.sent.append(msg)
        fut = asyncio.get_event_loop_policy().get_event_loop().create_future()
        return fut


class _Holder:
    def __init__(self):
        from hippolyzer.lib.base.message.message_handler import MessageHandler
        self.circuit = _Circuit()
        self.message_handler = MessageHandler()


_SER, _DES = UDPMessageSerializer(), UDPMessageDeserializer()


def sender_packets(loop, payload, raw):
    """Use the real sender (Xfer chunking + serve_inbound_xfer_request) and capture the SendXferPacket messages."""
    holder = _Holder()
    mgr = xm.XferManager(holder)
    # RawBytes: the caller has already put the length prefix on
    data = RawBytes(len(payload).to_bytes(4, "little", signed=True) + payload) if raw else payload
    xfer = xm.Xfer(data=data)
    req = Message("RequestXfer", Block("XferID", ID=4242, Filename=b"", FilePath=0, DeleteOnCompletion=False, UseBigPackets=False,
                                       VFileID=UUID(int=9), VFileType=0))

    async def go():
        task = asyncio.ensure_future(mgr.serve_inbound_xfer_request(xfer, lambda m: True, wait_for_confirm=False))
        await asyncio.sleep(0)
        holder.message_handler.handle(req)
        await asyncio.wait_for(task, 5)
    loop.run_until_complete(go())
    ser, des = _SER, _DES           # the deserializer must outlive the lazily parsed messages
    out = []
    for k, m in enumerate(x for x in holder.circuit.sent if x.name == "SendXferPacket"):
        m.packet_id = k + 1
        out.append(des.deserialize(ser.serialize(m)))
    return out


def boundary_sizes(quick):
    sizes = {0, 1, 2, 3, 4, 5}
    for k in (1, 2, 3):
        for d in range(-6, 6):
            sizes.add(max(0, k * xm.MAX_CHUNK_SIZE + d))
    if not quick:
        for d in range(-6, 3):
            sizes.add(4 * xm.MAX_CHUNK_SIZE + d)
    return sorted(sizes)


def arrival_sequences(n, extra, rng, cap):
    """All arrival sequences over chunk ids 0..n-1 of length <= n+extra that contain every id (so the transfer can finish),
    plus all shorter prefixes implicitly (judged at each step). Capped by sampling when too many."""
    seqs = []
    for length in range(n, n + extra + 1):
        for seq in itertools.product(range(n), repeat=length):
            if len(set(seq)) == n:
                seqs.append(seq)
    if len(seqs) > cap:
        seqs = rng.sample(seqs, cap)
    return seqs


def paced_transfers(ctx, rng):
    """The receiving side's pump, driven in (shifted) time: chunks that arrive steadily - each within the receiver's patience
    of 5 s after the previous one, the whole transfer taking much longer - complete the transfer; a sender that really goes
    silent for longer than that fails it."""
    from ..timeshift import TimeShift
    loop = asyncio.get_event_loop_policy().get_event_loop()
    payload = bytes((i * 13 + 5) & 0xFF for i in range(4 * xm.MAX_CHUNK_SIZE + 17))
    packets = [bytes(_SER.serialize(m)) for m in sender_packets(loop, payload, False)]
    for gaps in ([2.0] * len(packets), [4.5] * len(packets), [0.5, 4.9, 0.1, 4.9, 4.9][:len(packets)], [1.0, 6.0] + [1.0] * (len(packets) - 2)):
        silent = any(g > 5.0 for g in gaps)
        with TimeShift() as clock:
            holder = _Holder()
            mgr = xm.XferManager(holder)
            state = {}

            async def go():
                xfer = mgr.request(xfer_id=4242, file_name=b"x", turbo=bool(len(gaps) % 2))
                state["xfer"] = xfer
                await asyncio.sleep(0)
                for data, gap in zip(packets, gaps):
                    clock.advance(gap)
                    for _ in range(3):
                        await asyncio.sleep(0)
                    if xfer.done():
                        break
                    holder.message_handler.handle(_DES.deserialize(data))
                    for _ in range(3):
                        await asyncio.sleep(0)
            try:
                loop.run_until_complete(go())
            except Exception as e:
                ctx.violation("paced-xfer:raises", "driving a paced transfer raised", {"gaps": gaps, "exc": repr(e)[:200]})
                continue
            xfer = state["xfer"]
            wit = {"gaps": gaps, "chunks": len(packets), "total_seconds": sum(gaps)}
            ctx.ev()
            ctx.count("paced_transfers")
            failed = xfer.done() and not xfer.cancelled() and xfer._future.exception() is not None
            if failed and not xfer.size_known.cancelled() and xfer.size_known.done():
                xfer.size_known.exception() if xfer.size_known.exception() else None     # (retrieved: nothing to log at teardown)
            if silent:
                if not failed:
                    ctx.violation("paced-xfer:silence-not-noticed", "a sender silent for longer than the receiver's patience did not "
                                  "fail the transfer", wit)
                continue
            if failed or not xfer.done():
                ctx.violation("paced-xfer:steady-transfer-failed", "a transfer whose chunks arrived steadily (every gap within the "
                              "receiver's patience) did not complete", dict(wit, done=xfer.done(), failed=failed))
                continue
            if bytes(xfer.reassemble_chunks()) != payload:
                ctx.violation("xfer-reassembly-differs", "the reassembled payload is not the payload that was sent", wit)
                continue
            ctx.count("paced_transfers_completed")
            ctx.nontrivial(("paced", tuple(gaps)))


class _WiredCircuit:
    """Hands every message sent to the peer's handler on the next loop iteration, through the real wire form."""
    def __init__(self, loop, peer_handler, log):
        self.loop, self.peer, self.log, self.n = loop, peer_handler, log, 0

    def send(self, msg):
        self.n += 1
        msg.packet_id = self.n
        data = bytes(_SER.serialize(msg))
        self.log.append(msg.name)
        self.loop.call_soon(lambda: self.peer.handle(_DES.deserialize(data)))

    def send_reliable(self, msg, transport=None):
        self.send(msg)
        return self.loop.create_future()


def paired_transfers(ctx, rng):
    """Both ends the library's own: serve_inbound_xfer_request() as callers use it (confirmations awaited, the default) feeding
    request() in both acknowledgement modes. Judged in loop iterations, not seconds: the transfer has to complete, on both ends,
    within a generous number of iterations per chunk, and reassemble to the payload."""
    loop = asyncio.get_event_loop_policy().get_event_loop()
    sizes = [0, 1, xm.MAX_CHUNK_SIZE - 5, xm.MAX_CHUNK_SIZE - 4, xm.MAX_CHUNK_SIZE - 3, 2 * xm.MAX_CHUNK_SIZE - 4,
             2 * xm.MAX_CHUNK_SIZE + rng.randint(0, 50), 3 * xm.MAX_CHUNK_SIZE, 5 * xm.MAX_CHUNK_SIZE + 1, 12 * xm.MAX_CHUNK_SIZE + rng.randint(0, 900)]
    for size in sizes:
        for turbo in (False, True):
            for confirm in (True, False):
                payload = bytes((i * 11 + size + turbo) & 0xFF for i in range(size))
                from hippolyzer.lib.base.message.message_handler import MessageHandler
                sh, rh = MessageHandler(), MessageHandler()
                log = []
                sender_holder, receiver_holder = _Holder(), _Holder()
                sender_holder.message_handler, receiver_holder.message_handler = sh, rh
                sender_holder.circuit = _WiredCircuit(loop, rh, log)
                receiver_holder.circuit = _WiredCircuit(loop, sh, log)
                sender, receiver = xm.XferManager(sender_holder), xm.XferManager(receiver_holder)
                outbound = xm.Xfer(data=payload)
                n_chunks = len(outbound.chunks)
                state = {}

                async def go():
                    kw = {} if confirm else {"wait_for_confirm": False}
                    task = asyncio.ensure_future(sender.serve_inbound_xfer_request(outbound, lambda m: True, **kw))
                    await asyncio.sleep(0)
                    inbound = receiver.request(xfer_id=777, file_name=b"f", turbo=turbo)
                    state.update(task=task, inbound=inbound)
                    for step in range(400 + 200 * n_chunks):
                        if inbound.done() and task.done():
                            break
                        await asyncio.sleep(0)
                    state["steps"] = step
                    if not task.done():
                        task.cancel()
                    if not inbound.done():
                        inbound.cancel()
                    for _ in range(5):
                        await asyncio.sleep(0)
                wit = {"size": size, "chunks": n_chunks, "turbo": turbo, "sender_waits_for_confirmations": confirm, "kind": "paired"}
                try:
                    loop.run_until_complete(go())
                except Exception as e:
                    ctx.violation("paired-xfer:raises", "driving a sender/receiver pair raised", dict(wit, exc=repr(e)[:200]))
                    continue
                ctx.ev()
                ctx.count("paired_transfers")
                task, inbound = state["task"], state["inbound"]
                wit["messages"] = {n: log.count(n) for n in set(log)}
                if inbound.cancelled() or inbound._future.exception() is not None:
                    ctx.violation("paired-xfer:receiver-never-completes", "the library's receiver fed by the library's sender did not "
                                  "complete the transfer", dict(wit, chunks_arrived=len(inbound.chunks)))
                    continue
                if task.cancelled() or task.exception() is not None:
                    ctx.violation("paired-xfer:sender-never-finishes", "the library's sender did not finish although the receiver has "
                                  "everything", dict(wit, exc=None if task.cancelled() else repr(task.exception())[:200]))
                    continue
                if bytes(inbound.reassemble_chunks()) != payload:
                    ctx.violation("xfer-reassembly-differs", "the reassembled payload is not the payload that was sent", wit)
                    continue
                ctx.count("paired_transfers_completed")
                if turbo and n_chunks > 1 and confirm:
                    ctx.count("paired_transfers_completed_turbo_multichunk")
                ctx.nontrivial(("paired", size, turbo, confirm))


def transfers(ctx, share, nshares):
    rng = ctx.rng
    loop = asyncio.get_event_loop_policy().get_event_loop()
    sizes = boundary_sizes(ctx.quick)
    extra = ctx.pick(1, 2)
    for si, size in enumerate(sizes):
        if si % nshares != share:
            continue
        if ctx.out_of_time():
            ctx.inconclusive_because("work budget exhausted in transfers")
            return
        payload = bytes((i * 7 + size) & 0xFF for i in range(size))
        for raw in (False, True):
            try:
                packets = sender_packets(loop, payload, raw)
            except Exception as e:
                ctx.violation("xfer-sender-raises:" + type(e).__name__, "the sending side failed to chunk a payload",
                              {"size": size, "raw": raw, "exc": repr(e)[:200]})
                continue
            n = len(packets)
            if n == 0:
                ctx.violation("xfer-sender-sends-nothing", "no packet was produced for a payload", {"size": size, "raw": raw})
                continue
            ctx.cover("boundary_sizes", size)
            eofs = [bool(p["XferID"][0].deserialize_var("Packet").IsEOF) for p in packets]
            if eofs != [False] * (n - 1) + [True]:
                ctx.violation("xfer-sender-eof-marking", "the end marker is not on exactly the last chunk", {"size": size, "raw": raw, "eofs": eofs})
            expected = payload
            for seq in arrival_sequences(n, extra, rng, ctx.pick(150, 6000)):
                holder = _Holder()
                mgr = xm.XferManager(holder)
                # the receiver's two acknowledgement modes: one confirmation per packet, and "turbo" (confirming ahead)
                turbo = bool(ctx.counters.get("xfer_sequences", 0) % 2)
                xfer = xm.Xfer(4242, turbo=turbo)
                if turbo:
                    ctx.count("xfer_sequences_turbo")
                seen = set()
                ok = True
                for step, pid in enumerate(seq):
                    if pid in seen:
                        ctx.count("duplicate_arrivals")
                    seen.add(pid)
                    try:
                        mgr._handle_send_xfer_packet(packets[pid], xfer)
                    except Exception as e:
                        ctx.violation("xfer-receiver-raises:" + type(e).__name__, "the receiver raised on an arriving chunk",
                                      {"size": size, "raw": raw, "sequence": list(seq), "step": step, "exc": repr(e)[:200]})
                        ok = False
                        break
                    should = len(seen) == n
                    if xfer.done() != should:
                        ctx.violation("xfer-completion-" + ("early" if xfer.done() else "late"), "the transfer's completion does not coincide "
                                      "with the arrival of all chunks up to the end-marked one",
                                      {"size": size, "raw": raw, "sequence": list(seq), "step": step, "chunks": n, "turbo": turbo})
                        ok = False
                        break
                    if should and bytes(xfer.reassemble_chunks()) != expected:
                        got = bytes(xfer.reassemble_chunks())
                        ctx.violation("xfer-reassembly-differs", "the reassembled payload is not the payload that was sent",
                                      {"size": size, "raw": raw, "sequence": list(seq), "got_len": len(got), "expected_len": len(expected)})
                        ok = False
                        break
                if ok and xfer.expected_size != size:
                    ctx.violation("xfer-expected-size-wrong", "the announced size is not the payload size", {"size": size, "got": xfer.expected_size})
                if list(seq[:n]) != sorted(seq[:n]):
                    ctx.count("out_of_order_completions")
                    if turbo:
                        ctx.count("out_of_order_completions_turbo")
                ctx.count("xfer_sequences")
                ctx.ev()
                ctx.nontrivial(("xfer", size, raw, seq))
        # ---- Transfer (sim -> us): packets are built the way the simulator sends them
        csize = 1000
        chunks = [payload[i:i + csize] for i in range(0, max(len(payload), 1), csize)]
        n = len(chunks)
        if n > 4:
            continue
        tid = UUID(int=77)
        msgs = [Message("TransferPacket", Block("TransferData", TransferID=tid, ChannelType=int(TransferChannelType.ASSET), Packet=k,
                                                Status=int(TransferStatus.DONE if k == n - 1 else TransferStatus.OK), Data=c))
                for k, c in enumerate(chunks)]
        for seq in arrival_sequences(n, extra, rng, ctx.pick(80, 4000)):
            holder = _Holder()
            mgr = tm.TransferManager(holder)
            tr = tm.Transfer(tid)
            seen = set()
            for step, pid in enumerate(seq):
                seen.add(pid)
                try:
                    mgr._handle_transfer_packet(msgs[pid], tr)
                except Exception as e:
                    ctx.violation("transfer-receiver-raises:" + type(e).__name__, "the receiver raised on an arriving chunk",
                                  {"size": size, "sequence": list(seq), "step": step, "exc": repr(e)[:200]})
                    break
                should = len(seen) == n
                if tr.done() != should:
                    ctx.violation("transfer-completion-" + ("early" if tr.done() else "late"), "the transfer's completion does not coincide "
                                  "with the arrival of all chunks up to the end-marked one",
                                  {"size": size, "sequence": list(seq), "step": step, "chunks": n})
                    break
                if should and bytes(tr.reassemble_chunks()) != payload:
                    ctx.violation("transfer-reassembly-differs", "the reassembled payload is not the payload that was sent",
                                  {"size": size, "sequence": list(seq)})
                    break
            ctx.count("transfer_sequences")
            ctx.ev()
            ctx.nontrivial(("transfer", size, seq))


def run(ctx):
    try:
        asyncio.get_event_loop_policy().get_event_loop()
    except Exception:
        asyncio.set_event_loop(asyncio.new_event_loop())
    tz = TZS[ctx.shard % len(TZS)]
    os.environ["TZ"] = tz
    time.tzset()
    ctx.cover("tz", tz)
    inventory(ctx, ctx.pick(50, 2000))
    if ctx.shard == 0:
        enum_sweep(ctx)
    wearable_checks(ctx, ctx.pick(20, 200))
    animations(ctx, ctx.pick(50, 2000))
    meshes(ctx, ctx.pick(25, 1000))
    transfers(ctx, ctx.shard, ctx.nshards)
    if ctx.shard == 0:
        paced_transfers(ctx, ctx.rng)
        paired_transfers(ctx, ctx.rng)


def replay(ctx, w):
    try:
        asyncio.get_event_loop_policy().get_event_loop()
    except Exception:
        asyncio.set_event_loop(asyncio.new_event_loop())
    if w.get("kind") == "paired":
        return paired_transfers(ctx, ctx.rng)
    inventory(ctx, 25)
    enum_sweep(ctx)
    wearable_checks(ctx, 10)
    animations(ctx, 25)
    meshes(ctx, 12)
    transfers(ctx, 0, 1)
