"""C09 - every registered subfield (pretty) serializer is lossless against the wire.

Every entry of SUBFIELD_SERIALIZERS is driven through its real serialize()/deserialize() (and through
Block.deserialize_var/serialize_var) with: every / many integers of the variable's wire type, payloads produced
from values generated on the serializer's own template, byte-level fuzz, in object and plain-data form.
Date-bearing serializers are repeated in child processes under three process time zones.
"""
import ast
import math
import os
import random
import struct
import time

from .. import env

env.import_repo()

import hippolyzer.lib.base.serialization as se  # noqa: E402
import hippolyzer.lib.base.templates as T  # noqa: E402
import hippolyzer.lib.proxy.templates  # noqa: E402,F401
from hippolyzer.lib.base.message.message import Block  # noqa: E402
from hippolyzer.lib.base.message.msgtypes import MsgType  # noqa: E402
from hippolyzer.lib.base.message.template_dict import DEFAULT_TEMPLATE_DICT  # noqa: E402

from .. import gen_spec  # noqa: E402
from ..gen_msg import INT_RANGES  # noqa: E402

LEVEL = "exploration"
SHARDS = {"quick": 9, "thorough": 18}
TIMEOUT_S = {"quick": 600, "thorough": 3000}
BUDGET_S = {"quick": 120, "thorough": 1500}
TZS = ["UTC", "America/Los_Angeles", "Asia/Kolkata"]
RULE = ("all registered (message, block, variable) serializers; int-typed: every raw of 8/16-bit wire types and "
        "boundaries + random 32/64-bit raws x {object, plain-data} x every context value of switching fields; byte-typed: "
        "values generated on the serializer's own template -> payload -> decode/encode laws, plus byte fuzz/mutations for "
        "the fixed-point law; shards are split over 3 process time zones. distinct_nontrivial = distinct (serializer key, "
        "context, raw/payload) cases that decoded to something other than UNSERIALIZABLE"
        ". Round-5 additions: the literal law is applied to both printed forms - repr() and the library's own printer (HippoPrettyPrinter, the one the textual message form is made with); double fields also get single-precision values widened to double"
        ". Rounds 6-7: a refused encode (integer too large, late in the structure) precedes every other own-payload check; tiny payloads (zero entries, lone count bytes) for every key; face numbers beyond 64; calls from four threads; last in each shard the library's template reload is provoked and values decoded before it are written back through the Block API"
        ". Round 8: order of equal entries after a round trip; blocks moved from one message to another (payloads generated per registry key); the library printer in the literal law"
        ". Round 9: quantised fields are given raws next to the ends and the middle of their domain, and a raw whose decoded value does not encode back to it is reported; every editable leaf of a decoded value is edited in place (both forms) and all payloads of the batch are decoded and encoded again"
        ". Round 10: the block's own object taken without a copy, edited in place and written back with serialize_var - the field must hold the encoding of the edited object")
ASSUMPTIONS = [
    "registrations whose variable no longer exists in the message template are listed and skipped",
    "date adapters may reject raws outside year 1..9999 (counted; at least 200 raws per date field must have been accepted)",
    "literal law: repr() of the plain-data form must ast.literal_eval back to an equal value that encodes to the "
    "same bytes; values containing non-finite floats are excluded from this clause",
    "for accepted foreign payloads one decode-encode pass must reach a fixed point that decodes to the same value",
]
MUST_REACH = {"block_objects_edited_in_place_and_written_back": 15, "quantised_raws_placed_in_payloads": 300, "payloads_decoded_after_an_edit_elsewhere": 2000, "serializer_keys_covered": 180, "int_raw_checks": 100000, "byte_payload_checks": 1000,
              "fuzz_accepted": 50, "literal_checks": 10000, "literal_checks_through_library_printer": 5000, "refused_encodes_before_good_ones": 60, "template_reloads_provoked": 3, "entry_orders_compared": 500, "blocks_moved_between_messages": 4, "calls_from_concurrent_threads": 300, "values_encoded_after_template_reload": 20, "block_api_checks": 500, "block_member_assignments": 50, "block_pretty_assignments": 100, "block_values_scribbled": 40, "tz_covered": 3,
              "negative_raws_on_signed_flag_fields": 10, "context_values": 20}


def wire_var(key):
    tmpl = DEFAULT_TEMPLATE_DICT[key[0]]
    if tmpl is None:
        return None
    try:
        return tmpl.get_block(key[1]).get_variable(key[2])
    except KeyError:
        return None


def is_finite_tree(v, depth=0):
    if isinstance(v, float):
        return math.isfinite(v)
    if isinstance(v, (list, tuple)):
        return all(is_finite_tree(x, depth + 1) for x in v)
    if isinstance(v, dict):
        return all(is_finite_tree(k) and is_finite_tree(x, depth + 1) for k, x in v.items())
    return True


def make_block(key, **siblings):
    b = Block(key[1], **siblings)
    b.message_name = key[0]
    return b


def contexts_for(key, ser):
    """[(label, block)] - every context value that selects a sub-template / adapter."""
    cls = ser if isinstance(ser, type) else type(ser)
    out = []
    if isinstance(ser, type) and issubclass(ser, se.EnumSwitchedSubfieldSerializer):
        for member, tmpl in ser.TEMPLATES.items():
            out.append((f"{ser.ENUM_FIELD}={int(member)}", make_block(key, **{ser.ENUM_FIELD: int(member)}), tmpl))
        return out
    if isinstance(ser, type) and issubclass(ser, se.FlagSwitchedSubfieldSerializer):
        allbits = 0
        for f in ser.TEMPLATES:
            allbits |= int(f)
        combos = sorted({c & 0xFF for c in range(0, 32)})
        for c in combos:
            out.append((f"{ser.FLAG_FIELD}={c}", make_block(key, **{ser.FLAG_FIELD: c}), ser._build_template(c)))
        return out
    if cls.__name__ == "TransferInfoSerializer":
        for member, tmpl in ser.TEMPLATES.items():
            out.append((f"TargetType={int(member)}", make_block(key, TargetType=int(member)), tmpl))
        # unknown target: the payload format is guessed by size from the request templates and decoded as a dict
        for tmpl in (T.TransferParamsSerializer.TEMPLATES[T.TransferSourceType.SIM_INV_ITEM],
                     T.TransferParamsSerializer.TEMPLATES[T.TransferSourceType.SIM_ESTATE]):
            out.append(("TargetType=0(guess)", make_block(key, TargetType=int(T.TransferTargetType.UNKNOWN)),
                        tmpl.template))
        return out
    if cls.__name__ == "ObjectStateSerializer":
        for p in list(T.PCode) + [0, 10, 200]:
            out.append((f"PCode={int(p)}", make_block(key, PCode=int(p)), None))
        return out
    tmpl = getattr(ser, "TEMPLATE", None)
    out.append(("", make_block(key), tmpl))
    return out


def int_raws(rng, var, quick):
    lo, hi = INT_RANGES[var.type]
    if hi - lo < 70000:
        return list(range(lo, hi + 1)), True
    n = 1500 if quick else 20000
    vals = {lo, hi, 0, 1, 2, max(lo, -1), max(lo, -2), hi - 1, lo + 1, 0x7F, 0x80, 0xFF, 0x100, 0x7FFF, 0x8000, 0xFFFF,
            0x10000, min(hi, 0x7FFFFFFF), min(hi, 0x80000000), min(hi, 0xFFFFFFFF)}
    for bit in range(0, 64):
        if lo <= (1 << bit) <= hi:
            vals.add(1 << bit)
            vals.add((1 << bit) - 1)
        if lo <= -(1 << bit) <= hi:
            vals.add(-(1 << bit))
    while len(vals) < n:
        r = rng.random()
        if r < 0.5:
            vals.add(rng.randint(lo, hi))
        elif r < 0.8:
            vals.add(rng.randint(max(lo, -100000), min(hi, 100000)))
        else:
            # plausible unix timestamps (s and us), incl. DST transitions / fold hours of 2020-2021
            base = rng.choice([1604217600, 1604221200, 1604224800, 1615716000, 1615719600, 1583056800, 1600000000, 86400,
                               2 ** 31 - 1, 1700000000])
            v = base + rng.randint(-7200, 7200)
            if rng.random() < 0.5:
                v = v * 1_000_000 + rng.randint(0, 999_999)
            if lo <= v <= hi:
                vals.add(v)
    return sorted(vals), False


def check_literal(ctx, key, label, ser, block, d, expect_bytes_or_raw, wit):
    """Plain-data form must survive repr -> literal_eval -> encode."""
    if not is_finite_tree(d):
        ctx.count("literal_skipped_nonfinite")
        return
    ctx.count("literal_checks")
    # the two printed forms in use: repr() and the library's own printer (the one the textual message form is made with)
    from hippolyzer.lib.base.helpers import HippoPrettyPrinter
    for how, printed in (("repr", repr), ("printer", HippoPrettyPrinter(width=100).pformat)):
        try:
            text = printed(d)
            lit = ast.literal_eval(text)
        except Exception as e:
            ctx.violation("pod-repr-not-a-literal" + ("" if how == "repr" else ":" + how),
                          "the printed plain-data form does not evaluate as a literal",
                          dict(wit, how=how, pod_value=repr(d)[:300], exc=repr(e)[:200]))
            return
        if gen_spec.canon(lit) != gen_spec.canon(d):
            ctx.violation("pod-repr-differs" + ("" if how == "repr" else ":" + how),
                          "the printed plain-data form evaluates to a different value",
                          dict(wit, how=how, pod_value=repr(d)[:300], printed=text[:300], literal=repr(lit)[:300]))
            return
        try:
            back = ser.serialize(block, lit)
        except Exception as e:
            ctx.violation("pod-literal-not-encodable" + ("" if how == "repr" else ":" + how),
                          "the evaluated plain-data literal cannot be encoded",
                          dict(wit, how=how, pod_value=repr(d)[:300], exc=repr(e)[:200]))
            return
        if back != expect_bytes_or_raw:
            ctx.violation("pod-literal-encodes-differently" + ("" if how == "repr" else ":" + how),
                          "the evaluated plain-data literal encodes to different bytes",
                          dict(wit, how=how, pod_value=repr(d)[:300], got=repr(back)[:200]))
            return
        if how == "printer":
            ctx.count("literal_checks_through_library_printer")


def ser_name(ser):
    if isinstance(ser, se.IntEnumSubfieldSerializer):
        return "IntEnum"
    if isinstance(ser, se.IntFlagSubfieldSerializer):
        return "IntFlag"
    return ser.__name__ if isinstance(ser, type) else type(ser).__name__


def check_int_key(ctx, rng, key, ser, var):
    name = ser_name(ser)
    raws, exhaustive = int_raws(rng, var, ctx.quick)
    lo, hi = INT_RANGES[var.type]
    is_date = "Date" in name
    signed_flag = name == "IntFlag" and lo < 0
    rejected = 0
    tried = 0
    for label, block, _ in contexts_for(key, ser):
        ctx.count("context_values")
        for raw in raws:
            if ctx.out_of_time():
                return
            for pod in (False, True):
                tried += 1
                ctx.ev()
                ctx.count("int_raw_checks")
                wit = {"key": list(key), "context": label, "raw": raw, "pod": pod, "wire_type": var.type.name,
                       "tz": os.environ.get("TZ")}
                try:
                    d = ser.deserialize(block, raw, pod=pod)
                except Exception as e:
                    if is_date:
                        rejected += 1
                        continue
                    ctx.violation(f"int-decode-raises:{name}", "decoding an integer of the wire type raised",
                                  dict(wit, exc=repr(e)[:200]))
                    continue
                if d is se.UNSERIALIZABLE:
                    ctx.count("unserializable")
                    continue
                if signed_flag and raw < 0:
                    ctx.count("negative_raws_on_signed_flag_fields")
                try:
                    back = ser.serialize(block, d)
                except Exception as e:
                    ctx.violation(f"int-encode-raises:{name}", "re-encoding a decoded integer raised",
                                  dict(wit, decoded=repr(d)[:200], exc=repr(e)[:200]))
                    continue
                if back != raw:
                    mech = f"int-roundtrip:{name}"
                    if signed_flag and raw < 0:
                        mech += ":negative-on-signed-field" + (":pod" if pod else ":object")
                    elif is_date:
                        mech += _classify_date(raw, back, name)
                    ctx.violation(mech, "decode-then-encode changed the integer", dict(wit, decoded=repr(d)[:200], back=back))
                    continue
                ctx.nontrivial((key, label, raw))
                if pod:
                    check_literal(ctx, key, label, ser, block, d, raw, wit)
    if is_date:
        # a date adapter may refuse raws outside year 1..9999 (most of a uniformly drawn U64); that is a reach question,
        # not a verdict: enough raws must have been accepted for the round-trip law to have been exercised
        ctx.count("date_raws_accepted", tried - rejected)
        ctx.count("date_raws_rejected", rejected)
        if tried - rejected < 200:
            ctx.inconclusive_because(f"date serializer {key} accepted only {tried - rejected} of {tried} raws")
    # Block API: cache invalidation + serialize_var
    block = contexts_for(key, ser)[0][1]
    vname = key[2]
    for raw in rng.sample(raws, min(len(raws), 12)):
        ctx.count("block_api_checks")
        block[vname] = raw
        try:
            v1 = block.deserialize_var(vname)
        except Exception:
            continue
        if v1 is se.UNSERIALIZABLE:
            continue
        raw2 = rng.choice(raws)
        block[vname] = raw2
        try:
            v2 = block.deserialize_var(vname)
            direct = ser.deserialize(block, raw2, pod=False)
        except Exception:
            continue
        if gen_spec.canon(v2) != gen_spec.canon(direct):
            ctx.violation("block-cache-stale", "Block.deserialize_var returned a value for a raw value that was replaced",
                          {"key": list(key), "raw_first": raw, "raw_now": raw2, "got": repr(v2)[:200]})
        # the same replacement through the other assignment forms: an enum / flag member, and Pretty(value)
        import enum as _enum
        from hippolyzer.lib.base.message.message import Pretty
        if isinstance(direct, (_enum.IntEnum, _enum.IntFlag)):
            block[vname] = raw
            block.deserialize_var(vname)                       # fill the cache with the old value
            block[vname] = direct                              # assign the member object
            v3 = block.deserialize_var(vname)
            ctx.count("block_member_assignments")
            if gen_spec.canon(v3) != gen_spec.canon(direct) or block[vname] != int(direct):
                ctx.violation("block-cache-stale:member-assignment", "after assigning an enum/flag member Block.deserialize_var "
                              "still returned the value of the replaced raw", {"key": list(key), "raw_first": raw,
                                                                                "assigned": repr(direct)[:100], "got": repr(v3)[:100]})
        if not is_date:
            try:
                block[vname] = raw
                block.deserialize_var(vname)
                block[vname] = Pretty(direct)
                v4 = block.deserialize_var(vname)
                ctx.count("block_pretty_assignments")
                if gen_spec.canon(v4) != gen_spec.canon(direct) or (block[vname] != raw2 and not (signed_flag and raw2 < 0)):
                    ctx.violation("block-cache-stale:pretty-assignment", "after assigning Pretty(value) the block does not hold "
                                  "that value", {"key": list(key), "raw_first": raw, "raw_now": raw2, "got": repr(v4)[:100],
                                                 "var": repr(block[vname])[:60]})
            except Exception as e:
                ctx.violation("block-pretty-assignment-raises", "assigning Pretty(value) of a decoded value raised",
                              {"key": list(key), "value": repr(direct)[:100], "exc": repr(e)[:200]})
        try:
            block.serialize_var(vname, v1)
        except Exception as e:
            ctx.violation("block-serialize-var-raises", "Block.serialize_var raised on a value it produced",
                          {"key": list(key), "value": repr(v1)[:200], "exc": repr(e)[:200]})
            continue
        if block[vname] != raw and not (is_date or (signed_flag and raw < 0)):
            ctx.violation("block-serialize-var-differs", "Block.serialize_var did not restore the raw value",
                          {"key": list(key), "raw": raw, "got": block[vname]})
        # a failing serialize_var must not leave a value in the cache that is not on the wire
        if is_date:
            continue
        before = block[vname]
        bogus = "NO_SUCH_MEMBER_XYZ" if name == "IntEnum" else ("NO_SUCH_MEMBER_XYZ",) if name == "IntFlag" else object()
        try:
            block.serialize_var(vname, bogus)
        except Exception:
            ctx.count("failed_serialize_var_probes")
        else:
            block[vname] = before     # the serializer accepted it: nothing to observe
            continue
        try:
            after_val = block.deserialize_var(vname)
            expect = ser.deserialize(block, block[vname], pod=False)
            if block[vname] != before or gen_spec.canon(after_val) != gen_spec.canon(expect):
                ctx.violation("block-cache-after-failed-serialize", "after a failed serialize_var the cached value no "
                              "longer corresponds to the raw value", {"key": list(key), "raw": before,
                                                                        "cached": repr(after_val)[:200]})
        except Exception:
            pass


def _classify_date(raw, back, name):
    diff = back - raw
    mult = 1_000_000 if "Creation" in name else 1
    if diff and diff % (3600 * mult) == 0:
        return ":whole-hours-off(local-time-fold-or-gap)"
    if abs(diff) < mult and mult > 1:
        return ":sub-second-precision"
    return ":other"


def _poison_last_int(v):
    """Replace the last plain integer leaf (traversal order) by one that fits no wire type; returns True if one was found."""
    found = [None]

    def walk(node):
        items = node.items() if isinstance(node, dict) else enumerate(node) if isinstance(node, list) else ()
        for k, x in items:
            if isinstance(x, int) and not isinstance(x, bool):
                found[0] = (node, k)
            elif isinstance(x, (dict, list)):
                walk(x)
    walk(v)
    if found[0] is None:
        return False
    found[0][0][found[0][1]] = 2 ** 70
    return True


def provoke_failed_encode(ctx, ser, block, payload):
    """Serializers are long-lived objects shared by everything that touches a field: a refused value (the caller asked for
    something that does not fit - here an integer too large for any wire type, late in the structure, so that part of the
    encoding had already been produced) must leave nothing behind that shows up in the next encode."""
    import copy
    try:
        d = ser.deserialize(block, payload, pod=True)
        bad = copy.deepcopy(d)
        if not isinstance(bad, (dict, list)) or not _poison_last_int(bad):
            return
    except Exception:
        return
    try:
        ser.serialize(block, bad)
    except Exception:
        ctx.count("refused_encodes_before_good_ones")
    else:
        ctx.count("poisoned_values_accepted")


def payload_laws(ctx, key, label, ser, block, payload, origin, own):
    """own=True: payload produced by the serializer itself -> must survive byte-for-byte.
    own=False: foreign payload; if accepted, one pass must reach a fixed point decoding to the same value."""
    name = ser_name(ser)
    if own and ctx.counters.get("byte_payload_checks", 0) % 2 == 0:
        provoke_failed_encode(ctx, ser, block, payload)
    for pod in (False, True):
        ctx.ev()
        wit = {"key": list(key), "context": label, "payload": payload[:400], "payload_len": len(payload), "pod": pod,
               "origin": origin}
        try:
            d = ser.deserialize(block, payload, pod=pod)
            canon_d = gen_spec.canon(d)
        except Exception as e:
            if own:
                ctx.violation(f"own-payload-rejected:{name}", "the serializer cannot decode a payload it produced",
                              dict(wit, exc=repr(e)[:300]))
            else:
                ctx.count("fuzz_rejected")
            continue
        if d is se.UNSERIALIZABLE:
            ctx.count("unserializable")
            continue
        try:
            p1 = ser.serialize(block, d)
        except Exception as e:
            ctx.violation(f"decoded-value-not-encodable:{name}" + (":pod" if pod else ""),
                          "a value the serializer decoded cannot be encoded again", dict(wit, exc=repr(e)[:300],
                                                                                         value=repr(canon_d)[:300]))
            continue
        if p1 is se.UNSERIALIZABLE:
            ctx.count("unserializable")
            continue
        p1 = bytes(p1)
        ctx.count("byte_payload_checks")
        try:
            if gen_spec.canon(d) != canon_d:
                ctx.violation(f"encode-mutates-value:{name}", "encoding a decoded value changed that value in place",
                              dict(wit, before=repr(canon_d)[:300], after=repr(gen_spec.canon(d))[:300]))
                continue
        except Exception:
            pass
        if own:
            if p1 != payload:
                ctx.violation(f"own-payload-changed:{name}" + (":pod" if pod else ""),
                              "a self-produced payload did not survive decode-encode byte-for-byte",
                              dict(wit, reencoded=p1[:400], value=repr(canon_d)[:300]))
                continue
        else:
            ctx.count("fuzz_accepted")
            try:
                d1 = ser.deserialize(block, p1, pod=pod)
                p2 = bytes(ser.serialize(block, d1))
            except Exception as e:
                ctx.violation(f"fixed-point-pass-raises:{name}", "second decode-encode pass raised",
                              dict(wit, first=p1[:400], exc=repr(e)[:300]))
                continue
            if p2 != p1:
                ctx.violation(f"no-fixed-point:{name}" + (":pod" if pod else ""),
                              "an accepted payload does not reach a fixed point after one decode-encode pass",
                              dict(wit, first=p1[:400], second=p2[:400]))
                continue
            if gen_spec.canon(d1) != canon_d:
                diffs = gen_spec.diff_paths(canon_d, gen_spec.canon(d1))
                if diffs and all("Rotation" in pth and x == -2 * math.pi and y == 0.0 for pth, x, y in diffs):
                    ctx.violation("te-rotation-minus-2pi-wraps-to-0", "a texture-entry rotation of raw -32768 (-2pi) is "
                                  "re-encoded as 0", dict(wit, diffs=repr(diffs)[:300]))
                    continue
                ctx.violation(f"fixed-point-decodes-differently:{name}" + (":pod" if pod else ""),
                              "the fixed point decodes to a different value than the accepted payload",
                              dict(wit, first=p1[:400], value=repr(canon_d)[:300], value2=repr(gen_spec.canon(d1))[:300]))
                continue
        ctx.nontrivial((key, label, payload))
        if pod:
            check_literal(ctx, key, label, ser, block, d, p1, wit)


def mutate_bytes(rng, p: bytes):
    r = rng.random()
    b = bytearray(p)
    if not b:
        return bytes(rng.getrandbits(8) for _ in range(rng.randint(1, 8)))
    if r < 0.4:
        i = rng.randrange(len(b))
        b[i] = rng.choice([0, 1, 0x7f, 0x80, 0xff, b[i] ^ (1 << rng.randrange(8))])
    elif r < 0.6:
        del b[rng.randrange(len(b)):]
    elif r < 0.8:
        b += bytes(rng.getrandbits(8) for _ in range(rng.randint(1, 6)))
    else:
        i = rng.randrange(len(b))
        del b[i:i + rng.randint(1, 4)]
    return bytes(b)


def check_bytes_key(ctx, rng, key, ser, var):
    name = ser_name(ser)
    n_values = ctx.pick(12, 300)
    empty_is_none = bool(getattr(ser, "EMPTY_IS_NONE", False))
    first_payloads = None
    for label, block, tmpl in contexts_for(key, ser):
        ctx.count("context_values")
        if tmpl is se.UNSERIALIZABLE:
            # plain strings / empty buckets: the serializer declines; nothing to round-trip
            try:
                d = ser.deserialize(block, b"abc\x00", pod=False)
                if d is not se.UNSERIALIZABLE:
                    ctx.violation(f"unserializable-context-decoded:{name}", "a context declared unserializable decoded",
                                  {"key": list(key), "context": label})
            except Exception:
                pass
            continue
        payloads = []
        if tmpl is not None:
            produced = 0
            for vi in range(n_values * 3):
                if produced >= n_values or ctx.out_of_time():
                    break
                d = gen_spec.Deriver(random.Random(f"{key}:{label}:{ctx.seed}:{ctx.shard}:{vi}"), size_budget=24)
                try:
                    # subfield templates are rooted at the block: sibling lookups go to the block itself
                    v = d.gen(tmpl, se.ParseContext(block) if _needs_block_ctx(ser) else None)
                except gen_spec.Unsupported as e:
                    ctx.count("unsupported_values")
                    ctx.cover("unsupported", str(e)[:50])
                    del gen_spec.RAW_NOT_REPRODUCED[:]
                    continue
                except Exception as e:
                    ctx.count("value_generation_failed")
                    ctx.cover("valuegen_fail", f"{name}:{type(e).__name__}:{str(e)[:40]}")
                    del gen_spec.RAW_NOT_REPRODUCED[:]
                    continue
                if gen_spec.RAW_NOT_REPRODUCED:
                    # a quantised field of this payload was meant to hold a particular raw integer; the value that raw decodes to
                    # encodes as another raw, so decode -> encode cannot give such a payload back
                    bad = gen_spec.RAW_NOT_REPRODUCED[0]
                    del gen_spec.RAW_NOT_REPRODUCED[:]
                    ctx.violation(f"payload-raw-not-reproduced:{name}:{bad['spec']}", "a payload holding this raw integer in a quantised "
                                  "field does not survive decode -> encode (the field comes back as another raw)",
                                  {"key": list(key), "context": label, **bad})
                    continue
                try:
                    p = ser.serialize(block, v)
                except Exception as e:
                    ctx.violation(f"encode-raises:{name}", "encoding a value from the serializer's own template raised",
                                  {"key": list(key), "context": label, "value": repr(gen_spec.canon(v))[:400],
                                   "exc": repr(e)[:300]})
                    continue
                if p is se.UNSERIALIZABLE:
                    continue
                p = bytes(p)
                if empty_is_none and not p and v is not None:
                    # an empty encoding means "absent" for this serializer: the value is outside its domain
                    ctx.count("empty_encoding_values_skipped")
                    continue
                produced += 1
                payloads.append(p)
                # value law in object form
                try:
                    back = ser.deserialize(block, p, pod=False)
                    if gen_spec.canon(back) != gen_spec.canon(v):
                        ctx.violation(f"value-differs:{name}", "decode(encode(v)) != v for a value from the template's domain",
                                      {"key": list(key), "context": label, "value": repr(gen_spec.canon(v))[:400],
                                       "got": repr(gen_spec.canon(back))[:400]})
                    elif _entry_orders(back) != _entry_orders(v):
                        # equal as mappings, but the entries come back in another order: on the wire the order of entries is
                        # data (later texture-entry exceptions win over earlier ones for a face both name)
                        ctx.violation(f"entry-order-changed:{name}", "decode(encode(v)) has the entries of a mapping in another order "
                                      "than v", {"key": list(key), "context": label, "value": repr(_entry_orders(v))[:300],
                                                 "got": repr(_entry_orders(back))[:300]})
                    else:
                        ctx.count("entry_orders_compared")
                except Exception as e:
                    ctx.violation(f"own-payload-rejected:{name}", "the serializer cannot decode a payload it produced",
                                  {"key": list(key), "context": label, "payload": p[:300], "exc": repr(e)[:300]})
                    continue
                payload_laws(ctx, key, label, ser, block, p, "generated", own=True)
        # adapters without a template (bitmap, ...): raw payloads of the natural size
        if tmpl is None:
            for size in (512,):
                for _ in range(ctx.pick(4, 40)):
                    p = bytes(rng.getrandbits(8) for _ in range(size))
                    payloads.append(p)
                    payload_laws(ctx, key, label, ser, block, p, "raw", own=False)
        if first_payloads is None:
            first_payloads = (label, block, list(payloads[:3]))
        if tmpl is not None and len(payloads) >= 2:
            edited_results_do_not_leak(ctx, key, label, ser, block, payloads)
        # empty and tiny payloads (e.g. a count byte of zero)
        for tiny in (b"", b"\x00", b"\x00\x00", b"\x00\x00\x00\x00", b"\x01"):
            payload_laws(ctx, key, label, ser, block, tiny, "tiny", own=False)
        # the small payloads every format has: nothing, "zero entries", a lone count / flag byte
        for p in (b"\x00", b"\x00\x00", b"\x00" * 4, b"\x01", b"\xff", b"\x00\x01", b"\x01\x00"):
            ctx.count("tiny_payloads_tried")
            payload_laws(ctx, key, label, ser, block, p, "tiny", own=False)
        # fuzz: mutations of self-produced payloads and random bytes
        n_fuzz = ctx.pick(40, 2000)
        for i in range(n_fuzz):
            if ctx.out_of_time():
                break
            if payloads and rng.random() < 0.8:
                p = mutate_bytes(rng, rng.choice(payloads))
            else:
                p = bytes(rng.getrandbits(8) for _ in range(rng.randint(0, 90)))
            payload_laws(ctx, key, label, ser, block, p, "fuzz", own=False)
    # Block API on generated payloads of the first context
    if first_payloads:
        label, block, plist = first_payloads
        vname = key[2]
        for p in plist:
            ctx.count("block_api_checks")
            block[vname] = p
            try:
                # the value handed out belongs to the caller: editing it in place must not change what the block
                # hands out next time for the same (unchanged) raw bytes
                first = block.deserialize_var(vname)
                before = gen_spec.canon(first)
                if _scribble(first):
                    ctx.count("block_values_scribbled")
                    again = block.deserialize_var(vname)
                    if gen_spec.canon(again) != before:
                        ctx.violation("block-cache-aliased", "editing a value returned by Block.deserialize_var changed what the "
                                      "block returns for the same raw bytes", {"key": list(key), "context": label, "payload": p[:120],
                                                                             "before": repr(before)[:200], "after": repr(gen_spec.canon(again))[:200]})
                # the other way to use it: take the block's own object (no copy), edit it in place, write the same object back -
                # the field's bytes are then the encoding of the edited object, and the block hands out the edited value
                block[vname] = p
                own = block.deserialize_var(vname, make_copy=False)
                if _scribble_all(own):
                    try:
                        want_bytes = bytes(ser.serialize(block, own))
                    except Exception:
                        want_bytes = None
                    if want_bytes is not None and want_bytes != p:
                        block.serialize_var(vname, own)
                        ctx.count("block_objects_edited_in_place_and_written_back")
                        if bytes(block[vname]) != want_bytes:
                            ctx.violation("block-write-back-of-edited-object-ignored", "an object taken from the block without a copy "
                                          "was edited in place and written back with serialize_var: the field still holds other bytes "
                                          "than the encoding of the edited object",
                                          {"key": list(key), "context": label, "payload": p[:120], "field_now": bytes(block[vname])[:120],
                                           "encoding_of_edited_object": want_bytes[:120]})
                block[vname] = p
                v = block.deserialize_var(vname)
                block.serialize_var(vname, v)
                if bytes(block[vname]) != p:
                    ctx.violation("block-serialize-var-differs", "Block.serialize_var did not restore the payload",
                                  {"key": list(key), "payload": p[:200], "got": bytes(block[vname])[:200]})
                if len(_HELD) < 60 and ctx.counters.get("block_api_checks", 0) % 2 == 0:
                    # kept for the end of the run: value decoded now, encoded after the templates module was reloaded
                    _HELD.append((key, label, block, vname, p, block.deserialize_var(vname)))
            except Exception as e:
                ctx.violation("block-api-raises", "Block.deserialize_var/serialize_var raised on an own payload",
                              {"key": list(key), "context": label, "payload": p[:200], "exc": repr(e)[:200]})


_HELD = []


def _entry_orders(v, depth=0):
    """The order of entries of every mapping inside a value (nested), as a comparable structure."""
    import dataclasses
    if depth > 8:
        return None
    if hasattr(type(v), "__wrapped__") or type(v).__name__ == "Proxy":
        try:
            v = v.__wrapped__
        except Exception:
            return None
    if isinstance(v, dict):
        return [(repr(k), _entry_orders(x, depth + 1)) for k, x in v.items()]
    if hasattr(v, "items") and callable(v.items) and not isinstance(v, (str, bytes)):
        try:
            return [(repr(k), _entry_orders(x, depth + 1)) for k, x in v.items(multi=True)]
        except TypeError:
            return [(repr(k), _entry_orders(x, depth + 1)) for k, x in v.items()]
    if isinstance(v, (list, tuple)):
        inner = [_entry_orders(x, depth + 1) for x in v]
        return inner if any(i is not None for i in inner) else None
    if dataclasses.is_dataclass(v) and not isinstance(v, type):
        inner = [(f.name, _entry_orders(getattr(v, f.name), depth + 1)) for f in dataclasses.fields(v)]
        return inner if any(i[1] is not None for i in inner) else None
    return None


def threads_phase(ctx):
    """The registered field serializers are process-wide objects: the same decode / encode calls from several threads at once."""
    from ..threads import run_concurrently
    jobs = []
    for (key, label, block, vname, p, v) in _HELD[:40]:
        ser = se.SUBFIELD_SERIALIZERS.get(key)
        if ser is None:
            continue
        try:
            d = gen_spec.canon(ser.deserialize(block, p, pod=True))
            e = bytes(ser.serialize(block, ser.deserialize(block, p, pod=False)))
        except Exception:
            continue
        jobs.append((lambda ser=ser, block=block, p=p: gen_spec.canon(ser.deserialize(block, p, pod=True)), d))
        jobs.append((lambda ser=ser, block=block, p=p: bytes(ser.serialize(block, ser.deserialize(block, p, pod=False))), e))
    run_concurrently(ctx, "field-serializers", jobs, reps=ctx.pick(3, 20))


def blocks_moved_between_messages(ctx):
    """Block objects get passed around: one that was used (pretty access) while it belonged to one message is then added to a
    message of another name where the same block / variable name has another serializer - it goes by the message it is in."""
    import random as _random
    by_field = {}
    for key, ser in se.SUBFIELD_SERIALIZERS.items():
        try:
            var = wire_var(key)
        except Exception:
            continue
        if var is None or var.type not in (MsgType.MVT_VARIABLE, MsgType.MVT_FIXED):
            continue
        try:
            label, block, tmpl = contexts_for(key, ser)[0]
        except Exception:
            continue
        if tmpl is None:
            continue
        p = None
        for attempt in range(12):
            try:
                v = gen_spec.Deriver(_random.Random(f"{key}:{attempt}"), size_budget=12).gen(tmpl, ctx=se.ParseContext(block.vars) if _needs_block_ctx(ser) else None)
                cand = ser.serialize(block, v)
                if cand is se.UNSERIALIZABLE or not bytes(cand):
                    continue
                p = bytes(cand)
                break
            except Exception:
                continue
        if p is not None:
            by_field.setdefault((key[1], key[2]), {})[key[0]] = (key, block, p)
    for (bname, vname), per_msg in by_field.items():
        names = sorted(per_msg)
        for a in names:
            for b in names:
                key_a, block_a, p_a = per_msg[a]
                key_b, block_b, p_b = per_msg[b]
                if a == b or se.SUBFIELD_SERIALIZERS.get(key_a) is se.SUBFIELD_SERIALIZERS.get(key_b):
                    continue
                ser_b = se.SUBFIELD_SERIALIZERS[key_b]
                try:
                    want = gen_spec.canon(ser_b.deserialize(block_b, p_b, pod=False))
                except Exception:
                    continue
                blk = make_block(key_a, **{k: x for k, x in block_a.vars.items() if k != vname})
                wit = {"key": list(key_b), "moved_from": a, "payload": p_b[:200]}
                ctx.ev()
                try:
                    blk[vname] = p_a
                    blk.deserialize_var(vname)                      # used under its first message
                    blk.message_name = b                            # (what Message.add_block does)
                    for k, x in block_b.vars.items():
                        blk[k] = x
                    blk[vname] = p_b
                    got = blk.deserialize_var(vname)
                    if gen_spec.canon(got) != want:
                        ctx.violation("block-goes-by-its-previous-message", "a block moved to a message of another name decoded a field "
                                      "with the serializer of the message it came from", dict(wit, got=repr(gen_spec.canon(got))[:200],
                                                                                             want=repr(want)[:200]))
                        continue
                    blk.serialize_var(vname, got)
                    if bytes(blk[vname]) != p_b:
                        ctx.violation("block-goes-by-its-previous-message", "a block moved to a message of another name encoded a field "
                                      "with the serializer of the message it came from", dict(wit, got=bytes(blk[vname])[:200]))
                        continue
                except Exception as e:
                    ctx.violation("block-goes-by-its-previous-message", "the Block API raised on a block that was moved to a message of "
                                  "another name", dict(wit, exc=repr(e)[:200]))
                    continue
                ctx.count("blocks_moved_between_messages")


def encode_after_template_reload(ctx):
    """The library reloads its templates module when the file changed on disk (development aid, checked whenever a Message is
    built).  A value that was decoded before such a reload is still a value: written back through the Block API afterwards it
    gives the bytes it came from.  Run last in its shard (the reload replaces the registered serializers for the rest of the
    process); the reload is provoked by making the remembered time stamp look old - no file is touched."""
    import hippolyzer.lib.base.message.message as msgmod
    from hippolyzer.lib.base.message.message import Message
    if not _HELD:
        return
    old_serializers = dict(se.SUBFIELD_SERIALIZERS)
    msgmod._TEMPLATES_MTIME = 0
    try:
        Message("TestMessage")
    except Exception as e:
        ctx.inconclusive_because(f"could not provoke a template reload: {e!r}"[:200])
        return
    if all(se.SUBFIELD_SERIALIZERS.get(k) is v for k, v in old_serializers.items()):
        ctx.inconclusive_because("template reload did not re-register the serializers")
        return
    ctx.count("template_reloads_provoked")
    for (key, label, block, vname, p, v) in _HELD:
        ctx.ev()
        try:
            block[vname] = p
            block.serialize_var(vname, v)
            got = bytes(block[vname])
        except Exception as e:
            ctx.violation("value-from-before-reload-not-encodable:" + type(e).__name__, "a value decoded before the templates module "
                          "was reloaded could not be written back afterwards", {"key": list(key), "context": label, "payload": p[:200],
                                                                              "exc": repr(e)[:200]})
            continue
        if got != p:
            ctx.violation("value-from-before-reload-encodes-differently", "a value decoded before the templates module was reloaded "
                          "was written back as other bytes", {"key": list(key), "payload": p[:200], "got": got[:200]})
            continue
        ctx.count("values_encoded_after_template_reload")


def _scribble_all(v, depth=0):
    """Edit EVERY editable leaf of a decoded value in place (nested members of dataclasses, dicts and lists: flags flipped, numbers
    bumped, enum members swapped). Returns the number of edits."""
    import dataclasses
    import enum
    from hippolyzer.lib.base.datatypes import TaggedUnion
    if depth > 6:
        return 0
    if hasattr(type(v), "__wrapped__") or type(v).__name__ == "Proxy":
        try:
            v = v.__wrapped__
        except Exception:
            return 0

    def other(x):
        if isinstance(x, bool):
            return not x
        if isinstance(x, enum.Flag):
            members = list(type(x))
            return ~x & type(x)(sum(int(m) for m in members)) if members else x
        if isinstance(x, enum.Enum):
            members = [m for m in type(x) if m is not x]
            return members[0] if members else x
        if isinstance(x, int):
            return x + 1
        if isinstance(x, float):
            return x + 0.5
        if isinstance(x, str):
            return x + "~"
        return x
    n = 0
    if isinstance(v, TaggedUnion):
        return _scribble_all(v.value, depth + 1)
    if isinstance(v, dict):
        for k in list(v.keys()):
            x = v[k]
            if isinstance(x, (dict, list)) or (dataclasses.is_dataclass(x) and not isinstance(x, type)) or isinstance(x, TaggedUnion):
                n += _scribble_all(x, depth + 1)
            else:
                y = other(x)
                if y is not x:
                    try:
                        v[k] = y
                        n += 1
                    except Exception:
                        pass
        return n
    if isinstance(v, list):
        for i, x in enumerate(list(v)):
            if isinstance(x, (dict, list)) or (dataclasses.is_dataclass(x) and not isinstance(x, type)) or isinstance(x, TaggedUnion):
                n += _scribble_all(x, depth + 1)
            else:
                y = other(x)
                if y is not x:
                    v[i] = y
                    n += 1
        return n
    if dataclasses.is_dataclass(v) and not isinstance(v, type):
        for f in dataclasses.fields(v):
            x = getattr(v, f.name, None)
            if isinstance(x, (dict, list)) or (dataclasses.is_dataclass(x) and not isinstance(x, type)) or isinstance(x, TaggedUnion):
                n += _scribble_all(x, depth + 1)
            else:
                y = other(x)
                if y is not x:
                    try:
                        setattr(v, f.name, y)
                        n += 1
                    except Exception:
                        pass
        return n
    return 0


def edited_results_do_not_leak(ctx, key, label, ser, block, payloads):
    """What the serializer hands out is the caller's (an addon decodes, tweaks, encodes). Every editable leaf of one decoded value is
    edited in place - in object form and in plain-data form; decoding the same payload again, and every OTHER payload of the batch,
    still gives what those payloads hold, and they still encode to themselves."""
    name = ser_name(ser)
    for pod in (False, True):
        try:
            fresh = [gen_spec.canon(ser.deserialize(block, p, pod=pod)) for p in payloads[:8]]
        except Exception:
            return
        for i, p in enumerate(payloads[:4]):
            try:
                victim = ser.deserialize(block, p, pod=pod)
                edits = _scribble_all(victim)
            except Exception:
                continue
            if not edits:
                continue
            ctx.count("decoded_values_edited_everywhere")
            for j, q in enumerate(payloads[:8]):
                ctx.ev()
                try:
                    d = ser.deserialize(block, q, pod=pod)
                    c = gen_spec.canon(d)
                    re = bytes(ser.serialize(block, d))
                except Exception as e:
                    ctx.violation(f"decode-after-edit-raises:{name}", "decoding / encoding a payload raised after another decoded value had "
                                  "been edited in place", {"key": list(key), "context": label, "payload": q[:200], "pod": pod,
                                                           "exc": repr(e)[:200]})
                    return
                if c != fresh[j] or re != q:
                    ctx.violation(f"decode-depends-on-earlier-result:{name}", "after a decoded value was edited in place, a payload "
                                  "decodes to something else than before (or no longer encodes to itself)",
                                  {"key": list(key), "context": label, "edited_payload": p[:200], "payload": q[:200], "pod": pod,
                                   "same_payload": i == j, "before": repr(fresh[j])[:300], "after": repr(c)[:300], "reencoded": re[:200]})
                    return
                ctx.count("payloads_decoded_after_an_edit_elsewhere")


def _scribble(v, depth=0):
    """Edit a decoded value in place somewhere (first mutable container found). Returns True if something was changed."""
    import dataclasses
    from hippolyzer.lib.base.datatypes import TaggedUnion
    if depth > 4:
        return False
    if hasattr(type(v), "__wrapped__") or type(v).__name__ == "Proxy":
        try:
            v = v.__wrapped__                    # lazy proxies: edit the object behind them
        except Exception:
            return False
    if isinstance(v, TaggedUnion):
        return _scribble(v.value, depth + 1)
    if isinstance(v, dict):
        for k in list(v.keys()):
            if _scribble(v[k], depth + 1):
                return True
        if v:
            v.pop(next(iter(v)))
            return True
        v["hv-scribble"] = 1
        return True
    if isinstance(v, list):
        for x in v:
            if _scribble(x, depth + 1):
                return True
        v.append("hv-scribble")
        return True
    if dataclasses.is_dataclass(v) and not isinstance(v, type):
        for f in dataclasses.fields(v):
            x = getattr(v, f.name, None)
            if _scribble(x, depth + 1):
                return True
        fs = dataclasses.fields(v)
        if fs:
            try:
                setattr(v, fs[0].name, "hv-scribble")
                return True
            except Exception:
                return False
    return False


def _needs_block_ctx(ser):
    return False


def run(ctx):
    tz = TZS[ctx.shard % len(TZS)]
    os.environ["TZ"] = tz
    time.tzset()
    ctx.cover("tz", tz)
    rng = ctx.rng
    keys = sorted(se.SUBFIELD_SERIALIZERS.keys())
    stale = []
    groups = ctx.nshards // len(TZS)
    gi = ctx.shard // len(TZS)
    for i, key in enumerate(keys):
        ser = se.SUBFIELD_SERIALIZERS[key]
        var = wire_var(key)
        if var is None:
            stale.append(list(key))
            continue
        name = ser_name(ser)
        date_bearing = "Date" in name
        # date-bearing serializers run in every time-zone shard; everything else is split over the groups
        # (each group of 3 shards covers all keys; the 3 zones see different thirds)
        if not date_bearing and (i % (groups * len(TZS))) != (gi * len(TZS) + ctx.shard % len(TZS)):
            continue
        if ctx.out_of_time():
            ctx.inconclusive_because("work budget exhausted before all serializers were visited")
            break
        ctx.cover("serializer_keys", "/".join(key))
        ctx.cover("serializer_classes", name)
        if var.type in INT_RANGES:
            check_int_key(ctx, rng, key, ser, var)
        elif var.type in (MsgType.MVT_VARIABLE, MsgType.MVT_FIXED):
            check_bytes_key(ctx, rng, key, ser, var)
        else:
            ctx.count("unsupported_wire_type")
        if len(ctx.samples) < 3:
            ctx.sample({"key": list(key), "serializer": name, "wire_type": var.type.name, "tz": tz})
    ctx.flag("stale_registrations", stale)
    ctx.count("quantised_raws_placed_in_payloads", gen_spec.RAW_TRIED[0])
    threads_phase(ctx)
    if ctx.shard == 0:
        blocks_moved_between_messages(ctx)
    encode_after_template_reload(ctx)


def replay(ctx, w):
    key = tuple(w.get("key", ()))
    if key not in se.SUBFIELD_SERIALIZERS:
        return
    if w.get("tz"):
        os.environ["TZ"] = w["tz"]
        time.tzset()
    ser = se.SUBFIELD_SERIALIZERS[key]
    var = wire_var(key)
    if var.type in INT_RANGES:
        check_int_key(ctx, ctx.rng, key, ser, var)
    else:
        check_bytes_key(ctx, ctx.rng, key, ser, var)
