"""C11 - human-readable message text round-trips to the same datagram.

Messages are generated from the template, encoded (reference encoder), decoded from the wire by the real
deserializer, printed with the real HumanMessageSerializer (plain and beautified, with and without a replacement
table), parsed back in safe mode and re-encoded: the datagram bodies must be identical.
A safe-mode monitor (audit hook on `exec`, wrapper on subfield_eval, canary callables) watches every safe parse,
including a text-level fuzz corpus.
"""
import math
import copy
import random
import sys

from .. import env

env.import_repo()

import hippolyzer.lib.base.serialization as se  # noqa: E402
import hippolyzer.lib.base.templates  # noqa: E402,F401
import hippolyzer.lib.proxy.templates  # noqa: E402,F401
from hippolyzer.lib.base.datatypes import UUID  # noqa: E402
from hippolyzer.lib.base.message import message_formatting as mf  # noqa: E402
from hippolyzer.lib.base.message.message import Block  # noqa: E402
from hippolyzer.lib.base.message.msgtypes import MsgType, MsgBlockType  # noqa: E402
from hippolyzer.lib.base.settings import Settings  # noqa: E402
from hippolyzer.lib.base.message.udpserializer import UDPMessageSerializer  # noqa: E402
from hippolyzer.lib.base.message.udpdeserializer import UDPMessageDeserializer  # noqa: E402

from .. import gen_msg, gen_spec  # noqa: E402
from ..refs import wire  # noqa: E402
from . import c09  # noqa: E402

LEVEL = "exploration"
SHARDS = {"quick": 8, "thorough": 16}
TIMEOUT_S = {"quick": 600, "thorough": 3000}
BUDGET_S = {"quick": 120, "thorough": 1500}
RULE = ("every template (quick 8 messages per template, thorough 16 x 16; x5 for templates with byte-typed registered serializers), decoded from the wire, x {plain, beautified} x "
        "{no replacement table, agent/session/circuit table}; Variable fields with a registered serializer carry payloads "
        "generated from that serializer's template so the =| path is exercised; forced awkward strings; + text fuzz for "
        "the safe-mode clause. distinct_nontrivial = distinct (message, block-count vector, beautify, table) round trips"
        ". Round-5 additions: the replacement table is the caller's - value tables, a table whose values are all zero-like, a table of callables (printed with values, parsed with callables); a directed law for what [[NAME]] stands for (table value, called if callable, whatever its truthiness; undefined names are errors)"
        ". Round 7: doubles that are exact singles; pairs of messages carrying the same payload under different switching siblings printed alternately from short-lived objects"
        ". Round 8: one long-lived message shown, edited in place field by field (values of another message of its type, neighbours kept), shown again; payloads whose trailing string lacks its terminator; texts produced before a templates reload - successful, failing at once, failing a third of the way in (injected at importlib.reload) - parsed afterwards"
        ". Round 9: only the switching sibling of a packed field is changed on a live message (every value its serializer knows); pairs found by search - bytes that are canonical under sibling value A and readable but not canonical under B - shown under A, then B (same object and a fresh message). Round 11: flag (BOOL) fields also hold the bytes that are neither 0 nor 1 (2, 255, random), shown with the template at hand")
ASSUMPTIONS = [
    "packet id, acks and extra header bytes are not part of the text: compared bodies use the same header fields",
    "float values are NaN-free (as C01); NaN has no stable textual form",
    "safe-mode monitor: any `exec` audit event, any call of subfield_eval or of a canary while "
    "from_human_string(safe=True) is on the stack is an evaluation",
]
MUST_REACH = {"flag_fields_holding_a_byte_other_than_0_or_1": 100, "directed_context_pairs": 4, "packed_fields_shown_again_under_another_sibling": 200, "messages_shown_edited_shown_again": 150, "unterminated_registered_payloads": 20, "failed_template_reloads_provoked": 2, "earlier_texts_parsed_after_reload:syntax-error": 20, "earlier_texts_parsed_after_reload:dies-midway": 20, "earlier_texts_parsed_after_reload:good": 20, "roundtrips": 800, "templates_covered": 481, "beautified_roundtrips": 300, "packed_fields_printed": 200,
              "multiline_strings": 30, "replacement_hits": 30, "safe_fuzz_texts": 300, "safe_fuzz_rejected_eval": 50,
              "registered_payload_messages": 100, "same_bytes_two_contexts": 5, "damaged_registered_payloads": 5, "degenerate_registered_payloads": 5,
              "alternating_context_message_pairs": 5, "replacement_semantics_cases": 20, "replacement_semantics_falsy_values": 4, "replacement_hits_lazy_table": 3}

_ser = UDPMessageSerializer()
_es = Settings()
_es.ENABLE_DEFERRED_PACKET_PARSING = False
_deser = UDPMessageDeserializer(settings=_es)

AGENT_ID = UUID("11111111-2222-3333-4444-555555555555")
SESSION_ID = UUID("aaaaaaaa-bbbb-cccc-dddd-eeeeeeeeeeee")
CIRCUIT_CODE = 123456789
TABLE = {"AGENT_ID": AGENT_ID, "SESSION_ID": SESSION_ID, "CIRCUIT_CODE": CIRCUIT_CODE}
# the table is the caller's: a second one whose values are all "zero-like" (a session with circuit code 0, null keys) and a
# third whose entries are computed on demand (the GUI passes e.g. UUID.random that way); 0 = no table
ZERO_TABLE = {"AGENT_ID": UUID(int=0), "SESSION_ID": UUID(int=0), "CIRCUIT_CODE": 0}
TABLES = {
    1: (TABLE, TABLE),
    2: (ZERO_TABLE, ZERO_TABLE),
    3: (TABLE, {k: (lambda v=v: v) for k, v in TABLE.items()}),       # (used for printing, used for parsing)
}

# ------------------------------------------------------------------ safe-mode monitor

_STATE = {"in_safe": 0, "exec_events": 0, "eval_calls": 0, "canary": 0, "hooked": False}


def _audit(event, args):
    if _STATE["in_safe"] and event == "exec":
        _STATE["exec_events"] += 1


def install_monitor():
    if _STATE["hooked"]:
        return
    _STATE["hooked"] = True
    sys.addaudithook(_audit)
    orig = mf.subfield_eval

    def counting_eval(*a, **k):
        if _STATE["in_safe"]:
            _STATE["eval_calls"] += 1
        return orig(*a, **k)

    mf.subfield_eval = counting_eval


def canary(*a, **k):
    _STATE["canary"] += 1
    return 0


def safe_parse(text, replacements=None):
    """from_human_string(safe=True) under the monitor. Returns (msg or exception, evaluations observed)."""
    before = (_STATE["exec_events"], _STATE["eval_calls"], _STATE["canary"])
    _STATE["in_safe"] += 1
    try:
        try:
            res = mf.HumanMessageSerializer.from_human_string(text, replacements=replacements,
                                                              env={"CANARY": canary, "canary": canary}, safe=True)
        except Exception as e:
            res = e
    finally:
        _STATE["in_safe"] -= 1
    after = (_STATE["exec_events"], _STATE["eval_calls"], _STATE["canary"])
    return res, tuple(a - b for a, b in zip(after, before))


# ------------------------------------------------------------------ what a [[NAME]] in the text stands for

def check_replacement_semantics(ctx, rng):
    """`Field = [[NAME]]` stands for the table's value for NAME (called first if it is callable), whatever that value is -
    zero, a null key, a falsy value - and only a NAME the table does not define is an error."""
    cases = []
    for code in (0, 1, 5, 2 ** 32 - 1):
        for lazy in (False, True):
            cases.append(("UseCircuitCode", "CircuitCode", "Code", code, lazy,
                          "OUT UseCircuitCode\n[CircuitCode]\n  Code = [[X]]\n  SessionID = [[S]]\n  ID = [[A]]\n"))
    for local in (0, 1, 7, 2 ** 32 - 1):
        for lazy in (False, True):
            cases.append(("ObjectSelect", "ObjectData", "ObjectLocalID", local, lazy,
                          "OUT ObjectSelect\n[AgentData]\n  AgentID = [[A]]\n  SessionID = [[S]]\n[ObjectData]\n  ObjectLocalID = [[X]]\n"))
    for key in (UUID(int=0), UUID(int=1), AGENT_ID):
        for lazy in (False, True):
            cases.append(("ObjectSelect", "AgentData", "AgentID", key, lazy,
                          "OUT ObjectSelect\n[AgentData]\n  AgentID = [[X]]\n  SessionID = [[S]]\n[ObjectData]\n  ObjectLocalID = [[L]]\n"))
    for (name, block, var, val, lazy, text) in cases:
        table = {"X": (lambda v=val: v) if lazy else val, "A": AGENT_ID, "S": SESSION_ID, "L": 3}
        wit = {"message": name, "field": f"{block}.{var}", "value": repr(val), "lazy": lazy, "text": text}
        ctx.ev()
        back, evals = safe_parse(text, table)
        if isinstance(back, Exception):
            ctx.violation("replacement-rejected:" + ("lazy" if lazy else "plain") + ":" + ("falsy" if not val or val == UUID(int=0)
                                                                                          else "other"),
                          "a [[NAME]] the table defines was rejected", dict(wit, exc=repr(back)[:200]))
            continue
        got = back[block][0][var]
        if got != val:
            ctx.violation("replacement-wrong-value", "a [[NAME]] did not stand for the table's value", dict(wit, got=repr(got)))
            continue
        ctx.count("replacement_semantics_cases")
        if not val or val == UUID(int=0):
            ctx.count("replacement_semantics_falsy_values")
        # a name the table lacks is an error, not a silent default
        back2, _ = safe_parse(text, {k: v for k, v in table.items() if k != "X"})
        if not isinstance(back2, Exception):
            ctx.violation("undefined-replacement-accepted", "a [[NAME]] the table does not define was accepted", wit)


# ------------------------------------------------------------------ round trip

def body_of(msg, like):
    msg.packet_id = like.packet_id
    msg.acks = like.acks
    data = bytes(_ser.serialize(msg))
    return data[6:]


def value_classes(msg):
    out = set()
    for blocks in msg.blocks.values():
        for b in blocks:
            for v in b.vars.values():
                if isinstance(v, float) and not math.isfinite(v):
                    out.add("nonfinite-float")
    return out


def classify_parse_error(msg, tmpl, text, exc):
    s = repr(exc)
    if isinstance(exc, ValueError) and ("malformed node" in s or "inf" in s) and "nonfinite-float" in value_classes(msg):
        return "nonfinite-scalar-float"
    return type(exc).__name__


def check_roundtrip(ctx, tmpl, spec, msg, beautify, table, wit_extra):
    ctx.ev()
    table = int(table)
    repl = dict(TABLES[table][0]) if table else None
    parse_repl = dict(TABLES[table][1]) if table else None
    wit = dict(wit_extra, message=tmpl.name, beautify=beautify, table=table)
    try:
        text = str(mf.HumanMessageSerializer.to_human_string(msg, replacements=repl, beautify=beautify, template=tmpl))
    except Exception as e:
        ctx.violation("format-raises", "to_human_string raised", dict(wit, exc=repr(e)[:300]))
        return
    if "=|" in text:
        ctx.count("packed_fields_printed", text.count("=|"))
    if " \\\n" in text:
        ctx.count("multiline_strings")
    if "[[" in text:
        ctx.count("replacement_hits")
        if table == 2:
            ctx.count("replacement_hits_zero_valued_table")
        if table == 3:
            ctx.count("replacement_hits_lazy_table")
    back, evals = safe_parse(text, parse_repl)
    if any(evals):
        ctx.violation("safe-mode-evaluated", "safe-mode parsing of the proxy's own text evaluated code",
                      dict(wit, text=text[:600], evals=list(evals)))
        return
    if isinstance(back, Exception):
        ctx.violation("parse-raises:" + classify_parse_error(msg, tmpl, text, back),
                      "the proxy's own text does not parse back in safe mode",
                      dict(wit, text=text[:1200], exc=repr(back)[:300]))
        return
    try:
        want = body_of(msg, msg)
    except Exception as e:
        ctx.count("original_not_encodable")
        return
    try:
        back.direction = msg.direction
        got = body_of(back, msg)
    except Exception as e:
        ctx.violation("reencode-raises:" + _empty_tag(spec), "the parsed-back message cannot be encoded",
                      dict(wit, text=text[:1200], exc=repr(e)[:300]))
        return
    if int(back.send_flags) != int(msg.send_flags):
        ctx.violation("flags-differ", "packet flags differ after the text round trip",
                      dict(wit, text=text[:300], got=int(back.send_flags), want=int(msg.send_flags)))
        return
    if got != want:
        ctx.violation("body-differs:" + diff_class(tmpl, msg, back, spec), "text round trip changes the datagram body",
                      dict(wit, text=text[:1500], want=want[:300], got=got[:300]))
        return
    ctx.count("roundtrips")
    if beautify:
        ctx.count("beautified_roundtrips")
    ctx.cover("templates", tmpl.name)
    ctx.nontrivial((tmpl.name, tuple(len(e or ()) for _, e in spec["blocks"]), beautify, table))
    if len(ctx.samples) < 3 and 80 < len(text) < 600 and beautify:
        ctx.sample({"message": tmpl.name, "beautify": beautify, "text": text})


def _empty_tag(spec):
    return "empty-variable-block" if any(e is not None and len(e) == 0 for _, e in spec["blocks"]) else "other"


def diff_class(tmpl, msg, back, spec):
    if any(e is not None and len(e) == 0 for _, e in spec["blocks"]):
        if set(back.blocks.keys()) != set(msg.blocks.keys()):
            return "empty-variable-block-lost"
    for bname, blist in msg.blocks.items():
        other = back.blocks.get(bname)
        if other is None or len(other) != len(blist):
            return "block-count"
        tb = tmpl.get_block(bname)
        for b1, b2 in zip(blist, other):
            for var in tb.variables:
                v1, v2 = b1.vars.get(var.name), b2.vars.get(var.name)
                if not (v1 == v2) or type(v1) is not type(v2) and isinstance(v1, (bytes, str)) != isinstance(v2, (bytes, str)):
                    key = (msg.name, bname, var.name)
                    reg = "registered" if key in se.SUBFIELD_SERIALIZERS else "plain"
                    return f"{var.type.name}:{reg}:{type(v1).__name__}->{type(v2).__name__}"
    return "other"


# ------------------------------------------------------------------ workload

def registered_payload(rng, key, block_vals):
    """A payload for a byte-typed registered serializer, generated from its own template (as C09)."""
    ser = se.SUBFIELD_SERIALIZERS[key]
    ctxs = [c for c in c09.contexts_for(key, ser) if c[2] is not se.UNSERIALIZABLE and c[2] is not None]
    if not ctxs:
        return None, {}
    label, block, tmpl = rng.choice(ctxs)
    r = rng.random()
    if r < 0.12:
        # degenerate payloads: explicit "nothing" encodings (a zero count)
        # built straight from the serializer's template (not through its serialize(), whose special cases are under test):
        # the template's own encoding of an empty container
        for empty in ({}, [], ()):
            try:
                w = se.BufferWriter(getattr(ser, "ENDIANNESS", "<"))
                w.write(tmpl, empty)
                cand = bytes(w.copy_buffer())
                dec = ser.deserialize(block, cand)
                if cand and isinstance(dec, (dict, list, tuple)) and len(dec) == 0:
                    _STATE["degenerate_registered_payloads"] = _STATE.get("degenerate_registered_payloads", 0) + 1
                    return cand, dict(block.vars)
            except Exception:
                continue
    for _ in range(6):
        try:
            v = gen_spec.Deriver(random.Random(rng.getrandbits(32)), size_budget=10).gen(tmpl)
            p = ser.serialize(block, v)
            if p is se.UNSERIALIZABLE:
                return None, {}
            p = bytes(p)
            if r < 0.4:
                # a string member that is not valid UTF-8 on the wire (latin-1 text, a cut multi-byte sequence): whatever the
                # pretty-printer makes of it, the text has to bring back exactly these bytes
                strs = [x for x in _strings_in(v) if len(x.encode("utf8")) >= 4]
                if strs:
                    raw = rng.choice(strs).encode("utf8")
                    at = p.find(raw)
                    if at >= 0 and p.count(raw) == 1:
                        b = bytearray(p)
                        b[at + rng.randrange(len(raw))] = rng.choice([0xFF, 0xE9, 0xC3])
                        if bytes(b) != p:
                            p = bytes(b)
                            _STATE["damaged_registered_payloads"] = _STATE.get("damaged_registered_payloads", 0) + 1
            elif r < 0.55 and p.endswith(b"\x00") and len(p) > 1:
                # the sender left the terminator of a trailing string off (they do): still a payload the field can carry, and one
                # the serializer itself would not write
                p = p[:-1]
                _STATE["unterminated_registered_payloads"] = _STATE.get("unterminated_registered_payloads", 0) + 1
            return p, dict(block.vars)
        except Exception:
            continue
    return None, {}


def _strings_in(v, depth=0):
    import dataclasses
    if depth > 6:
        return
    if isinstance(v, str):
        yield v
    elif isinstance(v, dict):
        for x in v.values():
            yield from _strings_in(x, depth + 1)
    elif isinstance(v, (list, tuple)):
        for x in v:
            yield from _strings_in(x, depth + 1)
    elif dataclasses.is_dataclass(v) and not isinstance(v, type):
        for f in dataclasses.fields(v):
            yield from _strings_in(getattr(v, f.name, None), depth + 1)
    elif hasattr(v, "value") and hasattr(v, "tag"):
        yield from _strings_in(v.value, depth + 1)


def _same_bytes_other_context(rng, key, payload, siblings):
    """Sibling values of another context in which the very same payload bytes are a valid encoding, or None."""
    ser = se.SUBFIELD_SERIALIZERS[key]
    try:
        ctxs = c09.contexts_for(key, ser)
    except Exception:
        return None
    rng.shuffle(ctxs)
    for label, block, tmpl in ctxs:
        sib = {k: v for k, v in block.vars.items() if isinstance(v, int)}
        if not sib or all(siblings.get(k) == v for k, v in sib.items()):
            continue
        try:
            d = ser.deserialize(block, payload)
            if d is se.UNSERIALIZABLE or bytes(ser.serialize(block, d)) != payload:
                continue
            if repr(gen_spec.canon(d)) == repr(gen_spec.canon(ser.deserialize(_block_with(key, siblings), payload))):
                continue          # prints the same anyway
        except Exception:
            continue
        return sib
    return None


def _block_with(key, siblings):
    return c09.make_block(key, **{k: v for k, v in siblings.items() if isinstance(v, int)})


def inject_registered_payloads(rng, tmpl, spec):
    """Replace Variable fields that have a registered serializer by payloads the serializer can decode."""
    touched = False
    for (bname, entries) in spec["blocks"]:
        if not entries:
            continue
        tb = tmpl.get_block(bname)
        for var in tb.variables:
            key = (tmpl.name, bname, var.name)
            if key not in se.SUBFIELD_SERIALIZERS:
                continue
            if var.type not in (MsgType.MVT_VARIABLE, MsgType.MVT_FIXED):
                # an integer field whose meaning is switched by a sibling (ObjectUpdate State by PCode, ...): give the
                # sibling one of the values that select a sub-serializer, otherwise the identity option is all that runs
                try:
                    ctxs = c09.contexts_for(key, se.SUBFIELD_SERIALIZERS[key])
                except Exception:
                    ctxs = []
                if len(ctxs) > 1:
                    for ent in entries:
                        if rng.random() < 0.7:
                            _, cblock, _ = rng.choice(ctxs)
                            for sk, sv in cblock.vars.items():
                                if sk in ent and sk != var.name and isinstance(sv, int):
                                    ent[sk] = ["i", int(sv)]
                                    touched = True
                continue
            for ent in entries:
                p, siblings = registered_payload(rng, key, ent)
                if p is None or len(p) > gen_msg.var_max_len(var):
                    continue
                ent[var.name] = ["b", p]
                for sk, sv in siblings.items():
                    if sk in ent and isinstance(sv, int):
                        ent[sk] = ["i", sv]
                touched = True
                # the same bytes under ANOTHER value of the switching sibling, in a neighbouring block of the same message:
                # what the bytes mean (and print as) depends on the sibling, not on the bytes alone
                if len(entries) >= 2 and rng.random() < 0.6:
                    other = _same_bytes_other_context(rng, key, p, siblings)
                    if other is not None:
                        ent2 = rng.choice([e for e in entries if e is not ent])
                        ent2[var.name] = ["b", p]
                        for sk, sv in other.items():
                            if sk in ent2 and isinstance(sv, int):
                                ent2[sk] = ["i", sv]
                        _STATE["same_bytes_two_contexts"] = _STATE.get("same_bytes_two_contexts", 0) + 1
    return touched


def alternate_single_context_messages(ctx, tmpl, spec):
    """Two messages that carry the very same payload bytes under different values of the switching sibling, printed one after
    the other, again and again, each from a freshly decoded object that is dropped right afterwards: whatever the printer
    remembers between calls (by object identity, by bytes) must not let one message's form leak into the other's."""
    import copy
    for bi, (bname, entries) in enumerate(spec["blocks"]):
        if not entries or len(entries) < 2:
            continue
        tb = tmpl.get_block(bname)
        for var in tb.variables:
            key = (tmpl.name, bname, var.name)
            if key not in se.SUBFIELD_SERIALIZERS or var.type not in (MsgType.MVT_VARIABLE, MsgType.MVT_FIXED):
                continue
            for i, e1 in enumerate(entries):
                for e2 in entries[i + 1:]:
                    if e1[var.name] == e2[var.name] and e1[var.name][0] == "b" and len(e1[var.name][1]) >= 4 and \
                            any(e1[k] != e2[k] for k in e1 if e1[k][0] == "i"):
                        variants = []
                        for e in (e1, e2):
                            s2 = copy.deepcopy(spec)
                            s2["blocks"][bi] = (bname, [copy.deepcopy(e)]) if isinstance(spec["blocks"][bi], tuple) else [bname, [copy.deepcopy(e)]]
                            if tb.block_type == MsgBlockType.MBT_MULTIPLE:
                                return
                            variants.append(s2)
                        for rep in range(6):
                            s2 = variants[rep % 2]
                            try:
                                m = _deser.deserialize(wire.ref_encode(tmpl, s2))
                            except Exception:
                                return
                            check_roundtrip(ctx, tmpl, s2, m, True, 0, {"spec": s2, "alternating": True})
                            del m
                        ctx.count("alternating_context_message_pairs")
                        return


def shown_edited_shown(ctx, rng, tmpl, spec, data):
    """One long-lived message object, as a log window or an addon holds it: shown, edited in place (some of its fields take the
    values of another message of the same type, their neighbours stay), shown again. The text shown the second time has to be
    the text of the message as it is then."""
    spec2 = gen_msg.limit_for_zerocode(rng, tmpl, {"flags": spec["flags"], "p_extra": 0, "max_var_len": 300, "small_block": 8})
    spec2["acks"] = []
    spec2["extra"] = b""
    inject_registered_payloads(rng, tmpl, spec2)
    try:
        m = _deser.deserialize(data)
        other = _deser.deserialize(wire.ref_encode(tmpl, spec2))
    except Exception:
        return
    m.direction = rng.choice(list(type(m.direction)))
    before = ctx.counters.get("roundtrips", 0)
    check_roundtrip(ctx, tmpl, spec, m, True, 0, {"spec": spec, "shown": 1})
    if ctx.counters.get("roundtrips", 0) == before:
        return
    # first the narrowest edit there is: only the sibling that says how a packed field is to be read, through every value the
    # field's serializer knows - the payload bytes stay (whether or not they are what that reading would have written)
    switched = 0
    for bn, blks in m.blocks.items():
        for k, mb in enumerate(blks):
            for vn in list(mb.vars):
                key = (tmpl.name, bn, vn)
                ser = se.SUBFIELD_SERIALIZERS.get(key)
                if ser is None or not isinstance(mb.vars[vn], (bytes, bytearray)):
                    continue
                try:
                    ctxs = c09.contexts_for(key, ser)
                except Exception:
                    continue
                rng.shuffle(ctxs)
                for label, cblock, _ in ctxs[:6]:
                    sib = {sk: sv for sk, sv in cblock.vars.items() if sk != vn and sk in mb.vars and isinstance(sv, int)}
                    if not sib or all(mb.vars.get(sk) == sv for sk, sv in sib.items()):
                        continue
                    for sk, sv in sib.items():
                        mb[sk] = sv
                    switched += 1
                    ctx.count("packed_fields_shown_again_under_another_sibling")
                    check_roundtrip(ctx, tmpl, spec, m, True, 0, {"spec": spec, "kind": "sibling-switched", "field": [bn, k, vn],
                                                                 "siblings_now": {a: int(b) for a, b in sib.items()}})
                    if switched >= 8:
                        break
    for rnd in range(2):
        edited = []
        for bn, blks in m.blocks.items():
            for k, (mb, ob) in enumerate(zip(blks, other.blocks.get(bn, []))):
                for vn in list(mb.vars):
                    if vn in ob.vars and rng.random() < (0.35 if rnd == 0 else 0.6):
                        try:
                            mb[vn] = ob[vn]
                        except Exception as e:
                            ctx.violation("edit-raises", "setting a field of a decoded message raised", {"spec": spec, "field": [bn, k, vn],
                                                                                                    "exc": repr(e)[:200]})
                            return
                        edited.append([bn, k, vn])
        if not edited:
            continue
        ctx.count("messages_shown_edited_shown_again")
        check_roundtrip(ctx, tmpl, spec, m, True, 0, {"spec": spec, "spec2": spec2, "edited_in_place": edited[:40], "shown": 2 + rnd,
                                                     "kind": "shown-edited-shown"})


_PAIR_CACHE = {}


def noncanonical_context_pairs(key, seed):
    """For a byte field read according to a sibling: payloads that are exactly what the serializer writes under sibling value A
    and, read under sibling value B, decode fine but are NOT what it would write there (a trailing string without its
    terminator): [(siblings A, siblings B, payload)]. Found by search, once per process."""
    if key in _PAIR_CACHE:
        return _PAIR_CACHE[key]
    out = []
    ser = se.SUBFIELD_SERIALIZERS[key]
    try:
        ctxs = [c for c in c09.contexts_for(key, ser) if c[2] is not None and c[2] is not se.UNSERIALIZABLE]
    except Exception:
        ctxs = []
    rnd = random.Random(f"pairs:{key}:{seed}")
    if len(ctxs) >= 2:
        for lb, bblock, btmpl in ctxs:
            cands = []
            for t in range(40):
                try:
                    v = gen_spec.Deriver(random.Random(rnd.getrandbits(32)), size_budget=6).gen(btmpl)
                    q = bytes(ser.serialize(bblock, v))
                except Exception:
                    continue
                if len(q) > 1 and q.endswith(b"\x00"):
                    cands.append(q[:-1])
            for q1 in cands:
                try:
                    d = ser.deserialize(bblock, q1)
                    if d is se.UNSERIALIZABLE or bytes(ser.serialize(bblock, d)) == q1:
                        continue
                except Exception:
                    continue
                for la, ablock, atmpl in ctxs:
                    if la == lb:
                        continue
                    try:
                        da = ser.deserialize(ablock, q1)
                        if da is se.UNSERIALIZABLE or bytes(ser.serialize(ablock, da)) != q1:
                            continue
                    except Exception:
                        continue
                    sa = {k: int(v) for k, v in ablock.vars.items() if isinstance(v, int)}
                    sb = {k: int(v) for k, v in bblock.vars.items() if isinstance(v, int)}
                    out.append((sa, sb, q1))
                    break
                if len(out) >= 12:
                    break
            if len(out) >= 12:
                break
    _PAIR_CACHE[key] = out
    return out


def directed_context_pairs(ctx, rng):
    """A message whose packed field is exactly what the serializer writes under its sibling's value is shown; then the sibling is
    set to a value under which the same bytes still read fine but are not what would be written (in place, or in another message
    with the same bytes). Both texts stand for their datagram bodies - whatever the printer remembers about those bytes."""
    by_name = {t.name: t for t in gen_msg.all_templates()}
    for key in sorted(se.SUBFIELD_SERIALIZERS):
        tmpl = by_name.get(key[0])
        if tmpl is None:
            continue
        try:
            var = [v for v in tmpl.get_block(key[1]).variables if v.name == key[2]][0]
        except Exception:
            continue
        if var.type not in (MsgType.MVT_VARIABLE, MsgType.MVT_FIXED):
            continue
        pairs = noncanonical_context_pairs(key, ctx.seed)
        for sa, sb, payload in pairs[:6]:
            if len(payload) > gen_msg.var_max_len(var):
                continue
            spec = gen_msg.limit_for_zerocode(rng, tmpl, {"flags": 0, "p_extra": 0, "max_var_len": 100, "small_block": 2, "p_omit": 0})
            spec["acks"] = []
            spec["extra"] = b""
            ents = dict((bn, e) for bn, e in spec["blocks"]).get(key[1])
            if not ents:
                continue
            ent = ents[0]
            ent[key[2]] = ["b", payload]
            for sk, sv in sa.items():
                if sk in ent:
                    ent[sk] = ["i", sv]
            try:
                data = wire.ref_encode(tmpl, spec)
                m = _deser.deserialize(data)
            except Exception:
                continue
            ctx.count("directed_context_pairs")
            wit = {"spec": spec, "kind": "context-pair", "field": list(key), "siblings_a": sa, "siblings_b": sb}
            check_roundtrip(ctx, tmpl, spec, m, True, 0, dict(wit, shown="under A"))
            blk = m.blocks[key[1]][0]
            for sk, sv in sb.items():
                if sk in blk.vars:
                    blk[sk] = sv
            check_roundtrip(ctx, tmpl, spec, m, True, 0, dict(wit, shown="same object, sibling now B"))
            # and a second message that has always been B, decoded fresh
            spec_b = copy.deepcopy(spec)
            ent_b = dict((bn, e) for bn, e in spec_b["blocks"])[key[1]][0]
            for sk, sv in sb.items():
                if sk in ent_b:
                    ent_b[sk] = ["i", sv]
            try:
                mb = _deser.deserialize(wire.ref_encode(tmpl, spec_b))
            except Exception:
                continue
            check_roundtrip(ctx, tmpl, spec_b, mb, True, 0, dict(wit, spec=spec_b, shown="another message under B"))


def texts_across_template_reloads(ctx, rng, corpus):
    """Text the proxy showed earlier (a log window, a saved message) is parsed later. In between, the library may have reloaded its
    templates module (it does whenever the file looks newer - checked at every parse) - successfully, or not: a half-written save
    does not import. Either way the earlier text still stands for the same datagram body. No file is touched: the remembered time
    stamp is made to look old, and the failing import is injected at importlib.reload. Runs last in its shard."""
    import types
    import importlib as real_importlib
    import hippolyzer.lib.base.message.message as msgmod
    held = []
    for tmpl, spec, data in corpus:
        try:
            m = _deser.deserialize(data)
            text = str(mf.HumanMessageSerializer.to_human_string(m, beautify=True, template=tmpl))
            want = body_of(m, m)
        except Exception:
            continue
        back, _ = safe_parse(text)
        if isinstance(back, Exception):
            continue
        try:
            back.direction = m.direction
            if body_of(back, m) != want:
                continue
        except Exception:
            continue
        held.append((tmpl.name, spec, text, want, m.packet_id, tuple(m.acks), m.direction))
    if len(held) < 10:
        ctx.inconclusive_because("too few beautified texts to carry across a template reload")
        return
    ctx.count("texts_held_across_template_reloads", len(held))
    ctx.count("packed_fields_held_across_template_reloads", sum(t[2].count("=|") for t in held))

    def parse_all(phase):
        for name, spec, text, want, pid, acks, direction in held:
            ctx.ev()
            back, evals = safe_parse(text)
            wit = {"kind": "reload", "phase": phase, "message": name, "text": text[:1200], "spec": spec}
            if isinstance(back, Exception):
                ctx.violation("earlier-text-refused:" + phase, "text produced before the templates module was reloaded no longer parses",
                              dict(wit, exc=repr(back)[:300]))
                return False
            try:
                back.packet_id, back.acks, back.direction = pid, acks, direction
                got = bytes(_ser.serialize(back))[6:]
            except Exception as e:
                ctx.violation("earlier-text-not-encodable:" + phase, "text produced before the templates module was reloaded parses to a "
                              "message that cannot be encoded", dict(wit, exc=repr(e)[:300]))
                return False
            if got != want:
                ctx.violation("earlier-text-means-something-else:" + phase, "text produced before the templates module was reloaded "
                              "parses to another datagram body", dict(wit, want=want[:200], got=got[:200]))
                return False
            ctx.count("earlier_texts_parsed_after_reload:" + phase)
        return True

    def failing(kind):
        def reload(mod):
            _STATE["reload_faults"] = _STATE.get("reload_faults", 0) + 1
            if kind == "dies-midway":
                # the first part of the file runs (re-registering what it defines), then the import dies
                src = open(mod.__file__, encoding="utf8").read().splitlines(keepends=True)
                cut = len(src) // 3
                while cut < len(src) and (src[cut][:1] in " \t)]}" or not src[cut].strip()):
                    cut += 1
                try:
                    exec(compile("".join(src[:cut]), mod.__file__, "exec"), mod.__dict__)
                except SyntaxError:
                    pass
                raise NameError("name 'half_written' is not defined")
            raise SyntaxError("unexpected EOF while parsing (half-written save)")
        return types.SimpleNamespace(reload=reload)

    phases = ["syntax-error", "dies-midway", "good"] if ctx.shard % 2 else ["good", "syntax-error", "dies-midway", "good"]
    try:
        for phase in phases:
            msgmod.importlib = real_importlib if phase == "good" else failing(phase)
            msgmod._TEMPLATES_MTIME = 0
            before = _STATE.get("reload_faults", 0)
            old = dict(se.SUBFIELD_SERIALIZERS)
            ok = parse_all(phase)
            if phase == "good":
                if old and all(se.SUBFIELD_SERIALIZERS.get(k) is v for k, v in old.items()):
                    ctx.inconclusive_because("template reload did not re-register the serializers")
                    return
                ctx.count("template_reloads_provoked")
            else:
                if _STATE.get("reload_faults", 0) == before:
                    ctx.inconclusive_because("the failing templates import was never reached")
                    return
                ctx.count("failed_template_reloads_provoked")
            if not ok:
                return
    finally:
        msgmod.importlib = real_importlib
        msgmod._TEMPLATES_MTIME = 0
        try:
            Message_ = msgmod.Message
            Message_("TestMessage")
        except Exception:
            pass


def force_awkward_strings(rng, tmpl, spec):
    for (bname, entries) in spec["blocks"]:
        if not entries:
            continue
        tb = tmpl.get_block(bname)
        for var in tb.variables:
            if var.type == MsgType.MVT_VARIABLE and (tmpl.name, bname, var.name) not in se.SUBFIELD_SERIALIZERS:
                maxlen = gen_msg.var_max_len(var)
                text_like = gen_msg.is_text_like(var)
                for ent in entries:
                    r = rng.random()
                    if r < 0.25:
                        s = "\n".join(rng.choice(["line", "'q'", "\"dq\"", "back\\", "# not a comment", "<1,2,3>", "[Blk]",
                                                  "x = 1", "=$ 1+1", "a-b-c", ""]) for _ in range(rng.randint(5, 9)))
                        if rng.random() < 0.5:
                            s += "\n"
                        if text_like and len(s.encode()) + 1 <= maxlen:
                            ent[var.name] = ["s", s.rstrip("\x00")]
                        elif len(s.encode()) <= maxlen:
                            ent[var.name] = ["b", s.encode()]
                    elif r < 0.35:
                        b = rng.choice([b"\xff\xfe\n" * 6, b"\x00\n\x00", b"'\n" * 7, b"\\\n" * 6, b"#\n" * 6])
                        if len(b) <= maxlen:
                            ent[var.name] = ["b", b if not (text_like and b.endswith(b"\x00")) else b + b"\x01"]


def finite_or_vector(spec):
    """keep NaN out (gen_msg never makes NaN); nothing to do - placeholder for symmetry with C12"""
    return True


FUZZ_TEMPLATES = [
    "OUT ChatFromViewer\n\n[AgentData]\n  AgentID = {uuid}\n  SessionID = {uuid}\n[ChatData]\n  Message {op} {val}\n  Type = 1\n  Channel = 0\n",
    "OUT ChatFromViewer {opt}\n\n[AgentData]\n  AgentID {op} {val}\n  SessionID = {uuid}\n[ChatData]\n  Message = 'x'\n  Type {op} {val}\n  Channel = 0\n",
    "IN ObjectUpdate\n\n[RegionData]\n  RegionHandle = 1\n  TimeDilation {op} {val}\n[ObjectData]\n  ID = 1\n  State {op} {val}\n  TextureEntry {op} {val}\n",
    "OUT ViewerEffect\n[AgentData]\n  AgentID = {uuid}\n  SessionID = {uuid}\n[Effect]\n  ID = {uuid}\n  AgentID = {uuid}\n  Type = 7\n  Duration = 1.0\n  Color = b'\\x00\\x00\\x00\\x00'\n  TypeData {op} {val}\n",
    "OUT ChatFromViewer\n\n[{val}]\n  Message = 'x'\n",
    "OUT ChatFromViewer\n\n[ChatData]\n  Message = 'a' \\\n    {val}\n  Type {op} \\\n {val}\n",
]
FUZZ_OPS = ["=", "=$", "=|", "=|$", "=$|", "=$$", "=||", "= $", "=$ |", "=|$|$", "==$", "=\t$"]
FUZZ_VALS = ["CANARY()", "canary(1)", "__import__('os').getpid()", "1+1", "block", "[CANARY() for _ in range(1)]",
             "(lambda: CANARY())()", "'abc'", "b'x'", "1", "{'a': CANARY()}", "eval('CANARY()')", "UUID.random()",
             "llsd.parse(b'')", "math.pi", "[[AGENT_ID]]", "<1, 2, 3>", "'a' $ CANARY()", "0 #$ CANARY()",
             "CANARY() #|", "f'{CANARY()}'", "(CANARY(),)",
             # expressions built around tokens a 'tolerant' literal parser might special-case
             "[nan, 2.5][1]", "nan", "[nan, CANARY()][1]", "inf - inf", "[inf, 1][0]", "1e999 - 1e999", "-nan", "(nan, 1)[1] + 1",
             "{'nan': 1}['nan']", "None or 5", "True and 2", "not 1", "1 if True else 2", "2**10", "'a' 'b'", "-(-1)", "~5",
             "[1, 2][0]", "(1).real", "().__class__.__name__", "dict(a=1)", "set()", "1 < 2", "[x for x in (1,)]", "b'a' * 3"]


def safe_fuzz(ctx, rng):
    n = ctx.pick(400, 20000)
    for i in range(n):
        tpl = rng.choice(FUZZ_TEMPLATES)
        text = tpl
        while "{op}" in text or "{val}" in text or "{uuid}" in text or "{opt}" in text:
            text = text.replace("{op}", rng.choice(FUZZ_OPS), 1).replace("{val}", rng.choice(FUZZ_VALS), 1) \
                .replace("{uuid}", str(UUID(int=rng.getrandbits(128))), 1).replace("{opt}", rng.choice(["[RELIABLE]", "[$]", "[=$]", "5"]), 1)
        if rng.random() < 0.3:
            # splice a continuation line
            lines = text.split("\n")
            k = rng.randrange(len(lines))
            lines[k] = lines[k] + " \\"
            text = "\n".join(lines)
        ctx.ev()
        ctx.count("safe_fuzz_texts")
        res, evals = safe_parse(text, dict(TABLE, CANARY=canary) if rng.random() < 0.3 else None)
        if any(evals):
            ctx.violation("safe-mode-evaluated", "safe-mode parsing evaluated an expression contained in the text",
                          {"text": text, "exec_events": evals[0], "subfield_eval_calls": evals[1], "canary_calls": evals[2]})
        elif isinstance(res, Exception) and "$" in text:
            ctx.count("safe_fuzz_rejected_eval")
        ctx.nontrivial(("fuzz", text))


def _context_switched_int_keys():
    out = set()
    for key, ser in se.SUBFIELD_SERIALIZERS.items():
        try:
            if len(c09.contexts_for(key, ser)) > 1 and c09.wire_var(key) is not None and \
                    c09.wire_var(key).type not in (MsgType.MVT_VARIABLE, MsgType.MVT_FIXED):
                out.add(key)
        except Exception:
            pass
    return out


_CONTEXT_SWITCHED_INT_KEYS = _context_switched_int_keys()


_RELOAD_CORPUS = []


def run(ctx):
    install_monitor()
    rng = ctx.rng
    templates = gen_msg.all_templates()
    per_template = ctx.pick(8, 16)
    for ti, tmpl in enumerate(templates):
        has_registered = any((tmpl.name, b.name, v.name) in _CONTEXT_SWITCHED_INT_KEYS or (tmpl.name, b.name, v.name) in se.SUBFIELD_SERIALIZERS and
                             v.type in (MsgType.MVT_VARIABLE, MsgType.MVT_FIXED) for b in tmpl.blocks for v in b.variables)
        for k in range(per_template * (5 if has_registered else 1)):
            if ctx.quick and not ctx.mine(ti * per_template + k):
                continue
            if ctx.out_of_time():
                ctx.inconclusive_because("work budget exhausted before all templates were visited")
                return
            flags = 0
            for bit in (0x80, 0x40, 0x20):
                if rng.random() < 0.3:
                    flags |= bit
            if rng.random() < 0.1:
                flags |= rng.randint(1, 15)
            spec = gen_msg.limit_for_zerocode(rng, tmpl, {"flags": flags, "p_extra": 0, "max_var_len": 300, "small_block": 8,
                                                           "p_omit": 0.1, "bool_bytes": True})
            spec["acks"] = []
            spec["extra"] = b""
            if gen_msg.STATS["bool_bytes"]:
                ctx.count("flag_fields_holding_a_byte_other_than_0_or_1", gen_msg.STATS["bool_bytes"])
                gen_msg.STATS["bool_bytes"] = 0
            if inject_registered_payloads(rng, tmpl, spec):
                ctx.count("registered_payload_messages")
            force_awkward_strings(rng, tmpl, spec)
            # the replacement table needs matching values now and then
            tv = rng.choice([1, 1, 2, 3])
            tvals = TABLES[tv][0]
            for (bname, entries) in spec["blocks"]:
                for ent in entries or ():
                    if bname == "AgentData" and rng.random() < 0.5:
                        if "AgentID" in ent and ent["AgentID"][0] == "u":
                            ent["AgentID"] = ["u", str(tvals["AGENT_ID"])]
                        if "SessionID" in ent and ent["SessionID"][0] == "u":
                            ent["SessionID"] = ["u", str(tvals["SESSION_ID"])]
                    if "Code" in ent and ent["Code"][0] == "i" and "Circuit" in bname:
                        ent["Code"] = ["i", tvals["CIRCUIT_CODE"]]
            try:
                data = wire.ref_encode(tmpl, spec)
                msg = _deser.deserialize(data)
            except Exception:
                ctx.count("corpus_build_failed")
                continue
            msg.direction = rng.choice(list(type(msg.direction)))
            if has_registered and len(_RELOAD_CORPUS) < 120 and rng.random() < 0.5:
                _RELOAD_CORPUS.append((tmpl, spec, data))
            for beautify in (False, True):
                for table in (0, tv):
                    # every message object is printed from a fresh decode (printing may fill per-block caches)
                    m = _deser.deserialize(data)
                    m.direction = msg.direction
                    check_roundtrip(ctx, tmpl, spec, m, beautify, table, {"spec": spec})
            del m
            alternate_single_context_messages(ctx, tmpl, spec)
            if has_registered or rng.random() < 0.15:
                shown_edited_shown(ctx, rng, tmpl, spec, data)
    ctx.count("same_bytes_two_contexts", _STATE.get("same_bytes_two_contexts", 0))
    ctx.count("damaged_registered_payloads", _STATE.get("damaged_registered_payloads", 0))
    ctx.count("degenerate_registered_payloads", _STATE.get("degenerate_registered_payloads", 0))
    ctx.count("unterminated_registered_payloads", _STATE.get("unterminated_registered_payloads", 0))
    safe_fuzz(ctx, rng)
    if ctx.shard % 4 == 3 or ctx.nshards < 4:
        directed_context_pairs(ctx, rng)
    if ctx.shard == 0:
        check_replacement_semantics(ctx, rng)
    if ctx.shard % 4 in (1, 2):
        texts_across_template_reloads(ctx, rng, _RELOAD_CORPUS)


def replay(ctx, w):
    install_monitor()
    if "spec" in w:
        spec = w["spec"]
        tmpl = gen_msg.DEFAULT_TEMPLATE_DICT[spec["name"]]
        msg = _deser.deserialize(wire.ref_encode(tmpl, spec))
        check_roundtrip(ctx, tmpl, spec, msg, w.get("beautify", False), w.get("table", False), {"spec": spec})
    elif "text" in w:
        res, evals = safe_parse(w["text"], None)
        if any(evals):
            ctx.violation("safe-mode-evaluated", "safe-mode parsing evaluated an expression", {"text": w["text"]})
