"""C01 - LLUDP codec: every template-conformant message round-trips by value.

Workload: the template-directed generator over every template; the real serializer and the real
(eager) deserializer; oracles: value equality, byte identity with an independent struct-based
reference encoder, and a template walker for the default-fill clause.
"""
import copy as _copy
from .. import env

env.import_repo()

from hippolyzer.lib.base.datatypes import UUID  # noqa: E402
from hippolyzer.lib.base.settings import Settings  # noqa: E402
from hippolyzer.lib.base.message.msgtypes import MsgType  # noqa: E402
from hippolyzer.lib.base.message.udpserializer import UDPMessageSerializer  # noqa: E402
from hippolyzer.lib.base.message.udpdeserializer import UDPMessageDeserializer  # noqa: E402

from ..refs import wire  # noqa: E402
from .. import gen_msg  # noqa: E402

LEVEL = "exploration"
SHARDS = {"quick": 8, "thorough": 16}
TIMEOUT_S = {"quick": 600, "thorough": 3000}
BUDGET_S = {"quick": 90, "thorough": 1500}
RULE = ("template-directed generation over all templates (every template in every run; quick 24 messages per template, "
        "thorough 16 shards x 300): block counts 0..255, wire-domain values per type, every flag subset incl. unknown "
        "low bits, 0-255 acks, 0-255 extra bytes, trailing Single blocks omitted, default-filled blocks with random "
        "unset variables. distinct_nontrivial = distinct (message, block-count vector, flags, #acks, #extra, unset set)"
        ". Round-5 additions: every third round trip, the datagram is decoded again the proxy's way (body on demand), one header property of the received message (extra bytes set / zeroed / cleared, ZEROCODED flipped, acks set / cleared, packet id, RELIABLE flipped, two edits at once; a fifth of them after the body was looked at) is changed and the message encoded again: it must decode to the same blocks with the edited header and equal the reference encoding. Every sixth case is repeated through a serializer / deserializer pair built on a caller-supplied template (hv/custom_template.py: same names, other wire types for ~20% of the variables), then the stock pair again. Which Fixed/Variable fields are text is the harness's own copy of the naming rule, not the template object's answer"
        ". Rounds 6-7: the same round trips through a pair built on a caller-supplied template file that is revised in place (same / older time stamp); shared serializer and deserializer called from four threads at once; a fingerprint of the stock template dictionary is compared after custom dictionaries were built"
        ". Round 8: coordinates of a decoded message edited in place, then the same datagram decoded again (the second result is the datagram's). Round 11: every third message is encoded through a deep copy of the built object (blocks marked for default filling included)")
ASSUMPTIONS = [
    "value domain = the decoder's canonical Python forms: str without trailing NUL for text-named Variable fields, "
    "bytes otherwise; float32-representable F32s; NaN excluded; quaternion W derived from X,Y,Z",
    "the parsed template objects (message numbers, block kinds, variable types/sizes) are shared with the reference encoder",
    "zero-coded messages are kept under the decoder's 0x3000 expansion cap (the cap is C03's subject)",
]
MUST_REACH = {"copies_encoded_with_variables_left_to_default_filling": 100, 
    "roundtrips": 400, "templates_covered": 481, "zerocoded": 20, "with_acks": 20, "with_extra": 20,
    "fill_cases": 50, "fill_mixed_marks_in_one_list": 10, "failed_serializations_before_good_ones": 30, "serialized_twice": 100, "fill_unset_fixed": 1, "fill_unset_variable": 1, "omitted_trailing": 5, "count_255": 1, "count_0": 5,
    "ref_bytes_equal": 400, "roundtrips_custom_template": 300, "template_file_loads": 10, "decoded_coordinates_edited_in_place": 100, "calls_from_concurrent_threads": 500, "header_edits_on_received": 100, "header_edits_on_zerocoded": 10, "header_edits_after_body_parse": 10,
}

_ser = UDPMessageSerializer()
_settings = Settings()
_settings.ENABLE_DEFERRED_PACKET_PARSING = False
_deser = UDPMessageDeserializer(settings=_settings)

_TD = gen_msg.DEFAULT_TEMPLATE_DICT


class custom_config:
    """Run the same check against a serializer / deserializer pair built on a caller-supplied template (other wire types for
    many variables) that lives in the process next to the stock pair."""
    _objs = None

    def __enter__(self):
        global _ser, _deser, _lazy_deser, _TD
        if custom_config._objs is None:
            from ..custom_template import custom_template_file
            from hippolyzer.lib.base.message.template_dict import TemplateDictionary
            td = TemplateDictionary(message_template=custom_template_file())
            ser = UDPMessageSerializer(message_template=custom_template_file())
            deser = UDPMessageDeserializer(settings=_settings)
            deser.template_dict = td
            lazy = UDPMessageDeserializer()
            lazy.template_dict = td
            custom_config._objs = (ser, deser, lazy, td)
        self.saved = (_ser, _deser, _lazy_deser, _TD)
        _ser, _deser, _lazy_deser, _TD = custom_config._objs
        return _TD

    def __exit__(self, *a):
        global _ser, _deser, _lazy_deser, _TD
        _ser, _deser, _lazy_deser, _TD = self.saved


ZERO_BY_TYPE = {
    MsgType.MVT_LLUUID: UUID(), MsgType.MVT_IP_ADDR: "0.0.0.0",
}


def _is_zero_value(var, val) -> bool:
    t = var.type
    if t in (MsgType.MVT_FIXED,):
        if not isinstance(val, (bytes, bytearray)):
            return False        # a Fixed field reads back as bytes (or a bytes subclass), never as anything else
        return bytes(val) == b"\x00" * var.size
    if t == MsgType.MVT_VARIABLE:
        return val == b"" or val == ""
    if t == MsgType.MVT_LLUUID:
        return val == UUID()
    if t == MsgType.MVT_IP_ADDR:
        return val == "0.0.0.0"
    if t in (MsgType.MVT_LLVector3, MsgType.MVT_LLVector3d, MsgType.MVT_LLQuaternion):
        return tuple(val)[:3] == (0.0, 0.0, 0.0)
    if t == MsgType.MVT_LLVector4:
        return tuple(val) == (0.0, 0.0, 0.0, 0.0)
    return val == 0


def type_class(var):
    if var.type in (MsgType.MVT_FIXED, MsgType.MVT_VARIABLE):
        return f"{var.type.name}{var.size}"
    return var.type.name


def _provoke_failure(ctx):
    from hippolyzer.lib.base.message.message import Message, Block
    k = ctx.counters.get("failed_serializations_before_good_ones", 0) % 3
    if k == 0:      # a variable left unset in a block that is not marked for filling, after some body bytes were produced
        bad = Message("ChatFromViewer", Block("AgentData", AgentID="00000000-0000-0000-0000-000000000001",
                                              SessionID="00000000-0000-0000-0000-000000000002"),
                      Block("ChatData", Message="oops", Type=1), packet_id=1)
    elif k == 1:    # out-of-range value
        bad = Message("ChatFromViewer", Block("AgentData", AgentID="00000000-0000-0000-0000-000000000001",
                                              SessionID="00000000-0000-0000-0000-000000000002"),
                      Block("ChatData", Message="oops", Type=70000, Channel=0), packet_id=1)
    else:           # a block the template does not have
        bad = Message("CompletePingCheck", Block("PingID", PingID=1), Block("NoSuchBlock", X=1), packet_id=1)
    try:
        _ser.serialize(bad)
    except Exception:
        ctx.count("failed_serializations_before_good_ones")
    else:
        ctx.count("bad_messages_accepted")


_ROUTE = [0]


def check_spec(ctx, spec):
    tmpl = _TD[spec["name"]]
    ctx.ev()
    key = gen_msg.shape_key(spec) + ((spec.get("template_config"),) if spec.get("template_config") else ())
    try:
        msg = gen_msg.build_message(spec)
    except Exception as e:
        ctx.violation("build-raises", "building an in-domain Message raised", {"spec": spec, "exc": repr(e)})
        return
    # the serializer is a long-lived object in real use (one per circuit / proxy): every now and then a call on it fails
    # (a message somebody built wrongly); what it encodes afterwards must not depend on that
    if ctx.counters.get("roundtrips", 0) % 9 == 0:
        _provoke_failure(ctx)
    # Round 11: what is encoded is, every third time, a copy of the message that was built (copy.deepcopy - what take() and
    # every holder of a message for later make); a copy is the same message
    is_copy = False
    if _ROUTE[0] % 3 == 2:
        try:
            msg = _copy.deepcopy(msg)
        except Exception as e:
            ctx.violation("copy-raises", "copying an in-domain Message raised", {"spec": spec, "exc": repr(e)})
            return
        is_copy = True
        ctx.count("copies_encoded")
        if spec.get("fill"):
            ctx.count("copies_encoded_with_variables_left_to_default_filling")
    _ROUTE[0] += 1
    try:
        data = bytes(_ser.serialize(msg))
    except Exception as e:
        mech = "serialize-raises"
        if spec.get("fill"):
            mech = "serialize-raises-fill"
        if is_copy:
            mech += ":copy"
        ctx.violation(mech, "serializing an in-domain message raised", {"spec": spec, "exc": repr(e)})
        return
    if ctx.counters.get("roundtrips", 0) % 5 == 0:
        # encoding is repeatable and leaves the message as it was
        try:
            before = msg.to_dict(extended=True) if not spec.get("fill") else None
            again = bytes(_ser.serialize(msg))
            ctx.count("serialized_twice")
            if again != data:
                ctx.violation("serialize-not-repeatable", "serializing the same message object twice gave different datagrams",
                              {"spec": spec, "first": data[:300], "second": again[:300]})
                return
            if before is not None and msg.to_dict(extended=True) != before:
                ctx.violation("serialize-mutates-message", "serializing a message changed the message", {"spec": spec})
                return
        except Exception as e:
            ctx.violation("serialize-raises", "serializing an in-domain message a second time raised", {"spec": spec, "exc": repr(e)})
            return
    ref = wire.ref_encode(tmpl, spec)
    if data != ref:
        mech = "bytes-differ-from-reference"
        if spec.get("fill") and _unset_types(tmpl, spec):
            # classify by what kind of variable was default-filled
            body_ok = _same_without_fill(tmpl, spec)
            if body_ok:
                mech = "default-fill-width:" + ",".join(sorted(_unset_types(tmpl, spec) & {"MVT_FIXED"})) \
                    if "MVT_FIXED" in _unset_types(tmpl, spec) else "default-fill-width"
        ctx.violation(mech, "real encoder's datagram differs from the independent reference encoder",
                      {"spec": spec, "real": data[:400], "ref": ref[:400], "real_len": len(data), "ref_len": len(ref)})
        return
    ctx.count("ref_bytes_equal")
    try:
        back = _deser.deserialize(data)
    except Exception as e:
        ctx.violation("deserialize-raises", "decoding the encoder's own datagram raised", {"spec": spec, "exc": repr(e)})
        return
    problems = []
    if back.name != msg.name:
        problems.append(("name", back.name))
    if int(back.send_flags) != int(msg.send_flags):
        problems.append(("flags", int(back.send_flags)))
    if back.packet_id != msg.packet_id:
        problems.append(("packet_id", back.packet_id))
    if tuple(back.acks) != tuple(msg.acks if msg.has_acks else ()):
        problems.append(("acks", list(back.acks)))
    if bytes(back.extra) != bytes(msg.extra):
        problems.append(("extra", bytes(back.extra)))
    if not spec.get("fill"):
        try:
            same = back.to_dict() == msg.to_dict()
        except Exception as e:
            same = False
            problems.append(("to_dict-raises", repr(e)))
        if not same:
            problems.append(("body", _first_body_diff(msg, back)))
    else:
        problems.extend(_check_fill(tmpl, spec, back, ctx))
    if problems:
        fields = sorted({p[0] for p in problems})
        ctx.violation("roundtrip-differs:" + ",".join(fields), "decoded message differs from the encoded one",
                      {"spec": spec, "problems": problems})
        return
    # a decoded message is the caller's to edit (addons do edit coordinates in place): that must not change what the same
    # datagram decodes to next time
    if not spec.get("fill") and ctx.counters.get("roundtrips", 0) % 4 == 0:
        from hippolyzer.lib.base.datatypes import TupleCoord
        edited = 0
        for blist in back.blocks.values():
            for b in blist:
                for v in b.vars.values():
                    if isinstance(v, TupleCoord):
                        try:
                            v.X = (v.X if v.X == v.X else 0.0) + 10.5
                            edited += 1
                        except Exception:
                            pass
        if edited:
            ctx.count("decoded_coordinates_edited_in_place")
            try:
                again = _deser.deserialize(data)
                if again.to_dict() != msg.to_dict():
                    ctx.violation("decode-depends-on-earlier-result", "decoding the same datagram again, after a caller had edited the "
                                  "first result in place, gives another message", {"spec": spec, "problems": _first_body_diff(msg, again)})
                    return
            except Exception as e:
                ctx.violation("deserialize-raises", "decoding the encoder's own datagram raised", {"spec": spec, "exc": repr(e)})
                return
    # what was reached
    for (bname, entries) in spec["blocks"]:
        if entries:
            for var in tmpl.get_block(bname).variables:
                ctx.cover("var_types", type_class(var))
    ctx.count("roundtrips")
    ctx.nontrivial(key)
    if ctx.counters.get("roundtrips", 0) % 997 == 1:
        ctx.sample({"name": spec["name"], "flags": spec["flags"], "packet_id": spec["packet_id"],
                    "acks": spec["acks"][:4], "extra": spec["extra"][:8], "datagram_len": len(data),
                    "block_counts": [[b, None if e is None else len(e)] for b, e in spec["blocks"]],
                    "first_block": (spec["blocks"][0][1] or [None])[0] if spec["blocks"] and spec["blocks"][0][1] else None})
    if spec["flags"] & 0x80:
        ctx.count("zerocoded")
    if spec["acks"]:
        ctx.count("with_acks")
    if spec["extra"]:
        ctx.count("with_extra")
    for (bname, entries) in spec["blocks"]:
        if entries is None:
            ctx.count("omitted_trailing")
            break
    for (bname, entries) in spec["blocks"]:
        tb = tmpl.get_block(bname)
        if tb.block_type == 2 and entries is not None:
            if len(entries) == 255:
                ctx.count("count_255")
            if len(entries) == 0:
                ctx.count("count_0")
    if spec.get("fill_mixed") and any(e and len(e) > 1 and any(v[0] == "unset" for ent in e[1:] for v in ent.values())
                                      for (_, e) in spec["blocks"]):
        ctx.count("fill_mixed_marks_in_one_list")
    if spec.get("fill"):
        ctx.count("fill_cases")
        for t in _unset_types(tmpl, spec):
            ctx.count("fill_unset_" + ("fixed" if t == "MVT_FIXED" else "variable" if t == "MVT_VARIABLE" else "other"))
    elif ctx.counters.get("roundtrips", 0) % 3 == 0:
        check_header_edit_on_received(ctx, tmpl, spec, msg, data)


_lazy_deser = UDPMessageDeserializer()      # default settings: bodies are parsed on first access

HEADER_EDITS = ("extra", "extra_zeros", "extra_clear", "zerocoded_toggle", "acks", "acks_clear", "packet_id", "reliable_toggle",
                "two_edits")


def check_header_edit_on_received(ctx, tmpl, spec, msg, data):
    """A message that came from the wire (body not looked at yet) is a message like any other: with its flags / id / acks /
    extra header bytes changed it must still encode to a datagram that decodes to that message."""
    import copy as _copy
    n = ctx.counters.get("header_edits_on_received", 0)
    edit = HEADER_EDITS[n % len(HEADER_EDITS)]
    if edit in ("zerocoded_toggle", "two_edits") and not (spec["flags"] & 0x80) and gen_msg.approx_body_size(spec) > 0x2800:
        edit = "extra"      # too big to be zero-coded at all (the decoder's expansion cap, C03's subject)
    try:
        recv = _lazy_deser.deserialize(data)
    except Exception as e:
        ctx.violation("deserialize-raises", "decoding the encoder's own datagram raised", {"spec": spec, "exc": repr(e)})
        return
    want = _copy.deepcopy(spec)
    if n % 5 == 4:
        recv.blocks     # body looked at before the edit
        ctx.count("header_edits_after_body_parse")

    def apply(e):
        if e == "extra":
            want["extra"] = bytes([1 + (n % 250), 0, 7, 0, 0][: 1 + n % 5])
            recv.extra = want["extra"]
        elif e == "extra_zeros":
            want["extra"] = b"\x00" * (1 + n % 4)
            recv.extra = want["extra"]
        elif e == "extra_clear":
            want["extra"] = b""
            recv.extra = b""
        elif e == "zerocoded_toggle":
            want["flags"] ^= 0x80
            recv.send_flags = int(recv.send_flags) ^ 0x80
        elif e == "acks":
            want["acks"] = [5, 2 ** 32 - 1, n % 1000][: 1 + n % 3]
            want["flags"] |= 0x10
            recv.acks = tuple(want["acks"])
            recv.send_flags = int(recv.send_flags) | 0x10
        elif e == "acks_clear":
            want["acks"] = []
            want["flags"] &= ~0x10
            recv.acks = ()
            recv.send_flags = int(recv.send_flags) & ~0x10
        elif e == "packet_id":
            want["packet_id"] = (spec["packet_id"] + 1 + n) % 2 ** 32
            recv.packet_id = want["packet_id"]
        elif e == "reliable_toggle":
            want["flags"] ^= 0x40
            recv.send_flags = int(recv.send_flags) ^ 0x40
    try:
        if edit == "two_edits":
            apply("zerocoded_toggle")
            apply("extra")
        else:
            apply(edit)
        out = bytes(_ser.serialize(recv))
    except Exception as e:
        ctx.violation("received-header-edit:" + edit + ":raises", "changing a header field of a received message and encoding it raised",
                      {"spec": spec, "edit": edit, "exc": repr(e)[:300]})
        return
    ctx.count("header_edits_on_received")
    ctx.cover("header_edits", edit)
    if spec["flags"] & 0x80:
        ctx.count("header_edits_on_zerocoded")
    try:
        back = _deser.deserialize(out)
        problems = []
        if back.name != spec["name"]:
            problems.append(("name", back.name))
        if int(back.send_flags) != want["flags"]:
            problems.append(("flags", int(back.send_flags)))
        if back.packet_id != want["packet_id"]:
            problems.append(("packet_id", back.packet_id))
        if list(back.acks) != (list(want["acks"]) if want["flags"] & 0x10 else []):
            problems.append(("acks", list(back.acks)))
        if bytes(back.extra) != bytes(want["extra"]):
            problems.append(("extra", bytes(back.extra)))
        if back.to_dict() != msg.to_dict():
            problems.append(("body", _first_body_diff(msg, back)))
    except Exception as e:
        problems = [("decode-raises", repr(e)[:300])]
    if not problems and out != wire.ref_encode(tmpl, want):
        problems = [("bytes", out[:200])]
    if problems:
        ctx.violation("received-header-edit:" + edit + ":" + ",".join(sorted({p[0] for p in problems})),
                      "a received message whose header fields were changed did not encode to a datagram carrying that message",
                      {"spec": spec, "edit": edit, "problems": problems, "datagram": out[:300]})


def _unset_types(tmpl, spec):
    out = set()
    for (bname, entries) in spec["blocks"]:
        if not entries:
            continue
        tb = tmpl.get_block(bname)
        for ent in entries:
            for var in tb.variables:
                if ent[var.name][0] == "unset":
                    out.add(var.type.name)
    return out


def _same_without_fill(tmpl, spec):
    return True


def _check_fill(tmpl, spec, back, ctx):
    problems = []
    for (bname, entries) in spec["blocks"]:
        if entries is None:
            if bname in back.blocks:
                problems.append(("body", f"omitted block {bname} present"))
            continue
        tb = tmpl.get_block(bname)
        got = back.blocks.get(bname)
        if got is None or len(got) != len(entries):
            problems.append(("body", f"block {bname} count {None if got is None else len(got)} != {len(entries)}"))
            continue
        for ent, blk in zip(entries, got):
            for var in tb.variables:
                vs = ent[var.name]
                val = blk[var.name]
                if vs[0] == "unset":
                    if not _is_zero_value(var, val):
                        problems.append(("fill", f"{bname}.{var.name} decoded to {val!r}"))
                else:
                    exp = gen_msg.build_value(vs)
                    if not (val == exp):
                        problems.append(("body", f"{bname}.{var.name}: {val!r} != {exp!r}"))
    return problems


def _first_body_diff(msg, back):
    a, b = msg.to_dict()["body"], back.to_dict()["body"]
    if list(a.keys()) != list(b.keys()):
        return f"block lists {list(a.keys())} vs {list(b.keys())}"
    for bname in a:
        if len(a[bname]) != len(b[bname]):
            return f"{bname}: {len(a[bname])} vs {len(b[bname])} blocks"
        for i, (x, y) in enumerate(zip(a[bname], b[bname])):
            for k in x:
                if not (k in y and x[k] == y[k]):
                    return f"{bname}[{i}].{k}: sent {x[k]!r} got {y.get(k)!r}"
    return "unknown"


def directed(ctx):
    """Directed witnesses that always run (shard 0): one default-filled message per Fixed variable, etc."""
    rng = ctx.rng
    for tmpl in gen_msg.all_templates():
        for tb in tmpl.blocks:
            for var in tb.variables:
                if var.type == MsgType.MVT_FIXED:
                    spec = gen_msg.gen_spec(rng, tmpl, {"fill_missing": True, "p_unset": 0.0, "flags": 0, "p_extra": 0,
                                                        "p_omit": 0})
                    for (bname, entries) in spec["blocks"]:
                        if bname == tb.name and entries is not None:
                            if not entries:
                                entries.append({v.name: gen_msg.gen_value(rng, v, {}) for v in tb.variables})
                            for ent in entries:
                                ent[var.name] = ["unset"]
                    check_spec(ctx, spec)


def threads_phase(ctx, rng):
    """One serializer / deserializer pair shared by several threads (serialize() says it is written for that)."""
    from ..threads import run_concurrently
    templates = gen_msg.all_templates()
    jobs = []
    for _ in range(60):
        tmpl = rng.choice(templates)
        spec = gen_msg.limit_for_zerocode(rng, tmpl, {"max_var_len": 400})
        try:
            msg = gen_msg.build_message(spec)
            data = bytes(_ser.serialize(msg))
            d = _deser.deserialize(data).to_dict()
        except Exception:
            continue
        jobs.append((lambda m=msg: bytes(_ser.serialize(m)), data))
        jobs.append((lambda b=data: _deser.deserialize(b).to_dict(), d))
    run_concurrently(ctx, "udp-codec", jobs, reps=ctx.pick(3, 20))


def template_files(ctx, rng):
    """Caller-supplied templates usually come from a file.  The same path holds one revision of the template, then another
    (an edit, a roll-back to an older copy with an older time stamp, a second save within the same clock tick): every codec
    object built from the path afterwards goes by what the file says at that moment."""
    import io
    import os
    import shutil
    import tempfile
    from ..custom_template import custom_template_text
    from hippolyzer.lib.base.message.template_dict import TemplateDictionary
    tmp = tempfile.mkdtemp(prefix="hvc01_")
    path = os.path.join(tmp, "message_template.msg")
    texts = [custom_template_text(0), custom_template_text(1)]

    def layout(td):
        return [(t.name, [(b.name, [(v.name, v.type.name, v.size) for v in b.variables]) for b in t.blocks]) for t in td]
    want = [layout(TemplateDictionary(message_template=io.StringIO(t))) for t in texts]
    try:
        stamp = 1_700_000_000
        for step, (rev, dstamp) in enumerate([(0, 0), (1, 0), (0, -500), (1, +1), (0, +1), (1, -3)]):
            with open(path, "w") as f:
                f.write(texts[rev])
            stamp += dstamp
            os.utime(path, (stamp, stamp))
            for how in ("dictionary", "serializer"):
                with open(path) as fh:
                    try:
                        td = TemplateDictionary(message_template=fh) if how == "dictionary" else \
                            UDPMessageSerializer(message_template=fh).template_dict
                        got = layout(td)
                    except Exception as e:
                        ctx.violation("template-file:raises", "building a codec object from a template file raised",
                                      {"step": step, "how": how, "exc": repr(e)[:200]})
                        return
                ctx.count("template_file_loads")
                if got != want[rev]:
                    ctx.violation("template-file:stale-revision", "a codec object built from a template file does not go by what "
                                  "the file says now", {"step": step, "how": how, "revision": rev, "mtime_delta": dstamp,
                                                        "is_other_revision": got == want[1 - rev]})
                    return
        ctx.ev()
    finally:
        shutil.rmtree(tmp, ignore_errors=True)


def run(ctx):
    rng = ctx.rng
    templates = gen_msg.all_templates()
    per_template = ctx.pick(24, 300)
    covered = set()
    if ctx.shard == 0:
        directed(ctx)
    if ctx.shard == 1 % max(ctx.nshards, 1):
        template_files(ctx, rng)
    threads_phase(ctx, rng)          # (thread timing is a matter of chance: every shard has a go)
    for ti, tmpl in enumerate(templates):
        # every shard visits every template (different rng) in thorough; quick splits the per-template budget
        for k in range(per_template):
            if ctx.quick and not ctx.mine(ti * per_template + k):
                continue
            if ctx.out_of_time():
                ctx.inconclusive_because("work budget exhausted before all templates were visited")
                return
            opts = {"max_var_len": 1 << 16}
            if k % 5 == 4:
                opts["fill_missing"] = True
                if (k // 5) % 2:
                    opts["fill_mixed"] = True
            spec = gen_msg.limit_for_zerocode(rng, tmpl, opts)
            check_spec(ctx, spec)
            covered.add(tmpl.name)
            if k % 6 == 1:
                # the same message name through the pair built on a caller-supplied template, then the stock pair again
                with custom_config() as td:
                    cspec = gen_msg.limit_for_zerocode(rng, td[tmpl.name], opts)
                    cspec["template_config"] = "custom"
                    check_spec(ctx, cspec)
                    ctx.count("roundtrips_custom_template")
                check_spec(ctx, gen_msg.limit_for_zerocode(rng, tmpl, opts))
                if ti % 40 == 0:
                    from ..custom_template import check_stock_unchanged
                    check_stock_unchanged(ctx)
    for name in covered:
        ctx.cover("templates", name)


def replay(ctx, w):
    if "spec" in w and w["spec"].get("template_config") == "custom":
        with custom_config():
            check_spec(ctx, _fix_spec(w["spec"]))
    elif "spec" in w:
        check_spec(ctx, _fix_spec(w["spec"]))


def _fix_spec(spec):
    # json round-trip turns tuples into lists (fine) - nothing else to restore
    return spec
