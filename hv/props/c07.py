"""C07 - addons cannot duplicate, lose or wedge traffic: at-most-once, fault-isolated.

Fault-enumeration history checker.  Scripted addon objects are loaded into the real AddonManager; every
assignment of behaviours to the hooks of up to three addons is run through the real proxy protocol
(datagram_received -> handle_proxied_packet) for each direction / reliability; the transport log is matched to the
original message by a unique serial in its payload; a recording message logger stands for the proxy's bookkeeping.
A second part enumerates every sequence of ownership operations on a message at circuit level.
"""
import copy
import itertools

from .. import env

env.import_repo()

from hippolyzer.lib.base.message.message import Message, Block  # noqa: E402
from hippolyzer.lib.base.message.msgtypes import PacketFlags  # noqa: E402
from hippolyzer.lib.base.network.transport import Direction  # noqa: E402
from hippolyzer.lib.base.settings import Settings  # noqa: E402
from hippolyzer.lib.base.message.udpserializer import UDPMessageSerializer  # noqa: E402
from hippolyzer.lib.base.message.udpdeserializer import UDPMessageDeserializer  # noqa: E402
from hippolyzer.lib.proxy.circuit import ProxiedCircuit  # noqa: E402
from hippolyzer.lib.proxy.settings import ProxySettings  # noqa: E402

from ..harness_proxy import Rig, socks_unwrap_ref  # noqa: E402
from .c05 import RecTransport  # noqa: E402
from .c06 import use_circuit_code  # noqa: E402

LEVEL = "fault_enumeration"
SHARDS = {"quick": 8, "thorough": 16}
TIMEOUT_S = {"quick": 900, "thorough": 3600}
BUDGET_S = {"quick": 150, "thorough": 1800}
RULE = ("lludp hook: all pairs (quick) / triples (thorough) of 16 behaviours {return None/False/0, return True/object, raise "
        "ValueError/KeyError/RuntimeError/custom, take, take+send copy, take+drop original, drop, send original, send "
        "original twice, send-then-raise, mutate, send a marked deep copy} over 2-3 addons x {viewer->sim, sim->viewer} x "
        "{reliable, unreliable}; other hook points: handle_proxied_packet, session / region subscribers (named and "
        "wildcard), RLV command hook (one and several commands), object hooks; every scenario is followed by a plain "
        "message that must still get through all hooks; + every ownership-operation sequence of length <= 4 (quick) / 6 "
        "(thorough) on a message. distinct_nontrivial = distinct (hook point, behaviour tuple, direction, reliability) scenarios"
        ". Round-5 additions: an addon loaded from a script file that hot-reloads a helper module, next to a healthy addon object; while traffic flows the files go bad (13 faults: dependency deleted / its directory replaced by a file / symlink loop / syntax error / raises on import; script deleted / directory gone / syntax error / raises on import / hook now raises / unload raises / init raises) and then change again (thorough: all 144 ordered pairs incl. the author repairing the script); the reload check runs before every message; every message must reach the healthy addon, the logger and the wire exactly once"
        ". Rounds 6-7: the script addon schedules a task that outlives it; after the faults, the avatar's arrival message (which kills region-scoped tasks) must still be delivered; datagrams whose body is cut short pass hooks that look inside and fail (deferred parsing): next addon still called, datagram forwarded once as it came"
        ". Round 8: several coroutine subscribers next to plain ones on one message - each called once with its own arguments"
        ". Round 9: 13 kinds of messages the proxy itself reads or acts on (UseCircuitCode repeated on a live circuit, arrival, handshake, pings, acks, ...) under 6 hook behaviours each. Round 11: the message names of waiters and block-scoped taking subscriptions are handed over as tuple / list / generator / iterator / map; a taking subscription whose block has been left")
ASSUMPTIONS = [
    "claims = truthy return, take(), explicit drop, the proxy's command channel; everything else must be forwarded exactly once",
    "a deep copy an addon sends itself is a different message (marked in its payload) and is not counted",
    "bookkeeping = the message logger is reached for every message that passed parsing",
    "dropping a synthetic copy that was never sent is a no-op in the code and is not counted as 'dropped'",
]
MUST_REACH = {"proxy_read_message_scenarios": 60, "scenarios": 500, "hook_exceptions_raised": 100, "claims_observed": 100, "followups_delivered": 500,
              "ownership_sequences": 300, "illegal_reuse_rejected": 100, "subscriber_scenarios": 20, "predicate_scenarios": 8, "wait_for_scenarios": 4, "names_handed_over_as_generator": 2, "names_handed_over_as_iterator": 2, "abandoned_wait_scenarios": 6, "rlv_scenarios": 6,
              "packet_hook_scenarios": 6, "object_hook_scenarios": 2, "script_addon_scenarios": 20, "script_addon_faults_survived": 18,
              "script_addon_hook_runs": 20, "script_reloads_observed": 6,
              "script_addon_double_fault_scenarios": 10, "script_second_reloads_observed": 2,
              "arrival_messages_with_orphaned_tasks": 30,
              "undecodable_body_scenarios": 30, "async_subscriber_scenarios": 12}

_ser = UDPMessageSerializer()
_es = Settings()
_es.ENABLE_DEFERRED_PACKET_PARSING = False
_eager = UDPMessageDeserializer(settings=_es)


class CustomBoom(Exception):
    pass


BEHAVIOURS = ["none", "false", "zero", "true", "object", "raise_value", "raise_key", "raise_runtime", "raise_custom", "raise_cancelled",
              "take", "take_send_copy", "take_drop_orig", "drop", "send_orig", "send_orig_twice", "send_then_raise",
              "mutate", "send_marked_copy"]
QUICK_BEHAVIOURS = BEHAVIOURS


class ScriptedAddon:
    """An addon object whose hooks do what the scenario says and record every invocation."""

    def __init__(self, name, log):
        self.name = name
        self.log = log
        self.lludp = "none"
        self.packet = "none"
        self.rlv = "none"
        self.objhook = "none"

    def _act(self, behaviour, session, region, message):
        self.log.append((self.name, "lludp", behaviour, getattr(message, "name", None)))
        b = behaviour
        if b == "none":
            return None
        if b == "peek_body":
            message.blocks                      # (raises by itself when the body does not parse)
            return None
        if b == "peek_then_raise":
            try:
                message.blocks
            except Exception:
                pass
            raise ValueError("scripted failure after looking at the body")
        if b == "false":
            return False
        if b == "zero":
            return 0
        if b == "true":
            return True
        if b == "object":
            return object()
        if b == "raise_value":
            raise ValueError("scripted")
        if b == "raise_key":
            raise KeyError("scripted")
        if b == "raise_runtime":
            raise RuntimeError("scripted")
        if b == "raise_custom":
            raise CustomBoom("scripted")
        if b == "raise_cancelled":
            # what asking a cancelled future for its result raises: not an Exception subclass
            import asyncio
            raise asyncio.CancelledError("scripted")
        if b == "take":
            message.take()
            return None
        if b == "take_send_copy":
            region.circuit.send(message.take())
            return None
        if b == "take_drop_orig":
            message.take()
            region.circuit.drop_message(message)
            return None
        if b == "drop":
            region.circuit.drop_message(message)
            return None
        if b == "send_orig":
            region.circuit.send(message)
            return None
        if b == "send_orig_twice":
            region.circuit.send(message)
            region.circuit.send(message)
            return None
        if b == "send_then_raise":
            region.circuit.send(message)
            raise ValueError("after send")
        if b == "mutate":
            block = message["ChatData"][0]
            block["Message"] = str(block["Message"]) + "+mut"
            return None
        if b == "send_marked_copy":
            c = copy.deepcopy(message)
            c.packet_id = None
            c.synthetic = True
            c.acks = ()
            c["ChatData"][0]["Message"] = "copy:" + str(c["ChatData"][0]["Message"])
            region.circuit.send(c)
            return None
        raise AssertionError(b)

    def handle_lludp_message(self, session, region, message):
        return self._act(self.lludp, session, region, message)

    def handle_proxied_packet(self, session_manager, packet, session, region):
        self.log.append((self.name, "packet", self.packet, None))
        if self.packet == "true":
            return True
        if self.packet.startswith("raise"):
            raise ValueError("scripted packet hook")
        if self.packet == "mutate_data":
            packet.data = packet.data    # no-op mutation is allowed
        return None

    def handle_rlv_command(self, session, region, source, behaviour, options, param):
        self.log.append((self.name, "rlv", self.rlv, behaviour))
        if self.rlv == "true":
            return True
        if self.rlv.startswith("raise"):
            raise KeyError("scripted rlv hook")
        return None

    def handle_object_updated(self, session, region, obj, updated_props, msg=None):
        self.log.append((self.name, "object", self.objhook, None))
        if self.objhook.startswith("raise"):
            raise RuntimeError("scripted object hook")


class RecLogger:
    def __init__(self):
        self.logged = []

    def log_lludp_message(self, session, region, message):
        try:
            text = str(message["ChatData"][0]["Message"]) if "ChatData" in message else message.name
        except Exception:
            text = message.name
        self.logged.append(text)

    def log_http_response(self, flow):
        pass

    def log_eq_event(self, session, region, event):
        pass


class Harness:
    def __init__(self, n_addons, deferred=None):
        self.log = []
        self.addons = [ScriptedAddon(f"A{i}", self.log) for i in range(n_addons)]
        settings = ProxySettings()
        settings.ALLOW_AUTO_REQUEST_OBJECTS = False
        # alternate between the proxy's two parsing configurations (bodies on demand / eagerly)
        Harness._n = getattr(Harness, "_n", 0) + 1
        settings.ENABLE_DEFERRED_PACKET_PARSING = bool(Harness._n % 2) if deferred is None else deferred
        self.rig = Rig(addons=self.addons, settings=settings)
        self.logger = RecLogger()
        self.rig.session_manager.message_logger = self.logger
        self.sim = ("10.1.0.1", 13001)
        self.client = ("10.0.0.1", 40001)
        self.session = self.rig.add_session(self.sim)
        self.assoc = self.rig.add_association(self.client)
        self.assoc.from_viewer(self.sim, use_circuit_code(self.session, 1))
        self.region = self.session.regions[0]
        self.out_id = 2
        self.in_id = 1
        self.serial = 0
        self.rig.sendlog.clear()
        self.log.clear()
        self.logger.logged.clear()

    def close(self):
        self.rig.close()

    def chat(self, direction_in, reliable, text=None, chat_type=1):
        self.serial += 1
        text = text or f"m{self.serial}"
        flags = int(PacketFlags.RELIABLE) if reliable else 0
        if direction_in:
            m = Message("ChatFromSimulator", Block("ChatData", FromName="x", SourceID="00000000-0000-0000-0000-0000000000aa",
                                                   OwnerID="00000000-0000-0000-0000-0000000000bb", SourceType=1,
                                                   ChatType=chat_type, Audible=1, Position=(1.0, 2.0, 3.0), Message=text),
                        packet_id=self.in_id, flags=flags)
            self.in_id += 1
        else:
            m = Message("ChatFromViewer", Block("AgentData", AgentID=self.session.agent_id, SessionID=self.session.id),
                        Block("ChatData", Message=text, Type=1, Channel=0), packet_id=self.out_id, flags=flags)
            self.out_id += 1
        return text, bytes(_ser.serialize(m))

    def feed(self, direction_in, data):
        if direction_in:
            return self.assoc.from_sim(self.sim, data)
        return self.assoc.from_viewer(self.sim, data)

    def acks_to_sender(self, direction_in, packet_id):
        """PacketAck datagrams sent back to the sender of a message that name its packet id."""
        n = 0
        sender = self.sim if direction_in else self.client
        for (_, data, addr) in self.rig.sendlog:
            if addr != sender:
                continue
            payload = data
            if addr == self.client:
                un = socks_unwrap_ref(data)
                if un is None:
                    continue
                payload = un[1]
            try:
                m = _eager.deserialize(payload)
            except Exception:
                continue
            if m.name == "PacketAck":
                n += sum(1 for b in m["Packets"] if b["ID"] == packet_id)
        return n

    def emissions_with_text(self, text):
        """How many datagrams on the wire carry this payload serial (either direction)."""
        n = 0
        for (_, data, addr) in self.rig.sendlog:
            payload = data
            if addr == self.client:
                un = socks_unwrap_ref(data)
                if un is None:
                    continue
                payload = un[1]
            try:
                m = _eager.deserialize(payload)
            except Exception:
                continue
            if "ChatData" in m.blocks and str(m["ChatData"][0]["Message"]) in (text, text + "+mut", text + "+mut+mut",
                                                                              text + "+mut+mut+mut"):
                n += 1
        return n


def model_lludp(behaviours):
    """Reference for the lludp hook: (hooks expected to run, expected emissions carrying the serial, claimed?)."""
    finalized = False
    queued = False
    emitted = 0
    ran = 0
    handled = False
    claimed = False
    for b in behaviours:
        ran += 1
        if b in ("take", "take_send_copy", "take_drop_orig"):
            claimed = True
            if not finalized:
                queued = True
            if b == "take_send_copy":
                emitted += 1              # the taken copy carries the message on
            if b == "take_drop_orig" and not finalized:
                finalized = True
        elif b == "drop":
            if not finalized:
                finalized = True
                claimed = True
        elif b in ("send_orig", "send_orig_twice", "send_then_raise"):
            if not finalized and not queued:
                finalized = True
                emitted += 1
        elif b in ("true", "object"):
            handled = True
            claimed = True
            break
    sent_orig = finalized and any(b in ("send_orig", "send_orig_twice", "send_then_raise") for b in behaviours[:ran]) \
        and _orig_was_sent(behaviours[:ran])
    if queued and not finalized:
        finalized = True                  # the proxy drops the original of a taken message
    if not handled and not finalized:
        emitted += 1
        sent_orig = True
    model_lludp.dropped = finalized and not sent_orig
    return ran, emitted, claimed


def _orig_was_sent(behaviours):
    finalized = queued = False
    for b in behaviours:
        if b in ("take", "take_send_copy", "take_drop_orig"):
            if not finalized:
                queued = True
            if b == "take_drop_orig" and not finalized:
                finalized = True
        elif b == "drop" and not finalized:
            finalized = True
        elif b in ("send_orig", "send_orig_twice", "send_then_raise") and not finalized and not queued:
            return True
        elif b in ("true", "object"):
            break
    return False


def check_lludp_scenario(ctx, behaviours, direction_in, reliable):
    h = Harness(len(behaviours))
    try:
        for a, b in zip(h.addons, behaviours):
            a.lludp = b
        text, data = h.chat(direction_in, reliable)
        exc = h.feed(direction_in, data)
        ran_expected, emitted_expected, claimed = model_lludp(list(behaviours))
        wit = {"hook": "handle_lludp_message", "behaviours": list(behaviours), "direction": "in" if direction_in else "out",
               "reliable": reliable}
        ctx.ev()
        ctx.count("scenarios")
        if any(b.startswith("raise") or b == "send_then_raise" for b in behaviours[:ran_expected]):
            ctx.count("hook_exceptions_raised")
        if claimed:
            ctx.count("claims_observed")
        if exc is not None:
            ctx.violation("exception-escaped-proxy:" + _first_special(behaviours), "an exception left handle_proxied_packet "
                          "because of what an addon hook did", dict(wit, exc=repr(exc)[:300]))
        n = h.emissions_with_text(text)
        # (each take() yields a distinct copy its taker may send once; the original at most once)
        if n > emitted_expected:
            ctx.violation("emitted-more-than-once" if emitted_expected >= 1 else "claimed-message-sent",
                          "more datagrams carry the message than the original + taken copies that were legitimately sent",
                          dict(wit, count=n, expected=emitted_expected))
        elif n < emitted_expected:
            ctx.violation("unclaimed-message-lost", "an unclaimed message (or a taken copy that was sent) did not reach the wire",
                          dict(wit, count=n, expected=emitted_expected))
        if reliable:
            # a reliable original that ends up dropped (explicitly, or because it was taken) is acknowledged to its
            # sender exactly once; one that was sent is not acknowledged by the proxy
            acks = h.acks_to_sender(direction_in, h.in_id - 1 if direction_in else h.out_id - 1)
            want = 1 if model_lludp.dropped else 0
            if acks != want:
                ctx.violation("dropped-reliable-ack-count", "a dropped reliable original was not acknowledged to its sender "
                              "exactly once (or a forwarded one was)", dict(wit, acks=acks, expected=want))
        ran = [e for e in h.log if e[1] == "lludp"]
        if len(ran) != ran_expected:
            ctx.violation("later-addon-hook-skipped", "an addon's behaviour stopped another addon's hook from running",
                          dict(wit, ran=len(ran), expected=ran_expected))
        # (sent copies are logged as well, through the circuit's logging hook)
        if h.logger.logged.count(text) + h.logger.logged.count(text + "+mut") + h.logger.logged.count(text + "+mut+mut") \
                + h.logger.logged.count(text + "+mut+mut+mut") < 1:
            ctx.violation("bookkeeping-skipped:" + _first_special(behaviours), "the message logger was not reached exactly once "
                          "for a parsed message", dict(wit, logged=h.logger.logged[:6]))
        followup(ctx, h, wit)
        ctx.nontrivial(("lludp", tuple(behaviours), direction_in, reliable))
    finally:
        h.close()


PROXY_READ_KINDS = ["UseCircuitCode:resent", "UseCircuitCode:again", "AgentMovementComplete", "RegionHandshake", "StartPingCheck",
                    "CompletePingCheck", "PacketAck:for-viewer-packet", "AgentDataUpdate", "ChatFromSimulator:owner-say", "ObjectUpdate:empty",
                    "KillObject", "CompleteAgentMovement", "AgentThrottle"]


def _proxy_read_message(h, kind):
    """(direction_in, Message) for one of the messages the proxy itself looks at or acts on while it passes through."""
    base = kind.split(":")[0]
    sess = h.session
    if base == "UseCircuitCode":
        # the viewer repeats its opening message on a circuit that is already alive: a retransmission of the first one, or a
        # new one (reconnect)
        flags = int(PacketFlags.RELIABLE) | (int(PacketFlags.RESENT) if kind.endswith("resent") else 0)
        pid = 1 if kind.endswith("resent") else h.out_id
        return False, Message("UseCircuitCode", Block("CircuitCode", Code=sess.circuit_code, SessionID=sess.id, ID=sess.agent_id),
                              packet_id=pid, flags=flags)
    if base == "AgentMovementComplete":
        return True, Message("AgentMovementComplete", Block("AgentData", AgentID=sess.agent_id, SessionID=sess.id),
                             Block("Data", Position=(1.0, 2.0, 3.0), LookAt=(1.0, 0.0, 0.0), RegionHandle=h.region.handle or 0, Timestamp=5),
                             Block("SimData", ChannelVersion="x"), packet_id=h.in_id, flags=int(PacketFlags.RELIABLE))
    if base == "RegionHandshake":
        m = Message("RegionHandshake", Block("RegionInfo", fill_missing=True), Block("RegionInfo2", fill_missing=True),
                    Block("RegionInfo3", fill_missing=True), Block("RegionInfo4", fill_missing=True), packet_id=h.in_id,
                    flags=int(PacketFlags.RELIABLE))
        m["RegionInfo"]["SimName"] = "hv region"
        return True, m
    if base == "StartPingCheck":
        return True, Message("StartPingCheck", Block("PingID", PingID=3, OldestUnacked=h.in_id), packet_id=h.in_id, flags=0)
    if base == "CompletePingCheck":
        return False, Message("CompletePingCheck", Block("PingID", PingID=3), packet_id=h.out_id, flags=0)
    if base == "PacketAck":
        return True, Message("PacketAck", Block("Packets", ID=1), packet_id=h.in_id, flags=0)
    if base == "AgentDataUpdate":
        return True, Message("AgentDataUpdate", Block("AgentData", AgentID=sess.agent_id, FirstName="a", LastName="b", GroupTitle="",
                                                      ActiveGroupID="00000000-0000-0000-0000-0000000000cc", GroupPowers=0, GroupName="g"),
                             packet_id=h.in_id, flags=int(PacketFlags.RELIABLE))
    if base == "ChatFromSimulator":
        return True, Message("ChatFromSimulator", Block("ChatData", FromName="x", SourceID="00000000-0000-0000-0000-0000000000aa",
                                                        OwnerID=sess.agent_id, SourceType=2, ChatType=8, Audible=1,
                                                        Position=(1.0, 2.0, 3.0), Message="plain owner say"), packet_id=h.in_id, flags=0)
    if base == "ObjectUpdate":
        return True, Message("ObjectUpdate", Block("RegionData", RegionHandle=h.region.handle or 0, TimeDilation=1), packet_id=h.in_id,
                             flags=0)
    if base == "KillObject":
        return True, Message("KillObject", Block("ObjectData", ID=4711), packet_id=h.in_id, flags=int(PacketFlags.RELIABLE))
    if base == "CompleteAgentMovement":
        return False, Message("CompleteAgentMovement", Block("AgentData", AgentID=sess.agent_id, SessionID=sess.id, CircuitCode=sess.circuit_code),
                              packet_id=h.out_id, flags=int(PacketFlags.RELIABLE))
    if base == "AgentThrottle":
        return False, Message("AgentThrottle", Block("AgentData", AgentID=sess.agent_id, SessionID=sess.id, CircuitCode=sess.circuit_code),
                              Block("Throttle", GenCounter=0, Throttles=b"\x00" * 28), packet_id=h.out_id, flags=int(PacketFlags.RELIABLE))
    raise ValueError(kind)


def check_proxy_read_messages(ctx, behaviours, kind):
    """The same law for the messages the proxy itself reads or acts on (circuit opening repeated on a live circuit, arrival in a
    region, handshakes, pings, acknowledgements, ...): whatever the proxy does with their content, they are proxied messages -
    every addon's hook sees them, and they go out exactly once unless claimed."""
    h = Harness(len(behaviours))
    try:
        for a, b in zip(h.addons, behaviours):
            a.lludp = b
        try:
            direction_in, msg = _proxy_read_message(h, kind)
            data = bytes(_ser.serialize(msg))
        except Exception as e:
            ctx.inconclusive_because(f"could not build {kind}: {e!r}"[:200])
            return
        if direction_in:
            h.in_id += 1
        elif msg.packet_id == h.out_id:
            h.out_id += 1
        name = msg.name
        before = len(h.rig.sendlog)
        exc = h.feed(direction_in, data)
        ran_expected, emitted_expected, claimed = model_lludp(list(behaviours))
        wit = {"proxy_read_kind": kind, "behaviours": list(behaviours), "direction": "in" if direction_in else "out"}
        ctx.ev()
        ctx.count("proxy_read_message_scenarios")
        if exc is not None:
            ctx.violation("exception-escaped-proxy:" + name, "an exception left datagram_received for a valid datagram on an "
                          "open circuit", dict(wit, exc=repr(exc)[:300]))
            return
        n = 0
        for (_, out, addr) in h.rig.sendlog[before:]:
            payload = out
            if addr == h.client:
                un = socks_unwrap_ref(out)
                if un is None:
                    continue
                payload = un[1]
            try:
                if _eager.deserialize(payload).name == name and (name != "PacketAck" or addr == h.client):
                    n += 1
            except Exception:
                continue
        if n > emitted_expected:
            ctx.violation("emitted-more-than-once:" + name, "more datagrams carry the message than the original + taken copies that "
                          "were legitimately sent", dict(wit, count=n, expected=emitted_expected))
        elif n < emitted_expected:
            ctx.violation("unclaimed-message-lost:" + name, "an unclaimed message did not reach the wire",
                          dict(wit, count=n, expected=emitted_expected))
        ran = [e for e in h.log if e[1] == "lludp" and e[3] == name]
        if len(ran) != ran_expected:
            ctx.violation("later-addon-hook-skipped:" + name, "not every addon's hook ran for the message",
                          dict(wit, ran=len(ran), expected=ran_expected))
        followup(ctx, h, wit)
        ctx.nontrivial(("proxy-read", kind, tuple(behaviours)))
    finally:
        h.close()


def _first_special(behaviours):
    for b in behaviours:
        if b not in ("none", "false", "zero"):
            return b
    return "none"


def followup(ctx, h, wit):
    """After any scenario a plain message must still get through every addon's hook, the logger and the wire."""
    for a in h.addons:
        a.lludp = a.packet = a.rlv = "none"
    h.log.clear()
    for direction_in in (False, True):
        before = len(h.rig.sendlog)
        text, data = h.chat(direction_in, False)
        exc = h.feed(direction_in, data)
        n = h.emissions_with_text(text)
        ran = [e for e in h.log if e[1] == "lludp" and e[3] in ("ChatFromViewer", "ChatFromSimulator")]
        if exc is not None or n != 1 or h.logger.logged.count(text) != 1:
            ctx.violation("proxy-wedged-after-scenario", "a later plain message was not processed normally",
                          dict(wit, followup_direction="in" if direction_in else "out", exc=repr(exc)[:200], emitted=n,
                               logged=h.logger.logged.count(text)))
            return
        ctx.count("followups_delivered")
    if len([e for e in h.log if e[1] == "lludp"]) != 2 * len(h.addons):
        ctx.violation("hooks-not-called-for-later-message", "not every addon's hook ran for later messages",
                      dict(wit, log=h.log[:8]))




def check_undecodable_with_failing_hooks(ctx, behaviour, direction_in, reliable, cut):
    """A datagram whose header is fine and whose body is cut short passes through a proxy that parses bodies on demand; an addon
    hook that looks inside fails.  That failure is the addon's: the next addon still gets its turn and the datagram goes on the
    wire once, as it came."""
    h = Harness(2, deferred=True)
    try:
        h.addons[0].lludp = behaviour
        # (a message the proxy has no reason to look into itself)
        flags = int(PacketFlags.RELIABLE) if reliable else 0
        if direction_in:
            m = Message("AlertMessage", Block("AlertData", Message="undecodable body " + "x" * 20), packet_id=h.in_id, flags=flags)
            h.in_id += 1
        else:
            m = Message("ScriptDialogReply", Block("AgentData", AgentID=h.session.agent_id, SessionID=h.session.id),
                        Block("Data", ObjectID=h.session.agent_id, ChatChannel=5, ButtonIndex=1, ButtonLabel="undecodable " + "x" * 20),
                        packet_id=h.out_id, flags=flags)
            h.out_id += 1
        data = bytes(_ser.serialize(m))
        data = data[:len(data) - cut]
        wit = {"hook": "handle_lludp_message", "behaviour": behaviour, "direction": "in" if direction_in else "out",
               "reliable": reliable, "cut": cut, "datagram": data[:120]}
        before = len(h.rig.sendlog)
        exc = h.feed(direction_in, data)
        sent = []
        for (_, out, addr) in h.rig.sendlog[before:]:
            payload = out
            if addr == h.client:
                un = socks_unwrap_ref(out)
                payload = un[1] if un is not None else out
            if payload[6:] == data[6:] and payload[1:5] == data[1:5]:
                sent.append(payload)
        second_ran = len([e for e in h.log if e[0] == "A1" and e[1] == "lludp"])
        ctx.ev()
        ctx.count("scenarios")
        ctx.count("undecodable_body_scenarios")
        if exc is not None or len(sent) != 1 or second_ran != 1:
            ctx.violation("undecodable-body:" + behaviour + (":raised" if exc is not None else ":not-once" if len(sent) != 1
                                                             else ":later-addon-skipped"),
                          "with a hook failing on a datagram whose body does not parse, the datagram was not handed to the next "
                          "addon and put on the wire exactly once", dict(wit, exc=repr(exc)[:300], emitted=len(sent),
                                                                       second_addon_hook_runs=second_ran))
            return
        followup(ctx, h, wit)
        ctx.nontrivial(("undecodable", behaviour, direction_in, reliable, cut))
    finally:
        h.close()


# ------------------------------------------------------------------ addons loaded from script files that go bad while running

SCRIPT_FAULTS = ["none", "dep_deleted", "dep_dir_becomes_file", "dep_symlink_loop", "dep_syntax_error", "dep_raises_on_import",
                 "script_deleted", "script_syntax_error", "script_raises_on_import", "script_hook_now_raises",
                 "script_unload_raises", "script_init_raises", "script_dir_becomes_file"]

_SCRIPT_TMPL = """
import sys
if {deps!r} not in sys.path:
    sys.path.insert(0, {deps!r})
import {dep}
from hippolyzer.lib.proxy.addons import AddonManager
from hippolyzer.lib.proxy.addon_utils import BaseAddon
AddonManager.hot_reload({dep})
{module_level}

class ScriptAddon(BaseAddon):
    def handle_lludp_message(self, session, region, message):
        import builtins
        builtins._hv_c07_script_log.append(({version!r}, message.name))
        {hook_body}

    def handle_unload(self, session_manager):
        {unload_body}

    def handle_init(self, session_manager):
        {init_body}

addons = [ScriptAddon()]
"""


def check_script_addons(ctx, fault, direction_in, reliable, second_fault=None):
    """One addon object plus one addon loaded from a script file that hot-reloads a helper module.  While traffic flows the
    files behind the script addon go bad in the ways files do (deleted, half-written, their directory gone, a symlink loop)
    and the periodic reload check runs before every message: whatever the reload makes of it, every message is still
    handed to the healthy addon and put on the wire exactly once."""
    import builtins
    import os
    import shutil
    import sys
    import tempfile
    from hippolyzer.lib.proxy.addons import AddonManager
    n = ctx.counters.get("script_addon_scenarios", 0)
    tmp = tempfile.mkdtemp(prefix="hvc07_")
    deps = os.path.join(tmp, "deps")
    os.mkdir(deps)
    dep_name = f"hvc07dep_{os.getpid()}_{n}"
    dep_path = os.path.join(deps, dep_name + ".py")
    script_dir = os.path.join(tmp, "scripts")
    os.mkdir(script_dir)
    script_path = os.path.join(script_dir, f"hvc07addon_{os.getpid()}_{n}.py")
    builtins._hv_c07_script_log = []
    stamp = [1_600_000_000]

    def write(path, text):
        with open(path, "w") as f:
            f.write(text)
        stamp[0] += 10
        os.utime(path, (stamp[0], stamp[0]))

    task_hook = ("if not getattr(self, '_hv_task', None):\n"
                 "            import asyncio\n"
                 "            self._hv_task = self._schedule_task(asyncio.sleep(3600), session=session, addon_scoped=False)\n"
                 "        return None")

    def script(version, hook_body=task_hook, unload_body="pass", init_body="pass", module_level=""):
        return _SCRIPT_TMPL.format(deps=deps, dep=dep_name, version=version, hook_body=hook_body, unload_body=unload_body,
                                   init_body=init_body, module_level=module_level)

    wit = {"fault": fault, "second_fault": second_fault, "direction": "in" if direction_in else "out", "reliable": reliable}
    h = Harness(1)
    try:
        AddonManager.HOTRELOAD_IMPORTERS.clear()
        write(dep_path, "VALUE = 1\n")
        write(script_path, script("v1", unload_body='raise ValueError("scripted unload")' if fault == "script_unload_raises"
                                  else "pass"))
        AddonManager.LAST_RELOAD = None
        try:
            AddonManager.load_addon_from_path(script_path, reload=True, raise_exceptions=True)
        except Exception as e:
            ctx.inconclusive_because(f"script addon could not be loaded: {e!r}"[:200])
            return
        h.rig.run_loop_once()

        def one_message(stage):
            AddonManager.LAST_RELOAD = None          # "more than two seconds later"
            h.log.clear()
            del builtins._hv_c07_script_log[:]
            text, data = h.chat(direction_in, reliable)

            async def _feed():          # (a running loop, as in the real proxy: hooks may schedule tasks)
                return h.feed(direction_in, data)
            exc = h.rig.loop.run_until_complete(_feed())
            try:
                h.rig.run_loop_once()
            except Exception:
                pass
            emitted = h.emissions_with_text(text)
            healthy_ran = len([e for e in h.log if e[1] == "lludp"])
            if exc is not None or emitted != 1 or healthy_ran != 1 or h.logger.logged.count(text) != 1:
                ctx.violation("script-addon-fault:" + fault + (":raised" if exc is not None else ":not-once" if emitted != 1
                                                                else ":healthy-addon-skipped" if healthy_ran != 1 else ":not-logged"),
                              "after the files behind a script addon went bad, a message was not handed to the other addon and "
                              "put on the wire exactly once",
                              dict(wit, stage=stage, exc=repr(exc)[:300], emitted=emitted, healthy_addon_hook_runs=healthy_ran,
                                   logged=h.logger.logged.count(text)))
                return False
            return True

        if not one_message("before"):
            return
        if not builtins._hv_c07_script_log:
            ctx.inconclusive_because("script addon's hook never ran before the fault")
            return
        ctx.count("script_addon_hook_runs", len(builtins._hv_c07_script_log))
        # ---- the fault(s)
        def apply_fault(f, ver):
            if f == "dep_deleted":
                if os.path.lexists(dep_path):
                    os.remove(dep_path)
            elif f == "dep_dir_becomes_file":
                if os.path.isdir(deps):
                    shutil.rmtree(deps)
                    write(deps, "not a directory any more")
            elif f == "dep_symlink_loop":
                if os.path.isdir(deps):
                    if os.path.lexists(dep_path):
                        os.remove(dep_path)
                    os.symlink(dep_path, dep_path)
            elif f == "dep_syntax_error":
                if os.path.isdir(deps) and not os.path.islink(dep_path):
                    write(dep_path, "def (:\n")
            elif f == "dep_raises_on_import":
                if os.path.isdir(deps) and not os.path.islink(dep_path):
                    write(dep_path, "raise RuntimeError('scripted import failure')\n")
            elif f == "script_deleted":
                if os.path.isdir(script_dir) and os.path.exists(script_path):
                    os.remove(script_path)
            elif f == "script_dir_becomes_file":
                if os.path.isdir(script_dir):
                    shutil.rmtree(script_dir)
                    write(script_dir, "not a directory any more")
            elif os.path.isdir(script_dir):
                if f == "script_syntax_error":
                    write(script_path, "class (:\n")
                elif f == "script_raises_on_import":
                    write(script_path, script(ver, module_level="raise KeyError('scripted import failure')"))
                elif f == "script_hook_now_raises":
                    write(script_path, script(ver, hook_body="raise ValueError('scripted hook failure')"))
                elif f == "script_unload_raises":
                    write(script_path, script(ver, unload_body='raise ValueError("scripted unload")'))
                elif f == "script_init_raises":
                    write(script_path, script(ver, init_body="raise ValueError('scripted init failure')"))
                elif f == "script_repaired":
                    write(script_path, script(ver))
        apply_fault(fault, "v2")
        for stage in ("after-1", "after-2", "after-3"):
            if not one_message(stage):
                return
            if any(v == "v2" for (v, _) in builtins._hv_c07_script_log):
                ctx.count("script_reloads_observed")
        if second_fault is not None:
            # things keep happening to the files: a second change after the first (including the author repairing the script)
            apply_fault(second_fault, "v3")
            for stage in ("second-1", "second-2"):
                if not one_message(stage):
                    return
                if any(v == "v3" for (v, _) in builtins._hv_c07_script_log):
                    ctx.count("script_second_reloads_observed")
            ctx.count("script_addon_double_fault_scenarios")
        # whatever became of the script addon, a task it scheduled earlier (not tied to the addon's own life) may still be
        # around when the avatar arrives in a region: that message, too, is nobody's but the viewer's
        import gc
        gc.collect()
        AddonManager.LAST_RELOAD = None
        h.log.clear()
        amc = Message("AgentMovementComplete", Block("AgentData", AgentID=h.session.agent_id, SessionID=h.session.id),
                      Block("Data", Position=(1.0, 2.0, 3.0), LookAt=(1.0, 0.0, 0.0), RegionHandle=h.region.handle or 1, Timestamp=1),
                      Block("SimData", ChannelVersion="x"), packet_id=h.in_id, flags=0)
        h.in_id += 1
        before = len(h.rig.sendlog)
        data = bytes(_ser.serialize(amc))

        async def _feed_amc():
            return h.feed(True, data)
        exc = h.rig.loop.run_until_complete(_feed_amc())
        sent = 0
        for (_, out, addr) in h.rig.sendlog[before:]:
            if addr == h.client:
                un = socks_unwrap_ref(out)
                try:
                    if un is not None and _eager.deserialize(un[1]).name == "AgentMovementComplete":
                        sent += 1
                except Exception:
                    pass
        healthy_ran = len([e for e in h.log if e[1] == "lludp"])
        if exc is not None or sent != 1 or healthy_ran != 1:
            ctx.violation("script-addon-fault:" + fault + ":arrival-message" + (":raised" if exc is not None else ":not-once"
                                                                               if sent != 1 else ":healthy-addon-skipped"),
                          "with a task of a reloaded / unloaded script addon still scheduled, the avatar's arrival message was not "
                          "handed to the other addon and put on the wire exactly once",
                          dict(wit, exc=repr(exc)[:300], emitted=sent, healthy_addon_hook_runs=healthy_ran))
            return
        ctx.count("arrival_messages_with_orphaned_tasks")
        ctx.count("script_addon_scenarios")
        ctx.cover("script_faults", fault)
        if fault != "none":
            ctx.count("script_addon_faults_survived")
        ctx.nontrivial(("script", fault, second_fault, direction_in, reliable))
        ctx.ev()
    finally:
        try:
            h.close()
        finally:
            AddonManager.HOTRELOAD_IMPORTERS.clear()
            for name in [k for k in sys.modules if k.startswith("hvc07")]:
                sys.modules.pop(name, None)
            while deps in sys.path:
                sys.path.remove(deps)
            shutil.rmtree(tmp, ignore_errors=True)


# ------------------------------------------------------------------ other hook points

def check_packet_hook(ctx, behaviours, direction_in):
    h = Harness(len(behaviours))
    try:
        for a, b in zip(h.addons, behaviours):
            a.packet = b
        text, data = h.chat(direction_in, True)
        exc = h.feed(direction_in, data)
        claimed = False
        ran_expected = 0
        for b in behaviours:
            ran_expected += 1
            if b == "true":
                claimed = True
                break
        wit = {"hook": "handle_proxied_packet", "behaviours": list(behaviours), "direction": "in" if direction_in else "out"}
        ctx.ev()
        ctx.count("scenarios")
        ctx.count("packet_hook_scenarios")
        if exc is not None:
            ctx.violation("exception-escaped-proxy:packet-hook", "an exception left handle_proxied_packet", dict(wit, exc=repr(exc)[:300]))
        n = h.emissions_with_text(text)
        if n != (0 if claimed else 1):
            ctx.violation("packet-hook-emission-count", "emission count differs from what the packet hook claims allow",
                          dict(wit, count=n))
        if len([e for e in h.log if e[1] == "packet"]) != ran_expected:
            ctx.violation("later-addon-hook-skipped", "a packet hook stopped another addon's packet hook", dict(wit))
        followup(ctx, h, wit)
        ctx.nontrivial(("packet", tuple(behaviours), direction_in))
    finally:
        h.close()


def check_predicate(ctx, level, direction_in, reliable, pred_exc):
    """A subscription whose predicate raises (e.g. a wait_for() predicate indexing a block the message does not have)
    must not stop the subscribers after it - same level (named and wildcard) or the other level - nor anything else."""
    h = Harness(1)
    try:
        target = h.session.message_handler if level == "session" else h.region.message_handler
        other = h.region.message_handler if level == "session" else h.session.message_handler
        name = "ChatFromSimulator" if direction_in else "ChatFromViewer"
        mode = {"on": True}

        def pred(msg):
            if mode["on"]:
                raise pred_exc("scripted predicate failure")
            return False

        same_named, same_wild, other_named = [], [], []
        wit = {"hook": f"{level}.message_handler predicate", "behaviour": "predicate raises " + pred_exc.__name__,
               "direction": "in" if direction_in else "out", "reliable": reliable}
        with target.subscribe_async((name,), predicate=pred, take=False):
            target.subscribe(name, lambda m: same_named.append(m.name) and None)
            target.subscribe("*", lambda m: same_wild.append(m.name) and None)
            other.subscribe(name, lambda m: other_named.append(m.name) and None)
            text, data = h.chat(direction_in, reliable)
            exc = h.feed(direction_in, data)
            ctx.ev()
            ctx.count("scenarios")
            ctx.count("predicate_scenarios")
            ctx.count("hook_exceptions_raised")
            if exc is not None:
                ctx.violation("exception-escaped-proxy:predicate", "an exception left handle_proxied_packet", dict(wit, exc=repr(exc)[:300]))
            n = h.emissions_with_text(text)
            if n != 1:
                ctx.violation("emitted-more-than-once" if n > 1 else "unclaimed-message-lost",
                              "a message nobody claimed was not put on the wire exactly once", dict(wit, count=n))
            for label, calls in (("same-level", same_named), ("same-level-wildcard", same_wild), ("other-level", other_named)):
                if len(calls) != 1:
                    ctx.violation("later-subscriber-skipped:" + label, "a failing subscription predicate stopped another subscriber",
                                  dict(wit, skipped=label, calls=len(calls)))
            if len([e for e in h.log if e[1] == "lludp"]) != 1:
                ctx.violation("later-addon-hook-skipped", "a failing predicate stopped the addon hook", dict(wit))
            if h.logger.logged.count(text) < 1:
                ctx.violation("bookkeeping-skipped:predicate", "the message logger was not reached", dict(wit))
            mode["on"] = False
            followup(ctx, h, wit)
        ctx.nontrivial(("predicate", level, direction_in, reliable, pred_exc.__name__))
    finally:
        h.close()


def _names_as(form, names):
    """Round 11: message names are handed over as any iterable the signature allows."""
    if form == "tuple":
        return tuple(names)
    if form == "list":
        return list(names)
    if form == "generator":
        return (n for n in names)
    if form == "iterator":
        return iter(tuple(names))
    return map(str, names)


NAME_FORMS = ("tuple", "generator", "list", "iterator", "map")


def check_wait_for_multi(ctx, level, first_in, reliable, form="tuple"):
    """A waiter for either of two message names (MessageHandler.wait_for, taking): the first arrival is the waiter's (a claim),
    after that it is gone - a later message of the OTHER name belongs to nobody and must be forwarded exactly once."""
    h = Harness(1)
    try:
        target = h.session.message_handler if level == "session" else h.region.message_handler
        fut = target.wait_for(_names_as(form, ("ChatFromViewer", "ChatFromSimulator")), take=True)
        ctx.count("names_handed_over_as_" + form)
        wit = {"hook": f"{level}.message_handler.wait_for(two names)", "behaviour": "wait_for", "first": "in" if first_in else "out",
               "reliable": reliable, "names_as": form}
        text1, data1 = h.chat(first_in, reliable)
        exc = h.feed(first_in, data1)
        ctx.ev()
        ctx.count("scenarios")
        ctx.count("wait_for_scenarios")
        if exc is not None:
            ctx.violation("exception-escaped-proxy:wait_for", "an exception left handle_proxied_packet", dict(wit, exc=repr(exc)[:300]))
        if not fut.done():
            ctx.violation("wait-for-not-resolved", "a waiter was not given the message it waited for", wit)
        n1 = h.emissions_with_text(text1)
        if n1 != 0:
            ctx.violation("taken-message-emitted", "a message taken by a waiter was put on the wire by the proxy", dict(wit, count=n1))
        ctx.count("claims_observed")
        # the other name, twice (the waiter must be gone for every name it had subscribed to)
        for k in range(2):
            text2, data2 = h.chat(not first_in, reliable)
            exc = h.feed(not first_in, data2)
            if exc is not None:
                ctx.violation("exception-escaped-proxy:wait_for", "an exception left handle_proxied_packet", dict(wit, exc=repr(exc)[:300]))
            n2 = h.emissions_with_text(text2)
            if n2 != 1:
                ctx.violation("unclaimed-message-lost" if n2 == 0 else "emitted-more-than-once",
                              "a message nobody claimed (its waiter had already been satisfied) was not put on the wire exactly once",
                              dict(wit, count=n2, nth=k))
        followup(ctx, h, wit)
        ctx.nontrivial(("wait_for", level, first_in, reliable))
    finally:
        h.close()


def check_wait_for_abandoned(ctx, level, direction_in, how, form="tuple"):
    """A waiter that gave up - its future was cancelled, or its timeout expired, or both in either order - must be gone:
    the next matching message belongs to nobody and is forwarded exactly once."""
    import asyncio
    h = Harness(1)
    try:
        target = h.session.message_handler if level == "session" else h.region.message_handler
        name = "ChatFromSimulator" if direction_in else "ChatFromViewer"
        wit = {"hook": f"{level}.message_handler.wait_for(timeout)", "behaviour": how, "direction": "in" if direction_in else "out",
               "names_as": form}
        ctx.count("names_handed_over_as_" + form)
        async def abandon():
            if how == "left_block":
                # a taking subscription for the length of a block that has been left
                with target.subscribe_async(_names_as(form, (name,)), take=True):
                    await asyncio.sleep(0)
                return None
            fut = target.wait_for(_names_as(form, (name,)), timeout=0.02, take=True)     # needs a running loop for its timeout task
            if how == "cancel_then_timeout":
                fut.cancel()
            await asyncio.sleep(0.06)                                    # the waiter's own timeout passes
            if how == "timeout_then_cancel":
                fut.cancel()
            if fut.done() and not fut.cancelled():
                fut.exception()                                          # retrieve, so nothing is logged at teardown
            return fut
        h.rig.loop.run_until_complete(abandon())
        ctx.ev()
        ctx.count("scenarios")
        ctx.count("abandoned_wait_scenarios")
        for k in range(2):
            text, data = h.chat(direction_in, False)
            exc = h.feed(direction_in, data)
            if exc is not None:
                ctx.violation("exception-escaped-proxy:wait_for", "an exception left handle_proxied_packet", dict(wit, exc=repr(exc)[:300]))
            n = h.emissions_with_text(text)
            if n != 1:
                ctx.violation("unclaimed-message-lost" if n == 0 else "emitted-more-than-once",
                              "a message nobody claimed (its waiter had given up) was not put on the wire exactly once",
                              dict(wit, count=n, nth=k))
        followup(ctx, h, wit)
        ctx.nontrivial(("abandoned-wait", level, direction_in, how))
    finally:
        h.close()


def check_subscriber(ctx, level, which, behaviour, direction_in, reliable):
    """Session- or region-level message_handler subscribers, named or wildcard."""
    h = Harness(1)
    try:
        target = h.session.message_handler if level == "session" else h.region.message_handler
        name = "*" if which == "wildcard" else ("ChatFromSimulator" if direction_in else "ChatFromViewer")
        calls = []
        taken = []

        mode = {"on": True}

        def sub(msg):
            calls.append(msg.name)
            if not mode["on"]:
                return None
            if behaviour == "true":
                return True
            if behaviour == "raise":
                raise ValueError("scripted subscriber")
            if behaviour == "take":
                taken.append(msg.take())
            if behaviour == "take_send_copy":
                h.region.circuit.send(msg.take())
            if behaviour == "unsub_true":
                # removes its own subscription and ALSO asks (truthy return) to be removed
                target.register(name).unsubscribe(sub)
                return True
            return None

        other_calls = []
        target.subscribe(name, sub)
        target.subscribe(name, lambda m: other_calls.append(m.name) and None)
        text, data = h.chat(direction_in, reliable)
        exc = h.feed(direction_in, data)
        wit = {"hook": f"{level}.message_handler[{which}]", "behaviour": behaviour, "direction": "in" if direction_in else "out",
               "reliable": reliable}
        ctx.ev()
        ctx.count("scenarios")
        ctx.count("subscriber_scenarios")
        if behaviour == "raise":
            ctx.count("hook_exceptions_raised")
        if exc is not None:
            ctx.violation("exception-escaped-proxy:subscriber", "an exception left handle_proxied_packet", dict(wit, exc=repr(exc)[:300]))
        expected = {"none": 1, "true": 1, "raise": 1, "take": 0, "take_send_copy": 1, "unsub_true": 1}[behaviour]
        n = h.emissions_with_text(text)
        if n > 1:
            ctx.violation("emitted-more-than-once", "a proxied message was put on the wire more than once", dict(wit, count=n))
        elif n != expected:
            ctx.violation("subscriber-emission-count", "emission count differs from what the subscriber's claim allows",
                          dict(wit, count=n, expected=expected))
        if len(calls) != 1 or len(other_calls) != 1:
            ctx.violation("subscriber-not-called-once", "a subscriber (or the one after it) was not called exactly once",
                          dict(wit, calls=len(calls), other=len(other_calls)))
        if len([e for e in h.log if e[1] == "lludp"]) != 1:
            ctx.violation("later-addon-hook-skipped", "a subscriber's behaviour stopped the addon hook", dict(wit))
        if h.logger.logged.count(text) < 1:
            ctx.violation("bookkeeping-skipped:subscriber", "the message logger was not reached", dict(wit))
        if behaviour in ("take", "take_send_copy"):
            ctx.count("claims_observed")
        mode["on"] = False
        followup(ctx, h, wit)
        ctx.nontrivial(("subscriber", level, which, behaviour, direction_in, reliable))
    finally:
        h.close()


def check_async_subscribers(ctx, level, which, direction_in, first_raises):
    """Several coroutine subscribers (and a plain one after them) on the same message: each is its own subscriber and is run
    once with the message - whatever the one before it does."""
    import asyncio
    h = Harness(1)
    try:
        target = h.session.message_handler if level == "session" else h.region.message_handler
        name = "*" if which == "wildcard" else ("ChatFromSimulator" if direction_in else "ChatFromViewer")
        calls = {"a": 0, "b": 0, "c": 0, "plain": 0}

        async def sub_a(msg):
            calls["a"] += 1
            if first_raises:
                raise ValueError("scripted async subscriber")

        async def sub_b(msg):
            calls["b"] += 1

        async def sub_c(msg):
            calls["c"] += 1
        target.subscribe(name, sub_a)
        target.subscribe(name, sub_b)
        target.subscribe(name, sub_c)
        target.subscribe(name, lambda m: calls.__setitem__("plain", calls["plain"] + 1))
        text, data = h.chat(direction_in, False)

        async def go():
            exc = h.feed(direction_in, data)
            for _ in range(5):
                await asyncio.sleep(0)
            return exc
        exc = h.rig.loop.run_until_complete(go())
        wit = {"hook": f"{level}.message_handler[{which}] coroutine subscribers", "direction": "in" if direction_in else "out",
               "behaviour": "first raises" if first_raises else "none"}
        ctx.ev()
        ctx.count("scenarios")
        ctx.count("async_subscriber_scenarios")
        if exc is not None:
            ctx.violation("exception-escaped-proxy:subscriber", "an exception left handle_proxied_packet", dict(wit, exc=repr(exc)[:300]))
        if h.emissions_with_text(text) != 1:
            ctx.violation("subscriber-emission-count", "emission count differs from what the subscribers' claims allow",
                          dict(wit, count=h.emissions_with_text(text), expected=1))
        if any(v != 1 for v in calls.values()):
            ctx.violation("async-subscriber-not-called-once", "coroutine subscribers of one message were not each run exactly once",
                          dict(wit, calls=dict(calls)))
        ctx.nontrivial(("async-subscribers", level, which, direction_in, first_raises))
    finally:
        h.close()


def check_rlv(ctx, behaviours, n_commands):
    h = Harness(len(behaviours))
    try:
        for a, b in zip(h.addons, behaviours):
            a.rlv = b
        chat = "@" + ",".join(f"cmd{i}=n" for i in range(n_commands))
        text, data = h.chat(True, True, text=chat, chat_type=8)   # ChatType.OWNER
        exc = h.feed(True, data)
        wit = {"hook": "handle_rlv_command", "behaviours": list(behaviours), "commands": n_commands}
        ctx.ev()
        ctx.count("scenarios")
        ctx.count("rlv_scenarios")
        if exc is not None:
            ctx.violation("exception-escaped-proxy:rlv", "an exception left handle_proxied_packet", dict(wit, exc=repr(exc)[:300]))
        n = h.emissions_with_text(chat)
        handled = "true" in behaviours and (behaviours.index("true") == 0 or all(b != "true" for b in behaviours[:0]))
        first_true = next((i for i, b in enumerate(behaviours) if b == "true"), None)
        claimed = first_true is not None
        if n > 1 or n != (0 if claimed else 1):
            ctx.violation("rlv-emission-count", "emission count differs from what the RLV hook claims allow",
                          dict(wit, count=n, claimed=claimed))
        if h.logger.logged.count(chat) < 1:
            ctx.violation("bookkeeping-skipped:rlv", "the message logger was not reached exactly once", dict(wit, logged=h.logger.logged[:4]))
        if any(b.startswith("raise") for b in behaviours):
            ctx.count("hook_exceptions_raised")
        followup(ctx, h, wit)
        ctx.nontrivial(("rlv", tuple(behaviours), n_commands))
    finally:
        h.close()


def check_object_hook(ctx, behaviour):
    """An object hook that raises must not stop the ObjectUpdate from being forwarded or later messages."""
    h = Harness(2)
    try:
        for a in h.addons:
            a.objhook = behaviour
        h.session.objects.track_region_objects(h.region.handle)
        from hippolyzer.lib.base.datatypes import UUID
        m = Message("ObjectUpdate", Block("RegionData", RegionHandle=h.region.handle, TimeDilation=65535),
                    Block("ObjectData", ID=1234, State=0, FullID=UUID(int=77), CRC=1, PCode=9, Material=3, ClickAction=0,
                          Scale=(1.0, 1.0, 1.0), ObjectData=b"\x00" * 60, ParentID=0, UpdateFlags=0, PathCurve=16, ProfileCurve=1,
                          PathBegin=0, PathEnd=0, PathScaleX=100, PathScaleY=100, PathShearX=0, PathShearY=0, PathTwist=0,
                          PathTwistBegin=0, PathRadiusOffset=0, PathTaperX=0, PathTaperY=0, PathRevolutions=0, PathSkew=0,
                          ProfileBegin=0, ProfileEnd=0, ProfileHollow=0, TextureEntry=b"", TextureAnim=b"", NameValue=b"",
                          Data=b"", Text=b"", TextColor=b"\x00" * 4, MediaURL=b"", PSBlock=b"", ExtraParams=b"",
                          Sound=UUID(), OwnerID=UUID(), Gain=0.0, Flags=0, Radius=0.0, JointType=0,
                          JointPivot=(0.0, 0.0, 0.0), JointAxisOrAnchor=(0.0, 0.0, 0.0)),
                    packet_id=h.in_id, flags=0)
        h.in_id += 1
        before = len(h.rig.sendlog)
        exc = h.feed(True, bytes(_ser.serialize(m)))
        wit = {"hook": "handle_object_updated", "behaviour": behaviour}
        ctx.ev()
        ctx.count("scenarios")
        ctx.count("object_hook_scenarios")
        new = h.rig.sendlog[before:]
        if exc is not None or len(new) != 1:
            ctx.violation("object-hook-disturbed-forwarding", "an object hook's behaviour changed the forwarding of the "
                          "ObjectUpdate", dict(wit, exc=repr(exc)[:200], sends=len(new)))
        if len([e for e in h.log if e[1] == "object"]) != len(h.addons):
            ctx.violation("later-addon-hook-skipped", "an object hook stopped another addon's object hook",
                          dict(wit, log=h.log[:6]))
        if behaviour.startswith("raise"):
            ctx.count("hook_exceptions_raised")
        followup(ctx, h, wit)
        ctx.nontrivial(("object", behaviour))
    finally:
        h.close()


# ------------------------------------------------------------------ ownership state machine

OPS = ["T", "S0", "D0", "S1", "D1"]


def check_ownership(ctx, ops, direction, reliable):
    transport = RecTransport()
    circuit = ProxiedCircuit(("10.0.0.1", 1), ("10.1.0.1", 2), transport)
    flags = int(PacketFlags.RELIABLE) if reliable else 0
    m = Message("CompletePingCheck", Block("PingID", PingID=1), packet_id=5, flags=flags)
    orig = UDPMessageDeserializer().deserialize(bytes(_ser.serialize(m)))
    orig.direction = direction
    copies = []
    state = {"orig": "live", "queued": False}
    copy_state = []
    wit = {"ops": list(ops), "direction": direction.name, "reliable": reliable}
    ctx.ev()
    ctx.count("ownership_sequences")
    for op in ops:
        before = len(transport.packets)
        prev_flags = (orig.finalized, orig.dropped)
        exc = None
        try:
            if op == "T":
                copies.append(orig.take())
                copy_state.append("live")
            elif op == "S0":
                circuit.send(orig)
            elif op == "D0":
                circuit.drop_message(orig)
            elif op == "S1":
                if not copies:
                    continue
                circuit.send(copies[-1])
            elif op == "D1":
                if not copies:
                    continue
                circuit.drop_message(copies[-1])
        except Exception as e:
            exc = e
        emitted = transport.packets[before:]
        data_emits = [p for p in emitted if b"PacketAck" not in p[1] and _name(p[1]) == "CompletePingCheck"]
        # flags never go backwards
        if (prev_flags[0] and not orig.finalized) or (prev_flags[1] and not orig.dropped):
            ctx.violation("ownership-flags-went-backwards", "finalized/dropped of a message went from set to unset", dict(wit, op=op))
        if op == "T":
            if state["orig"] == "live":
                state["queued"] = True
            continue
        if op in ("S0", "D0"):
            if state["orig"] != "live":
                ctx.count("illegal_reuse_rejected")
                if not isinstance(exc, RuntimeError) or emitted:
                    ctx.violation("finalized-message-reused", "a message that was sent or dropped was sent/dropped again "
                                  "(no RuntimeError, or something was emitted)", dict(wit, op=op, exc=repr(exc)[:200],
                                                                                       emitted=len(emitted)))
                continue
            if op == "S0":
                if state["queued"]:
                    if not isinstance(exc, RuntimeError) or emitted:
                        ctx.violation("queued-original-sent", "the original of a taken (queued) message was sent", dict(wit, op=op))
                    continue
                if exc is not None or len(data_emits) != 1:
                    ctx.violation("legal-send-failed", "a legal first send did not emit exactly once", dict(wit, op=op, exc=repr(exc)[:200]))
                state["orig"] = "sent"
            else:
                if exc is not None or data_emits:
                    ctx.violation("legal-drop-failed", "a legal first drop raised or emitted the message", dict(wit, op=op, exc=repr(exc)[:200]))
                state["orig"] = "dropped"
        else:
            i = len(copies) - 1
            if copy_state[i] != "live":
                ctx.count("illegal_reuse_rejected")
                if not isinstance(exc, RuntimeError) or emitted:
                    ctx.violation("finalized-message-reused", "a copy that was sent was sent/dropped again", dict(wit, op=op,
                                                                                                                   exc=repr(exc)[:200]))
                continue
            if op == "S1":
                if exc is not None or len(data_emits) != 1:
                    ctx.violation("legal-send-failed", "sending a taken copy did not emit exactly once", dict(wit, op=op, exc=repr(exc)[:200]))
                copy_state[i] = "sent"
            else:
                # dropping an unsent synthetic copy is a no-op in the code
                if exc is not None or data_emits:
                    ctx.violation("legal-drop-failed", "dropping a taken copy raised or emitted", dict(wit, op=op, exc=repr(exc)[:200]))
    ctx.nontrivial(("own", tuple(ops), direction.name, reliable))


def _name(data):
    try:
        return _eager.deserialize(data).name
    except Exception:
        return None


def run(ctx):
    import asyncio
    try:
        asyncio.get_event_loop_policy().get_event_loop()
    except Exception:
        asyncio.set_event_loop(asyncio.new_event_loop())
    idx = 0
    arity = ctx.pick(2, 3)
    combos = list(itertools.product(QUICK_BEHAVIOURS, repeat=arity))
    if not ctx.quick:
        # triples: the full cube is 5832 x 4; keep every pair in the first two slots and rotate the third
        pass
    for combo in combos:
        for direction_in in (False, True):
            for reliable in (False, True):
                idx += 1
                if not ctx.mine(idx):
                    continue
                if ctx.quick and (idx // ctx.nshards) % 2 and combo[0] in ("none", "false", "zero") and combo[1] in ("none", "false", "zero"):
                    continue
                if ctx.out_of_time():
                    ctx.inconclusive_because("work budget exhausted in the lludp hook matrix")
                    return
                check_lludp_scenario(ctx, combo, direction_in, reliable)
    if len(ctx.samples) < 2:
        ctx.sample({"hook": "handle_lludp_message", "behaviours_per_addon": BEHAVIOURS, "arity": arity})
    # other hook points (small spaces: every shard takes a slice)
    others = []
    for combo in itertools.product(["none", "true", "raise"], repeat=2):
        for d in (False, True):
            others.append(("packet", combo, d))
    for level in ("session", "region"):
        for which in ("named", "wildcard"):
            for beh in ("none", "true", "raise", "take", "take_send_copy", "unsub_true"):
                for d in (False, True):
                    for rel in (False, True):
                        others.append(("sub", level, which, beh, d, rel))
    for level in ("session", "region"):
        for d in (False, True):
            for rel in (False, True):
                for pe in (KeyError, ValueError):
                    others.append(("pred", level, d, rel, pe))
    for level in ("session", "region"):
        for d in (False, True):
            for rel in (False, True):
                others.append(("waitfor", level, d, rel, NAME_FORMS[len(others) % len(NAME_FORMS)]))
            for how in ("timeout_only", "cancel_then_timeout", "timeout_then_cancel", "left_block"):
                others.append(("abandoned", level, d, how, NAME_FORMS[len(others) % len(NAME_FORMS)]))
    for combo in itertools.product(["none", "true", "raise"], repeat=2):
        for n in (1, 2, 3):
            others.append(("rlv", combo, n))
    for beh in ("none", "raise"):
        others.append(("obj", beh))
    for beh in ("none", "peek_body", "peek_then_raise", "raise_value"):
        for d in (False, True):
            for rel in (False, True):
                for cut in (1, 7):
                    others.append(("undecodable", beh, d, rel, cut))
    for level in ("session", "region"):
        for which in ("named", "wildcard"):
            for d in (False, True):
                for fr in (False, True):
                    others.append(("asyncsub", level, which, d, fr))
    for fault in SCRIPT_FAULTS:
        for d in (False, True):
            others.append(("script", fault, d, fault in ("dep_dir_becomes_file", "script_syntax_error", "script_deleted")))
    seconds = SCRIPT_FAULTS[1:] + ["script_repaired"]
    pairs = [(f1, f2) for f1 in SCRIPT_FAULTS[1:] for f2 in seconds if f1 != f2 and f2 != "script_repaired"]
    import random as _random
    _random.Random(ctx.seed).shuffle(pairs)      # (the same list in every shard)
    pairs = [(f1, "script_repaired") for f1 in SCRIPT_FAULTS[1:]] + pairs
    for k, (f1, f2) in enumerate(pairs[:ctx.pick(24, len(pairs))]):
        others.append(("script", f1, bool(k % 2), bool(k % 3 == 0), f2))
    for kind in PROXY_READ_KINDS:
        for combo in (("none", "none"), ("false", "raise_value"), ("raise_key", "none"), ("true", "none"), ("none", "take_send_copy"),
                      ("drop", "none")):
            others.append(("proxyread", combo, kind))
    for i, o in enumerate(others):
        if not ctx.mine(i):
            continue
        if o[0] == "proxyread":
            check_proxy_read_messages(ctx, o[1], o[2])
        elif o[0] == "packet":
            check_packet_hook(ctx, o[1], o[2])
        elif o[0] == "sub":
            check_subscriber(ctx, *o[1:])
        elif o[0] == "pred":
            check_predicate(ctx, *o[1:])
        elif o[0] == "waitfor":
            check_wait_for_multi(ctx, *o[1:])
        elif o[0] == "abandoned":
            check_wait_for_abandoned(ctx, *o[1:])
        elif o[0] == "rlv":
            check_rlv(ctx, o[1], o[2])
        elif o[0] == "script":
            check_script_addons(ctx, *o[1:])
        elif o[0] == "undecodable":
            check_undecodable_with_failing_hooks(ctx, *o[1:])
        elif o[0] == "asyncsub":
            check_async_subscribers(ctx, *o[1:])
        else:
            check_object_hook(ctx, o[1])
    # ownership sequences
    max_len = ctx.pick(4, 6)
    i = 0
    for n in range(1, max_len + 1):
        for ops in itertools.product(OPS, repeat=n):
            for direction in (Direction.OUT, Direction.IN):
                for rel in (False, True):
                    i += 1
                    if ctx.mine(i):
                        check_ownership(ctx, ops, direction, rel)
    ctx.flag("exhaustive", True)


def replay(ctx, w):
    import asyncio
    try:
        asyncio.get_event_loop_policy().get_event_loop()
    except Exception:
        asyncio.set_event_loop(asyncio.new_event_loop())
    if "proxy_read_kind" in w:
        check_proxy_read_messages(ctx, tuple(w["behaviours"]), w["proxy_read_kind"])
    elif w.get("hook") == "handle_lludp_message":
        check_lludp_scenario(ctx, tuple(w["behaviours"]), w["direction"] == "in", w["reliable"])
    elif "fault" in w:
        check_script_addons(ctx, w["fault"], w["direction"] == "in", w["reliable"], w.get("second_fault"))
    elif "ops" in w:
        check_ownership(ctx, tuple(w["ops"]), Direction[w["direction"]], w["reliable"])
