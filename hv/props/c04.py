"""C04 - packet-id translation around injected packets is an order-preserving bijection.

Bounded-exhaustive DFS (state-hashed) over histories of {send next, skip ahead, fill hole, resend oldest,
resend newest, inject} on real InjectionTracker objects with small windows, plus seeded random walks
with larger windows.  After every step the stated laws are evaluated for every id in range.
"""
import copy

from .. import env

env.import_repo()

from hippolyzer.lib.proxy.circuit import InjectionTracker  # noqa: E402

from hippolyzer.lib.base.message.udpdeserializer import UDPMessageDeserializer  # noqa: E402
from hippolyzer.lib.base.settings import Settings  # noqa: E402

from ..monitors import tracker as tmon  # noqa: E402

_settings = Settings()
_settings.ENABLE_DEFERRED_PACKET_PARSING = False
_eager = UDPMessageDeserializer(settings=_settings)

LEVEL = "exploration"
SHARDS = {"quick": 8, "thorough": 16}
TIMEOUT_S = {"quick": 600, "thorough": 3000}
BUDGET_S = {"quick": 120, "thorough": 1500}
RULE = ("bounded-exhaustive DFS with (tracker state, shadow state) hashing over the alphabet {N: endpoint sends its next "
        "id, K: sends next+1 first (out of order), H: sends the oldest skipped id, R: resends its oldest id, L: resends "
        "its newest id, I: proxy injects} to depth D (quick 8, thorough 12) for window sizes 1,2,3 and starting ids 0/1; "
        "random walks of 300 steps with windows 1..50 and 10000. After EVERY step all laws are evaluated for every "
        "original id 0..max+3. distinct_nontrivial = distinct hashed (implementation, shadow) states with >= 1 injection"
        ". Round-5 addition: the same laws observed on the wire of a real ProxiedCircuit (quick 40, thorough 600 histories of 20-150 sends): endpoint packets, endpoint retransmissions, fresh injections, packets taken before forwarding, and take() copies of messages that already went out (forwarded or injected) - every proxy-originated datagram must carry a fresh injected id above everything seen, every forwarded one the expected id"
        ". Rounds 6-7: circuit histories with a socket failure under a forwarded packet followed by a retry of the same message object and the endpoint's retransmission, first sightings that carry the RESENT flag; one long history per four shards with the stock window and 1400-5000 remembered injections, probing early, late and random ids"
        ". Round 8: long histories also under the default window, with retransmissions and bisected probes around the oldest remembered injection"
        ". Round 9: circuit histories in which an idle endpoint's StartPingCheck names the id it will use next, the proxy injects, and the endpoint then sends that id"
        ". Round 10: circuit histories that start in the upper half of the 32-bit id range (2**31-3, 2**31+5, 3e9). Round 11: in the random walks the proxy also drops endpoint packets (mark_dropped), more of them than the window remembers")
ASSUMPTIONS = [
    "laws are only demanded for ids whose wire id is newer than the newest injection that aged out of the tracker's "
    "window (the property's own bounded-memory caveat); below it only 'no exception other than ValueError' is asserted",
    "the endpoint never reuses an id for a different packet; out-of-order arrival is by at most the skipped ids",
    "packet-id wrap-around is out of scope (documented TODO in the code)",
]
MUST_REACH = {"drops_beyond_what_the_window_remembers": 100, "circuit_histories_starting_in_the_upper_id_range": 5, "circuit_pings_naming_the_next_id": 50, "states": 500, "evictions_observed": 10, "reverse_after_later_injection": 10, "out_of_order_sends": 10,
              "resends_checked": 10, "law_evaluations": 10000, "circuit_forwarded": 100, "circuit_proxy_packets": 50,
              "circuit_replays_of_sent_messages": 10, "circuit_endpoint_resends": 5, "circuit_socket_failures": 20, "circuit_first_sightings_flagged_resent": 50,
              "long_history_injections": 1100, "long_history_probes": 100, "long_history_probes_after_eviction": 50}

ALPHABET = "NKHRLI"


class Model:
    """Shadow: complete injected set, eviction horizon, what the endpoint sent and what it was given."""

    def __init__(self, maxlen, start):
        self.maxlen = maxlen
        self.next_orig = start
        self.sent = []            # originals in the order first sent
        self.holes = []           # skipped originals not yet sent
        self.first = {}           # original -> wire id at first translation
        self.injected = set()
        self.window = []
        self.evicted_max = -1
        self.emitted = set()

    def key(self):
        return (self.next_orig, tuple(self.holes), tuple(sorted(self.first.items())), tuple(sorted(self.injected)),
                self.evicted_max)


def tracker_key(t):
    return (t._packet_id_base, t._injection_base, tuple(t.injections))


def step(ctx, t, m, action, path):
    """Apply one action to the real tracker and the shadow; returns False if the action is not enabled."""
    if action == "I":
        try:
            w = t.gen_injectable_id()
        except Exception as e:
            ctx.violation("inject-raises", "gen_injectable_id raised", {"path": path, "exc": repr(e)})
            return True
        if w in m.emitted:
            ctx.violation("injected-id-collides", "injected id equals a wire id already given to a forwarded packet",
                          {"path": path, "maxlen": m.maxlen, "wire": w})
        if w in m.injected:
            ctx.violation("injected-id-reused", "an injected id was allocated twice", {"path": path, "wire": w})
        m.injected.add(w)
        m.window.append(w)
        while len(m.window) > m.maxlen:
            m.evicted_max = max(m.evicted_max, m.window.pop(0))
            ctx.count("evictions_observed")
        return True
    if action == "N":
        o = m.next_orig
        m.next_orig += 1
    elif action == "K":
        if len(m.holes) >= 2:
            return False
        m.holes.append(m.next_orig)
        o = m.next_orig + 1
        m.next_orig += 2
        ctx.count("out_of_order_sends")
    elif action == "H":
        if not m.holes:
            return False
        o = m.holes.pop(0)
    elif action == "R":
        if not m.sent:
            return False
        o = m.sent[0]
    elif action == "L":
        if len(m.sent) < 2:
            return False
        o = m.sent[-1]
    else:
        raise ValueError(action)
    # exactly what ProxiedCircuit.prepare_message does for a forwarded packet
    try:
        w = t.get_effective_id(o)
        t.track_seen(w)
    except Exception as e:
        ctx.violation("translate-raises", "get_effective_id/track_seen raised", {"path": path, "orig": o, "exc": repr(e)})
        return True
    if o not in m.first:
        m.first[o] = w
        m.sent.append(o)
    m.emitted.add(w)
    return True


def expected_wire(injected, o):
    """Where original id o has to end up: shifted up by the injected ids at or below it (fixed point)."""
    w = o
    while True:
        w2 = o + sum(1 for i in injected if i <= w)
        if w2 == w:
            return w
        w = w2


def check_laws(ctx, t, m, path):
    """Evaluate the stated laws for every original id in range (read-only on the tracker)."""
    hi = m.next_orig + 3
    horizon = m.evicted_max
    prev_w = None
    prev_o = None
    wit = {"path": path, "maxlen": m.maxlen}
    for o in range(0, hi + 1):
        ctx.count("law_evaluations")
        try:
            w = t.get_effective_id(o)
        except Exception as e:
            ctx.violation("translate-raises", "get_effective_id raised", dict(wit, orig=o, exc=repr(e)))
            continue
        # scope is decided by where the id SHOULD be (not by what the implementation answered): ids that belong above the
        # newest aged-out injection are inside the statement
        exp_w = expected_wire(m.injected, o)
        in_scope = exp_w > horizon and (o not in m.first or m.first[o] > horizon)
        if in_scope and w <= horizon:
            ctx.violation("effective-id-below-aged-out-injection", "an id that belongs above every aged-out injection was translated "
                          "to a wire id at or below one", dict(wit, orig=o, wire=w, expected=exp_w, horizon=horizon,
                                                              injected=sorted(m.injected)))
            prev_w = None
            continue
        if not in_scope:
            prev_w = None
            continue
        if w in m.injected:
            ctx.violation("effective-id-is-injected", "translation yielded a wire id used for an injected packet",
                          dict(wit, orig=o, wire=w, injected=sorted(m.injected)))
        if prev_w is not None and not (prev_w < w):
            ctx.violation("not-order-preserving", "translation is not strictly increasing (not injective/order-preserving)",
                          dict(wit, orig_a=prev_o, wire_a=prev_w, orig_b=o, wire_b=w))
        if o in m.first:
            ctx.count("resends_checked")
            if m.first[o] != w:
                ctx.violation("translation-unstable", "an id translated again later got a different wire id",
                              dict(wit, orig=o, first=m.first[o], now=w))
        # inverse law
        try:
            back = t.get_original_id(w)
        except ValueError as e:
            if w not in m.injected:
                ctx.violation("reverse-raises-for-noninjected", "get_original_id raised for a non-injected wire id",
                              dict(wit, wire=w, exc=repr(e)))
            back = None
        except Exception as e:
            ctx.violation("reverse-wrong-exception", "get_original_id raised something other than ValueError",
                          dict(wit, wire=w, exc=repr(e)))
            back = None
        if back is not None and w not in m.injected:
            later = any(i > w for i in m.injected)
            if later:
                ctx.count("reverse_after_later_injection")
            if back != o:
                mech = "reverse-translation-wrong"
                if later:
                    mech = "reverse-translation-wrong:later-injection-exists"
                ctx.violation(mech, "a wire id translated back to a different original id",
                              dict(wit, wire=w, expected=o, got=back, injected=sorted(m.injected)))
        prev_w, prev_o = w, o
    # injected ids: was_injected must be true for every injection still inside the window
    for i in m.window:
        if not t.was_injected(i):
            ctx.violation("was-injected-false", "was_injected() is false for an injection inside the window",
                          dict(wit, wire=i))
    for w in m.emitted:
        if w > horizon and w not in m.injected and t.was_injected(w):
            ctx.violation("was-injected-true-for-forwarded", "was_injected() is true for a forwarded packet's wire id",
                          dict(wit, wire=w))


def dfs(ctx, maxlen, start, depth, first_actions):
    seen = set()
    states = 0
    transitions = 0
    t0 = InjectionTracker(0, maxlen=maxlen)
    m0 = Model(maxlen, start)
    stack = [(t0, m0, "")]
    while stack:
        t, m, path = stack.pop()
        if len(path) >= depth:
            continue
        if ctx.out_of_time():
            ctx.inconclusive_because("DFS budget exhausted")
            break
        for a in ALPHABET:
            if not path and a not in first_actions:
                continue
            t2 = copy.deepcopy(t)
            m2 = copy.deepcopy(m)
            p2 = path + a
            if not step(ctx, t2, m2, a, p2):
                continue
            transitions += 1
            ctx.ev()
            check_laws(ctx, t2, m2, p2)
            key = (tracker_key(t2), m2.key())
            if key in seen:
                continue
            seen.add(key)
            states += 1
            if m2.injected:
                ctx.nontrivial((maxlen, start) + key)
            stack.append((t2, m2, p2))
    ctx.count("states", states)
    ctx.count("transitions", transitions)
    return states, transitions


def random_walk(ctx, rng, maxlen, steps):
    t = InjectionTracker(0, maxlen=maxlen)
    m = Model(maxlen, rng.choice([0, 1]))
    path = ""
    dropped_n = [0]
    for i in range(steps):
        a = rng.choices(ALPHABET, weights=[5, 1, 2, 1, 1, 3])[0]
        if not step(ctx, t, m, a, path + a):
            continue
        path += a
        ctx.ev()
        # Round 11: the proxy drops packets of the endpoint now and then (an addon's verdict): the tracker is told
        # (mark_dropped, what ProxiedCircuit.drop_message does); the translation of every other packet is none of a drop's business
        if m.sent and rng.random() < 0.3:
            o = rng.choice(m.sent[-6:])
            fresh = not t.was_dropped(o)
            t.mark_dropped(o)
            dropped_n[0] += fresh
            ctx.count("packets_marked_dropped")
            if fresh and dropped_n[0] > maxlen:
                ctx.count("drops_beyond_what_the_window_remembers")
            if not t.was_dropped(o):
                ctx.violation("dropped-not-remembered", "a packet just marked dropped is not reported as dropped", {"path": path[-200:], "orig": o})
        if i % 5 == 0 or maxlen <= 50 and i % 2 == 0:
            check_laws(ctx, t, m, path if len(path) < 400 else path[-400:])
    ctx.nontrivial(("walk", maxlen, path))
    return path


# ------------------------------------------------------------------ the same laws, observed on the wire of a real circuit

class _RecTransport:
    def __init__(self):
        self.ids = []
        self.fail_next = False

    def send_packet(self, packet):
        if self.fail_next:
            self.fail_next = False
            raise OSError("scripted socket failure")
        self.ids.append(_eager.deserialize(bytes(packet.data)).packet_id)

    def close(self):
        pass


def circuit_history(ctx, rng, steps):
    """A real ProxiedCircuit, one direction.  Every packet the proxy originates itself - a fresh message, the copy of a packet
    it took before forwarding, or the copy (take()) of a message that already went out, forwarded or injected - counts as an
    injection; every datagram leaving the circuit is decoded and its wire id held against the laws."""
    from hippolyzer.lib.base.message.message import Message, Block
    from hippolyzer.lib.base.network.transport import Direction
    from hippolyzer.lib.proxy.circuit import ProxiedCircuit
    tr = _RecTransport()
    circ = ProxiedCircuit(("10.0.0.1", 1), ("10.1.0.1", 2), tr)
    injected, first, wires = set(), {}, {}      # proxy's wire ids; original -> wire id; wire id -> logical packet
    went_out = []                               # message objects that were sent (for replays)
    # (endpoints number from wherever they like: a fresh tracker may see ids in the upper half of the 32-bit range first)
    next_orig, path = rng.choice([0, 1, 1, 0, 2 ** 31 - 3, 2 ** 31 + 5, 3_000_000_000]), []
    if next_orig > 2 ** 30:
        ctx.count("circuit_histories_starting_in_the_upper_id_range")

    def mk(packet_id, flags=0):
        return Message("CompletePingCheck", Block("PingID", PingID=packet_id is not None and packet_id % 256 or 0),
                       packet_id=packet_id, direction=Direction.OUT, flags=flags)

    def emitted(what):
        got, tr.ids[:] = list(tr.ids), []
        if len(got) != 1:
            ctx.violation("circuit:emission-count", "sending one message did not put exactly one datagram on the wire",
                          {"path": list(path), "what": what, "emitted": got})
            return None
        return got[0]

    forced = []
    for _ in range(steps):
        a = forced.pop(0) if forced else rng.choices(["F", "R", "J", "T", "TJ", "K", "E", "P"], weights=[6, 1, 3, 2, 1, 1, 1, 2])[0]
        if a in ("T", "TJ", "R") and not went_out:
            continue
        if a == "P" and rng.random() < 0.6:
            # an idle endpoint pings (naming the id it will use next), the proxy injects, the endpoint sends that id
            forced[:] = rng.choice([["J", "F"], ["J", "J", "F"], ["K", "F"], ["J", "P"], ["T", "F"]])
        path.append(a)
        if len(path) > 60:
            del path[0]
        try:
            if a == "E":
                # the socket fails under a forwarded packet; the caller tries the same message object again (refused or not),
                # then the endpoint retransmits: whatever goes out for this packet carries the one id it is entitled to
                o = next_orig
                next_orig += 1
                want = expected_wire(injected, o)
                msg = mk(o)
                tr.fail_next = True
                try:
                    circ.send(msg)
                except OSError:
                    pass
                tr.fail_next = False
                tr.ids[:] = []
                got = []
                try:
                    circ.send(msg)
                    got += tr.ids
                    ctx.count("circuit_retries_after_socket_failure_accepted")
                except RuntimeError:
                    ctx.count("circuit_retries_after_socket_failure_refused")
                tr.ids[:] = []
                circ.send(mk(o))
                got += tr.ids
                tr.ids[:] = []
                ctx.count("circuit_socket_failures")
                if not got or any(w != want for w in got) or want in wires:
                    ctx.violation("circuit:id-after-socket-failure", "after a socket failure under a forwarded packet, what went out "
                                  "for that packet did not carry its one wire id", {"path": list(path), "orig": o, "wire_ids": got,
                                                                                    "expected": want, "collides_with": wires.get(want)})
                    return
                first[o] = want
                wires[want] = ("fwd", o)
            elif a in ("F", "R", "P"):
                if a in ("F", "P"):
                    o = next_orig
                    next_orig += 1
                else:
                    o = rng.choice(sorted(first)[-4:]) if first else None
                    if o is None:
                        continue
                flags = 0
                if a == "R" or rng.random() < 0.2:
                    # retransmissions carry the RESENT flag - also when the proxy never saw the first copy (lost on the way),
                    # so that the flagged packet is the first sighting of its id
                    flags = 0x20
                    if a == "F":
                        ctx.count("circuit_first_sightings_flagged_resent")
                msg = mk(o, flags)
                if a == "P":
                    # the periodic ping of an idle endpoint: OldestUnacked names the id it will use NEXT, one the proxy has not
                    # seen (the proxy translates that field too - what it writes there is not judged, what follows is)
                    msg = Message("StartPingCheck", Block("PingID", PingID=o % 256, OldestUnacked=next_orig), packet_id=o,
                                  direction=Direction.OUT, flags=flags)
                    ctx.count("circuit_pings_naming_the_next_id")
                circ.send(msg)
                w = emitted(a)
                if w is None:
                    return
                if a in ("F", "P"):
                    went_out.append((msg, "fwd"))
                    want = expected_wire(injected, o)
                    if w != want or w in wires:
                        mech = "circuit:forwarded-id-collides" if w in wires else "circuit:forwarded-id-wrong"
                        ctx.violation(mech, "a forwarded packet left the circuit under the wrong wire id",
                                      {"path": list(path), "orig": o, "wire": w, "expected": want, "injected": sorted(injected)[-8:],
                                       "collides_with": wires.get(w)})
                        return
                    first[o] = w
                    wires[w] = ("fwd", o)
                    ctx.count("circuit_forwarded")
                else:
                    if w != first[o]:
                        ctx.violation("circuit:resend-id-unstable", "an endpoint's retransmission left under another wire id than "
                                      "the first copy", {"path": list(path), "orig": o, "wire": w, "first": first[o]})
                        return
                    ctx.count("circuit_endpoint_resends")
            else:
                if a == "J":
                    msg = mk(None)
                elif a == "K":      # taken before it was forwarded: the original is dropped, the copy is the proxy's own
                    o = next_orig
                    next_orig += 1
                    orig = mk(o)
                    msg = orig.take()
                    circ.drop_message(orig)
                    tr.ids[:] = []
                else:
                    kinds = [m for (m, k) in went_out if (k == "inj") == (a == "TJ")]
                    if not kinds:
                        continue
                    msg = rng.choice(kinds[-5:]).take()
                    ctx.count("circuit_replays_of_sent_messages")
                circ.send(msg)
                w = emitted(a)
                if w is None:
                    return
                went_out.append((msg, "inj"))
                seen_max = max(wires) if wires else -1
                problems = []
                if w in wires:
                    problems.append("reuses the wire id of " + repr(wires[w]))
                if w <= seen_max:
                    problems.append(f"not above the highest wire id seen ({seen_max})")
                if not circ.out_injections.was_injected(w):
                    problems.append("tracker does not know it as injected")
                if problems:
                    ctx.violation("circuit:proxy-packet-id:" + {"J": "fresh", "K": "taken", "T": "replay", "TJ": "replay"}[a],
                                  "a packet the proxy originated did not get a fresh injected wire id",
                                  {"path": list(path), "wire": w, "problems": problems})
                    return
                injected.add(w)
                wires[w] = ("inj", a)
                ctx.count("circuit_proxy_packets")
        except Exception as e:
            ctx.violation("circuit:raises", "sending through the circuit raised", {"path": list(path), "exc": repr(e)[:300]})
            return
        ctx.ev()
    ctx.nontrivial(("circuit", tuple(path[-30:]), len(injected)))


def long_history(ctx, rng, default_window=False):
    """The stock window (10000) with far more than a thousand injections that are all still remembered - and, on a tracker built
    the way the circuit builds it (no explicit window), more injections than the window holds: acknowledgements for packets
    forwarded long ago, and for recent ones, must still translate back exactly (above the aged-out injections)."""
    import bisect
    t = InjectionTracker(0) if default_window else InjectionTracker(0, maxlen=10000)
    window = 10000
    inj_sorted, first = [], {}
    evicted_max = -1
    o = rng.choice([0, 1])
    total = ctx.pick(24000 if default_window else 2600, 30000 if default_window else 9000)

    def expected(orig):
        w = orig
        while True:
            w2 = orig + bisect.bisect_right(inj_sorted, w)
            if w2 == w:
                return w
            w = w2
    for step in range(total):
        if rng.random() < 0.55:
            w = t.gen_injectable_id()
            if (inj_sorted and w <= inj_sorted[-1]) or w in first.values():
                ctx.violation("injected-id-collides", "injected id is not above every wire id in use", {"long_history_step": step, "wire": w})
                return
            inj_sorted.append(w)
            if len(inj_sorted) > window:
                evicted_max = inj_sorted[len(inj_sorted) - window - 1]
        else:
            w = t.get_effective_id(o)
            t.track_seen(w)
            want = expected(o)
            if w != want:
                ctx.violation("long-history:effective-id-wrong", "translation differs from the shifted id after a long history",
                              {"long_history_step": step, "orig": o, "wire": w, "expected": want, "injections": len(inj_sorted),
                               "default_window": default_window})
                return
            first[o] = w
            o += 1
        if step % 97 == 0 and first:
            ctx.ev()
            keys = sorted(first)
            probe = keys[:3] + keys[-3:] + [rng.choice(keys) for _ in range(6)] + [k for k in keys[-400:] if first[k] > evicted_max][:3]
            for po in probe:
                if first[po] <= evicted_max:
                    continue        # (below an injection that aged out of the window: the statement's own caveat)
                try:
                    back = t.get_original_id(first[po])
                    again = t.get_effective_id(po)
                except Exception as e:
                    ctx.violation("translate-raises", "translation raised after a long history", {"long_history_step": step, "exc": repr(e)})
                    return
                ctx.count("long_history_probes")
                if evicted_max >= 0:
                    ctx.count("long_history_probes_after_eviction")
                if back != po or again != first[po]:
                    ctx.violation("long-history:reverse-translation-wrong" if back != po else "long-history:translation-unstable",
                                  "after a long history a wire id did not translate back to its original id / an id translated "
                                  "again changed", {"long_history_step": step, "orig": po, "wire": first[po], "back": back, "again": again,
                                                    "injections": len(inj_sorted), "default_window": default_window})
                    return
    ctx.count("long_history_injections", len(inj_sorted))
    ctx.nontrivial(("long-history", len(inj_sorted), o, default_window))


def run(ctx):
    # the long histories run on the bare class (the ride-along shadow below costs O(remembered injections) per call)
    if ctx.shard % 4 == 0:
        long_history(ctx, ctx.rng)
    if ctx.shard % 4 == 1:
        long_history(ctx, ctx.rng, default_window=True)
    tmon.install()
    depth = ctx.pick(8, 12)
    configs = [(maxlen, start) for maxlen in (1, 2, 3) for start in (0, 1)]
    # shard the DFS by (config, first action)
    work = [(ml, st, a) for (ml, st) in configs for a in "NKI"]
    total_states = 0
    for i, (ml, st, a) in enumerate(work):
        if not ctx.mine(i):
            continue
        s, tr = dfs(ctx, ml, st, depth, a)
        total_states += s
        if i == 0:
            ctx.sample({"dfs_config": {"maxlen": ml, "start_id": st, "first_action": a, "depth": depth},
                        "states": s, "transitions": tr})
    ctx.flag("exhaustive", True)
    ctx.flag("dfs_depth", depth)
    rng = ctx.rng
    n_walks = ctx.pick(6, 200)
    for k in range(n_walks):
        if ctx.out_of_time():
            break
        maxlen = rng.choice([1, 2, 3, 5, 8, 13, 50, 10000])
        path = random_walk(ctx, rng, maxlen, 300)
        if k == 0:
            ctx.sample({"random_walk": {"maxlen": maxlen, "actions": path[:120]}})
    for k in range(ctx.pick(40, 600)):
        if ctx.out_of_time():
            break
        circuit_history(ctx, rng, rng.choice([20, 60, 150]))

    tmon.drain(ctx)


def replay(ctx, w):
    path = w.get("path")
    if not path:
        return
    maxlen = w.get("maxlen", 10000)
    for start in (0, 1):
        t = InjectionTracker(0, maxlen=maxlen)
        m = Model(maxlen, start)
        p = ""
        for a in path:
            p += a
            if step(ctx, t, m, a, p):
                ctx.ev()
                check_laws(ctx, t, m, p)
