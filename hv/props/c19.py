"""C19 - client endpoint: always ack, dispatch once, reliable sends complete on ack only.

History checker over a recording transport and per-(packet id, subscriber) invocation counters, with the real
HippoClientProtocol / HippoClientSession / HippoClientRegion / Circuit and a virtual clock for the resend budget.
"""
import asyncio
import random

from .. import env

env.import_repo()

from hippolyzer.lib.base.datatypes import UUID  # noqa: E402
from hippolyzer.lib.base.message.message import Message, Block  # noqa: E402
from hippolyzer.lib.base.message.msgtypes import PacketFlags  # noqa: E402
from hippolyzer.lib.base.settings import Settings  # noqa: E402
from hippolyzer.lib.base.message.udpserializer import UDPMessageSerializer  # noqa: E402
from hippolyzer.lib.base.message.udpdeserializer import UDPMessageDeserializer  # noqa: E402
from hippolyzer.lib.client.hippo_client import HippoClientProtocol, HippoClientSession, ClientSettings  # noqa: E402

from ..harness_proxy import VirtualClock  # noqa: E402
from .c05 import RecTransport  # noqa: E402

LEVEL = "exploration"
SHARDS = {"quick": 8, "thorough": 16}
TIMEOUT_S = {"quick": 600, "thorough": 3000}
BUDGET_S = {"quick": 120, "thorough": 1500}
RULE = ("arrival sequences of 60-160 events over <= 40 distinct reliable packet ids: new reliable / unreliable packets, "
        "retransmissions (same id, RESENT flag or not), reordered older ids, acks for the client's own reliable sends in both "
        "forms (appended to any packet, PacketAck block, PacketAck + appended), acks for ids never sent, clock advances of "
        "1 s / 3 s with resend_unacked(); subscribers at session and region level, named and wildcard. quick 8 x 60 "
        "sequences, thorough 16 x 3000. distinct_nontrivial = distinct event sequences (by kind and packet id) + distinct (kind, duplicate?, subscriber level) classes"
        ". Round-5 additions: PacketAck without blocks that only carries appended acks (what a proxy leaves after taking its own ids out); the client alternates between deferred and eager body parsing"
        ". Rounds 6-7: refused sends (unset variable, value that does not fit, unknown block) before good ones; half of the sequences get a second life (DisableSimulator, region registered again at the same address, peer ids start over); acknowledgements riding on retransmissions; undecodable client emissions are violations"
        ". Round 9: subscribers through the notifier object register() hands out (taken before anybody subscribed); in half the sequences the first subscriber of each level fails on every message, with RuntimeError or asyncio.CancelledError"
        ". Round 10: the peer's StartPingCheck (OldestUnacked = next id / newest seen / 0) delivered on a running loop, duplicates of older packets afterwards; circuits numbering from just below 2**16, 2**24, 2**31. Round 11: subscriptions with options (predicate, one-shot, one-shot with a predicate that turns down earlier messages)")
ASSUMPTIONS = [
    "at most 40 distinct reliable ids per ordinary run; separate long runs send more reliable packets than the de-duplication window holds and then retransmit packets that are still inside it (nothing is demanded for packets that left the window)",
    "the peer's messages are template messages allowed over UDP; the session manager is a stub (no HTTP)",
    "retry budget is the default 10 in half of the runs and 3 in the others",
]
MUST_REACH = {"one_shot_predicates_that_turned_down_earlier_messages": 50, "pings_from_the_peer": 100, "sequences_numbering_from_just_below_a_power_of_two": 50, "sequences_with_a_first_subscriber_raising_cancelled": 20, "acks_riding_on_retransmissions": 30, "regions_registered_again_at_the_same_address": 10, "refused_sends_before_good_ones": 30, "packetacks_with_only_appended_acks": 30, "reliable_arrivals": 1000, "duplicate_arrivals": 200, "unreliable_arrivals": 500, "acks_sent_checked": 1000,
              "sends_completed_by_appended_ack": 50, "sends_completed_by_packetack": 50, "budgets_exhausted": 5,
              "region_level_duplicates_checked": 100, "reordered_first_arrivals": 100, "session_level_duplicates_checked": 100, "ids_checked_increasing": 1000, "long_circuit_retransmissions": 100, "sends_of_prenumbered_messages": 50, "sequences_with_fractional_resend_interval": 10}

_ser = UDPMessageSerializer()
_es = Settings()
_es.ENABLE_DEFERRED_PACKET_PARSING = False
_eager = UDPMessageDeserializer(settings=_es)
SIM = ("10.1.0.1", 13001)
RESEND_EVERY = 3.0
CURRENT = {"resend_every": RESEND_EVERY}


class StubManager:
    def __init__(self):
        self.settings = ClientSettings()
        self.http_session = None


def make_client():
    mgr = StubManager()
    # the client's two parsing configurations (message bodies on demand / eagerly), alternating between sequences
    CURRENT["n_clients"] = CURRENT.get("n_clients", 0) + 1
    mgr.settings.ENABLE_DEFERRED_PACKET_PARSING = bool(CURRENT["n_clients"] % 2)
    session = HippoClientSession(UUID(int=1), UUID(int=2), UUID(int=3), 1234, session_manager=mgr)
    session._hv_mgr = mgr     # keep the stub alive (the session only holds what it was given)
    region = session.register_region(SIM, "https://sim.example.invalid/seed", handle=(1000 << 32) | 1000)
    transport = RecTransport()
    session.transport = transport
    session.open_circuit(SIM)
    region.circuit.is_alive = True
    region.circuit.resend_every = CURRENT["resend_every"]
    protocol = HippoClientProtocol(session)
    return session, region, transport, protocol


def _run_sequence(ctx, rng, seed, reuse=None):
    # the resend interval is the caller's to choose: the default and a fractional one
    CURRENT["resend_every"] = 1.5 if seed % 3 == 0 else RESEND_EVERY
    if CURRENT["resend_every"] != RESEND_EVERY:
        ctx.count("sequences_with_fractional_resend_interval")
    if reuse is None:
        session, region, transport, protocol = make_client()
    else:
        # second life: the simulator at this address went away (DisableSimulator) and the session is told about a region at
        # the same address again - a new region object, a new circuit, the peer's packet ids start over
        session, transport, protocol = reuse
        gone = Message("DisableSimulator", packet_id=60001, flags=0)
        try:
            protocol.datagram_received(bytes(_ser.serialize(gone)), SIM)
        except Exception as e:
            ctx.violation("datagram-received-raised", "the client's datagram handler raised on a valid datagram",
                          {"sequence_seed": seed, "exc": repr(e)[:300], "message": "DisableSimulator"})
            return None
        if any(r.circuit_addr == SIM for r in session.regions):
            ctx.violation("region-not-unregistered", "DisableSimulator did not remove the region", {"sequence_seed": seed})
            return None
        region = session.register_region(SIM, "https://sim.example.invalid/seed-again", handle=(1000 << 32) | 1000)
        session.open_circuit(SIM)
        region.circuit.is_alive = True
        region.circuit.resend_every = CURRENT["resend_every"]
        transport.packets = []
        ctx.count("regions_registered_again_at_the_same_address")
    tries = rng.choice([3, 10])
    first_client_id = 0
    if reuse is None:
        # a circuit numbers its packets from wherever it stands: also shortly before the magnitudes at which ids change width
        first_client_id = [0, 0, 0, 250, 2 ** 16 - 6, 2 ** 24 - 6, 2 ** 31 - 6][seed % 7]
        region.circuit.packet_id_base = first_client_id
        if first_client_id > 255:
            ctx.count("sequences_numbering_from_just_below_a_power_of_two")
    calls = {}   # (level, kind, packet id) -> count

    def mk_sub(level, kind):
        def sub(msg):
            if msg.name == "CompletePingCheck":
                key = (level, kind, msg.packet_id, bool(msg.reliable))
                calls[key] = calls.get(key, 0) + 1
                if kind == "named":
                    delivered_order.setdefault(level, []).append((msg.packet_id, bool(msg.reliable)))
        return sub

    delivered_order = {}   # level -> [(packet id, reliable)] in the order the plain named subscriber saw them
    opt_calls = {}         # (level, kind) -> [(packet id, reliable)]
    pred_mod = 2 + seed % 3

    def pred_a(msg):
        return msg.packet_id % 2 == 0

    def pred_b(msg):
        return msg.packet_id % pred_mod == pred_mod - 1

    def mk_opt(level, kind):
        def sub(msg):
            if msg.name == "CompletePingCheck":
                opt_calls.setdefault((level, kind), []).append((msg.packet_id, bool(msg.reliable)))
        return sub

    # subscribers come in more than one way: by name, by wildcard, and through the notifier object register() hands out (taken
    # while nobody has subscribed yet, used after the others have). In every other sequence the first subscriber of each level is
    # a sour one: it fails on every message - with an ordinary exception, or with the CancelledError that asking a cancelled
    # future for its result raises - which is its own problem and nobody else's.
    import asyncio as _asyncio
    sour_exc = [None, RuntimeError, None, _asyncio.CancelledError][seed % 4]
    kinds = ["named", "wildcard", "handle"]
    for level, handler in (("session", session.message_handler), ("region", region.message_handler)):
        handle = handler.register("CompletePingCheck")
        if sour_exc is not None:
            def sour(msg, _exc=sour_exc):
                raise _exc("sour subscriber")
            handler.subscribe("CompletePingCheck", sour)
            ctx.count("sequences_with_a_failing_first_subscriber")
            if sour_exc is _asyncio.CancelledError:
                ctx.count("sequences_with_a_first_subscriber_raising_cancelled")
        handler.subscribe("CompletePingCheck", mk_sub(level, "named"))
        handler.subscribe("*", mk_sub(level, "wildcard"))
        handle.subscribe(mk_sub(level, "handle"))
        # Round 11: subscriptions with options - a permanent one with a predicate, a one-shot one, and a one-shot one with a
        # predicate (served by the first delivered message the predicate accepts, not spent by ones it turns down)
        handle.subscribe(mk_opt(level, "pred"), predicate=pred_a)
        handle.subscribe(mk_opt(level, "once"), one_shot=True)
        handle.subscribe(mk_opt(level, "once-pred"), one_shot=True, predicate=pred_b)
    arrivals = {}            # packet id -> number of arrivals (reliable)
    unrel_arrivals = {}
    next_peer_id = 1
    seen_rel_ids = []
    late = []
    pending = {}             # client's own reliable sends: packet id -> [future, last_sent, tries_left]
    history = []
    now = 0.0
    last_client_id = first_client_id - 1
    wit_base = {"sequence_seed": seed, "tries": tries}
    # which acks reached the client so far (for 'completed exactly when')
    n_events = rng.randint(60, 160)

    def client_packets():
        out = transport.packets
        transport.packets = []
        res = []
        for (direction, data, dst) in out:
            try:
                m = _eager.deserialize(data)
            except Exception as e:
                ctx.violation("client-emitted-undecodable", "the client put a datagram on the wire that does not decode",
                              dict(wit_base, exc=repr(e)[:200], datagram=data[:120], history_tail=history[-6:]))
                continue
            res.append(m)
        return res

    def check_ids(msgs):
        nonlocal last_client_id
        for m in msgs:
            if m.resent:
                continue
            ctx.count("ids_checked_increasing")
            if m.packet_id <= last_client_id:
                ctx.violation("packet-id-not-increasing", "a packet id issued on a live circuit is not greater than the previous one",
                              dict(wit_base, got=m.packet_id, previous=last_client_id, history_tail=history[-6:]))
            last_client_id = max(last_client_id, m.packet_id)

    def feed(msg):
        data = bytes(_ser.serialize(msg))
        try:
            protocol.datagram_received(data, SIM)
        except (KeyboardInterrupt, SystemExit):
            raise
        except BaseException as e:      # (a subscriber's CancelledError is a BaseException)
            ctx.violation("datagram-received-raised:" + type(e).__name__, "the client's datagram handler raised on a valid datagram",
                          dict(wit_base, exc=repr(e)[:300], history_tail=history[-6:]))

    def peer_packet(pid, reliable, resent, acks=(), blocks=None):
        flags = (int(PacketFlags.RELIABLE) if reliable else 0) | (int(PacketFlags.RESENT) if resent else 0)
        if blocks is not None:
            m = Message("PacketAck", *[Block("Packets", ID=b) for b in blocks], packet_id=pid, flags=flags, acks=tuple(acks))
            if not blocks:
                m.create_block_list("Packets")       # present, with a count of zero
        else:
            m = Message("CompletePingCheck", Block("PingID", PingID=pid & 0xFF), packet_id=pid, flags=flags, acks=tuple(acks))
        if acks:
            m.send_flags |= int(PacketFlags.ACK)
        return m

    def after_acks(acked_ids, form):
        """Futures of the client's sends named in an ack must be done now; all others must still be pending."""
        for pid in list(pending):
            fut, _, _ = pending[pid]
            if pid in acked_ids:
                if not fut.done() or fut.exception() is not None:
                    ctx.violation("send-not-completed-by-ack:" + form, "a reliable send was acknowledged but its future is not done",
                                  dict(wit_base, packet_id=pid, history_tail=history[-6:]))
                else:
                    ctx.count("sends_completed_by_" + ("packetack" if form == "packetack" else "appended_ack"))
                del pending[pid]
            elif fut.done():
                ctx.violation("send-completed-without-ack", "a reliable send's future is done although no acknowledgement for it arrived "
                              "and its budget is not spent", dict(wit_base, packet_id=pid, history_tail=history[-6:]))
                del pending[pid]

    for ev in range(n_events):
        r = rng.random()
        if r < 0.30:
            # new reliable packet from the peer (sometimes carrying acks for the client's sends)
            # first arrivals are not always in order: ids may be skipped and turn up later
            if late and rng.random() < 0.5:
                pid = late.pop(rng.randrange(len(late)))
                ctx.count("reordered_first_arrivals")
            else:
                pid = next_peer_id
                next_peer_id += 1
                if rng.random() < 0.3:
                    late.append(pid)
                    pid = next_peer_id
                    next_peer_id += 1
            if len(seen_rel_ids) >= 40:
                r = 0.45   # fall through to duplicates
            else:
                seen_rel_ids.append(pid)
                acks = _choose_acks(rng, pending, last_client_id)
                history.append(("rel", pid, tuple(acks)))
                feed(peer_packet(pid, True, False, acks=acks))
                arrivals[pid] = arrivals.get(pid, 0) + 1
                ctx.count("reliable_arrivals")
                msgs = client_packets()
                _check_ack_sent(ctx, msgs, pid, wit_base, history)
                check_ids(msgs)
                after_acks(set(acks), "appended")
                continue
        if r < 0.50 and seen_rel_ids:
            # retransmission / reordered duplicate of an earlier reliable packet
            pid = rng.choice(seen_rel_ids)
            # (a retransmission carries whatever acknowledgements the peer owes at that moment, not those of the first copy)
            acks = _choose_acks(rng, pending, last_client_id) if rng.random() < 0.5 else []
            if acks:
                ctx.count("acks_riding_on_retransmissions")
            history.append(("dup", pid, tuple(acks)))
            feed(peer_packet(pid, True, rng.random() < 0.7, acks=acks))
            arrivals[pid] = arrivals.get(pid, 0) + 1
            ctx.count("reliable_arrivals")
            ctx.count("duplicate_arrivals")
            msgs = client_packets()
            _check_ack_sent(ctx, msgs, pid, wit_base, history)
            check_ids(msgs)
            after_acks(set(acks), "appended")
            continue
        if r < 0.65:
            pid = next_peer_id
            next_peer_id += 1
            acks = _choose_acks(rng, pending, last_client_id)
            history.append(("unrel", pid, tuple(acks)))
            feed(peer_packet(pid, False, False, acks=acks))
            unrel_arrivals[pid] = unrel_arrivals.get(pid, 0) + 1
            if rng.random() < 0.2:
                history.append(("unrel-dup", pid))
                feed(peer_packet(pid, False, False))
                unrel_arrivals[pid] += 1
            ctx.count("unreliable_arrivals")
            msgs = client_packets()
            if any(m.name == "PacketAck" for m in msgs):
                ctx.violation("unreliable-packet-acked", "an unreliable packet was acknowledged", dict(wit_base, history_tail=history[-6:]))
            check_ids(msgs)
            after_acks(set(acks), "appended")
            continue
        if r < 0.75:
            # standalone PacketAck from the peer (optionally with appended acks too)
            pid = next_peer_id
            next_peer_id += 1
            blocks = _choose_acks(rng, pending, last_client_id) or [rng.randint(5000, 6000)]
            acks = _choose_acks(rng, {k: v for k, v in pending.items() if k not in blocks}, last_client_id) if rng.random() < 0.4 else []
            if rng.random() < 0.25:
                # what arrives when the peer's PacketAck came through a proxy that took its own ids out of the blocks: no
                # blocks left, only appended acks
                acks = list(blocks) + [a for a in acks if a not in blocks]
                blocks = []
                ctx.count("packetacks_with_only_appended_acks")
            history.append(("packetack", pid, tuple(blocks), tuple(acks)))
            feed(peer_packet(pid, False, False, acks=acks, blocks=blocks))
            msgs = client_packets()
            check_ids(msgs)
            after_acks(set(blocks) | set(acks), "packetack")
            continue
        if 0.75 <= r < 0.80 and rng.random() < 0.35:
            # the peer's periodic ping: it names the oldest packet it still waits to hear about (everything older has been
            # acknowledged to it) - copies of those older packets may still be in flight and must not be delivered again
            pid = next_peer_id
            next_peer_id += 1
            oldest = rng.choice([next_peer_id, next_peer_id, max(seen_rel_ids) if seen_rel_ids else next_peer_id, 0])
            m = Message("StartPingCheck", Block("PingID", PingID=pid & 0xFF, OldestUnacked=oldest), packet_id=pid, flags=0)
            history.append(("ping", pid, oldest))
            # (the region answers pings from a coroutine handler: the datagram has to arrive on a running loop)

            async def _arrive():
                feed(m)
                for _ in range(3):
                    await _asyncio.sleep(0)
            try:
                loop = _asyncio.get_event_loop_policy().get_event_loop()
            except Exception:
                loop = _asyncio.new_event_loop()
                _asyncio.set_event_loop(loop)
            loop.run_until_complete(_arrive())
            ctx.count("pings_from_the_peer")
            msgs = client_packets()
            if not any(x.name == "CompletePingCheck" for x in msgs):
                ctx.count("pings_not_answered")
            check_ids(msgs)
            continue
        if r < 0.80 and rng.random() < 0.2:
            # a send the caller got wrong (a variable left unset / a value that does not fit): it is refused with an exception
            # and must leave nothing behind in the circuit - whatever goes out next is what it would have been anyway
            bad = rng.choice([
                Message("AgentPause", Block("AgentData", AgentID=session.agent_id, SessionID=session.id)),
                Message("AgentPause", Block("AgentData", AgentID=session.agent_id, SessionID=session.id, SerialNum=2 ** 40)),
                Message("AgentPause", Block("AgentData", AgentID=session.agent_id, SessionID=session.id, SerialNum=1),
                        Block("NoSuchBlock", X=1)),
            ])
            try:
                if rng.random() < 0.5:
                    region.circuit.send(bad)
                else:
                    region.circuit.send_reliable(bad)
                    # (a reliable send that failed to go out is not something the peer can ever acknowledge)
                    region.circuit.unacked_reliable.pop((bad.direction, bad.packet_id), None)
                ctx.count("malformed_sends_accepted")
            except Exception:
                ctx.count("refused_sends_before_good_ones")
                region.circuit.unacked_reliable.pop((bad.direction, bad.packet_id), None)
            history.append(("bad-send",))
            client_packets()
            continue
        if r < 0.80 and rng.random() < 0.25:
            # an unreliable send of a message object that already carries a packet id: built with one, or a message that was
            # received earlier / sent before and is passed on; the id on the wire is the circuit's to choose
            stale = rng.choice([0, 1, max(last_client_id - 1, 0), max(last_client_id, 0), 5])
            m = Message("AgentPause", Block("AgentData", AgentID=session.agent_id, SessionID=session.id, SerialNum=ev), packet_id=stale)
            try:
                region.circuit.send(m)
            except Exception as e:
                ctx.violation("send-raised", "sending a message that already carried a packet id raised", dict(wit_base, exc=repr(e)[:200]))
                continue
            ctx.count("sends_of_prenumbered_messages")
            history.append(("send-prenumbered", stale))
            check_ids(client_packets())
            continue
        if r < 0.88:
            # the client sends something reliably
            m = Message("AgentPause", Block("AgentData", AgentID=session.agent_id, SessionID=session.id, SerialNum=ev))
            try:
                fut = region.circuit.send_reliable(m)
            except Exception as e:
                ctx.violation("send-reliable-raised", "send_reliable raised", dict(wit_base, exc=repr(e)[:200]))
                continue
            info = region.circuit.unacked_reliable.get((m.direction, m.packet_id))
            if info is not None:
                info.tries_left = tries
            msgs = client_packets()
            check_ids(msgs)
            if len(msgs) != 1 or not msgs[0].reliable or msgs[0].packet_id != m.packet_id:
                ctx.violation("reliable-send-not-emitted", "send_reliable did not put exactly one reliable packet on the wire",
                              dict(wit_base, sent=len(msgs)))
            pending[m.packet_id] = [fut, now, tries]
            history.append(("send", m.packet_id))
            if fut.done():
                ctx.violation("send-completed-without-ack", "a reliable send's future is done immediately", dict(wit_base, packet_id=m.packet_id))
            continue
        # clock
        step = rng.choice([1.0, 3.0, 3.0, 0.8, 0.8])
        now += step
        _advance(step)
        history.append(("tick", step))
        try:
            region.circuit.resend_unacked()
        except Exception as e:
            ctx.violation("resend-raised", "resend_unacked raised", dict(wit_base, exc=repr(e)[:200]))
            continue
        msgs = client_packets()
        expected = []
        for pid in list(pending):
            fut, last, left = pending[pid]
            if now - last >= CURRENT["resend_every"] - 1e-9:
                left -= 1
                if left == 0:
                    ctx.count("budgets_exhausted")
                    if not fut.done() or not isinstance(fut.exception(), TimeoutError):
                        ctx.violation("budget-spent-but-not-failed", "retry budget spent but the send did not fail",
                                      dict(wit_base, packet_id=pid, history_tail=history[-6:]))
                    del pending[pid]
                    continue
                pending[pid] = [fut, now, left]
                expected.append(pid)
            elif fut.done():
                ctx.violation("send-completed-without-ack", "future done without ack / budget end", dict(wit_base, packet_id=pid))
        got = sorted(m.packet_id for m in msgs)
        if got != sorted(expected):
            ctx.violation("client-resend-law", "resend_unacked() did not retransmit exactly the due reliable sends",
                          dict(wit_base, got=got, expected=sorted(expected), history_tail=history[-8:]))
        for m in msgs:
            if not m.resent or not m.reliable:
                ctx.violation("client-resend-flags", "a retransmission lacks RESENT/RELIABLE", dict(wit_base, packet_id=m.packet_id))
    # dispatch counts
    for pid, n in arrivals.items():
        for level in ("session", "region"):
            for kind in kinds:
                c = calls.get((level, kind, pid, True), 0)
                if n > 1:
                    ctx.count(f"{level}_level_duplicates_checked")
                if c != 1:
                    ctx.violation(f"reliable-dispatch-count:{level}:{kind}:" + ("more-than-once" if c > 1 else "never"),
                                  "a reliable packet's message was not delivered exactly once to a subscriber",
                                  dict(wit_base, packet_id=pid, arrivals=n, delivered=c, level=level, kind=kind))
                else:
                    ctx.nontrivial(("rel", n > 1, level, kind))
    for pid, n in unrel_arrivals.items():
        for level in ("session", "region"):
            for kind in kinds:
                c = calls.get((level, kind, pid, False), 0)
                if c != n:
                    ctx.violation(f"unreliable-dispatch-count:{level}:{kind}", "an unreliable packet was not delivered on every arrival",
                                  dict(wit_base, packet_id=pid, arrivals=n, delivered=c))
                else:
                    ctx.nontrivial(("unrel", n > 1, level, kind))
    # subscriptions with options, judged against what the plain named subscriber of the same level was given (itself judged above)
    for level in ("session", "region"):
        order = delivered_order.get(level, [])
        want = {
            "pred": [d for d in order if d[0] % 2 == 0],
            "once": order[:1],
            "once-pred": [d for d in order if d[0] % pred_mod == pred_mod - 1][:1],
        }
        for kind, exp in want.items():
            got = opt_calls.get((level, kind), [])
            ctx.count("optioned_subscribers_checked")
            if exp:
                ctx.count("optioned_subscribers_served")
            if kind == "once-pred" and exp and order and order[0] != exp[0]:
                ctx.count("one_shot_predicates_that_turned_down_earlier_messages")
            if got != exp:
                ctx.violation(f"optioned-subscriber:{level}:{kind}", "a subscriber registered with one_shot / predicate options was not "
                              "given exactly the delivered messages its options ask for",
                              dict(wit_base, level=level, kind=kind, got=got[:10], expected=exp[:10], delivered=order[:12], pred_mod=pred_mod))
    ctx.ev()
    ctx.nontrivial(("sequence", tuple(h[:2] for h in history)))
    if len(ctx.samples) < 2:
        ctx.sample({"sequence_seed": seed, "events": len(history), "history_head": history[:16]})
    return session, transport, protocol


_CLOCK = {"clock": None}


def long_circuit(ctx, rng, seed):
    """More reliable packets than the de-duplication window holds (1000), then retransmissions of packets that are still
    inside the window: each must be acknowledged again and dispatched to nobody."""
    session, region, transport, protocol = make_client()
    calls = {}

    def mk_sub(level):
        def sub(msg):
            if msg.name == "CompletePingCheck":
                calls[(level, msg.packet_id)] = calls.get((level, msg.packet_id), 0) + 1
        return sub
    session.message_handler.subscribe("CompletePingCheck", mk_sub("session"))
    region.message_handler.subscribe("CompletePingCheck", mk_sub("region"))
    region.message_handler.subscribe("*", mk_sub("region-wildcard"))
    window = getattr(region.circuit, "seen_reliable", None)
    wsize = window.maxlen if window is not None and getattr(window, "maxlen", None) else 1000
    total = wsize + rng.randint(5, 300)
    first = rng.choice([1, 2, 50000])
    for i in range(total):
        m = Message("CompletePingCheck", Block("PingID", PingID=i & 0xFF), packet_id=first + i, flags=int(PacketFlags.RELIABLE))
        protocol.datagram_received(bytes(_ser.serialize(m)), SIM)
    transport.packets = []
    newest = first + total - 1
    wit = {"long_circuit_seed": seed, "window": wsize, "packets": total, "first_id": first}
    for back in sorted(set([0, 1, 2, wsize // 2, wsize - 2, wsize - 1] + [rng.randrange(0, wsize) for _ in range(40)])):
        pid = newest - back
        m = Message("CompletePingCheck", Block("PingID", PingID=pid & 0xFF), packet_id=pid,
                    flags=int(PacketFlags.RELIABLE) | int(PacketFlags.RESENT))
        transport.packets = []
        protocol.datagram_received(bytes(_ser.serialize(m)), SIM)
        ctx.count("long_circuit_retransmissions")
        ctx.ev()
        acked = False
        for (_, data, _) in transport.packets:
            am = _eager.deserialize(data)
            if pid in am.acks or (am.name == "PacketAck" and any(b["ID"] == pid for b in am["Packets"])):
                acked = True
        if not acked:
            ctx.violation("reliable-arrival-not-acked", "a retransmitted reliable packet was not acknowledged", dict(wit, packet_id=pid, back=back))
        for level in ("session", "region", "region-wildcard"):
            if calls.get((level, pid), 0) != 1:
                ctx.violation("reliable-dispatched-again:" + level + ":long-circuit", "a retransmission of a packet still inside the "
                              "de-duplication window was dispatched again", dict(wit, packet_id=pid, back=back, level=level,
                                                                               calls=calls.get((level, pid), 0)))
    ctx.nontrivial(("long", total, first))


def _advance(step):
    _CLOCK["clock"].advance(step)


def _choose_acks(rng, pending, last_client_id):
    ids = list(pending.keys())
    r = rng.random()
    if not ids or r < 0.5:
        return [] if r < 0.9 or last_client_id < 0 else [last_client_id + 1000]   # sometimes an ack for an id never sent
    if r < 0.8:
        return [rng.choice(ids)]
    return ids[:3]


def _check_ack_sent(ctx, msgs, pid, wit_base, history):
    ctx.count("acks_sent_checked")
    n = 0
    for m in msgs:
        if m.name == "PacketAck":
            n += sum(1 for b in m["Packets"] if b["ID"] == pid)
        n += sum(1 for a in m.acks if a == pid)
    if n < 1:
        ctx.violation("reliable-arrival-not-acked", "a received reliable packet was not acknowledged on this arrival",
                      dict(wit_base, packet_id=pid, history_tail=history[-6:]))


def run_sequence_with_clock(ctx, seed):
    clock = VirtualClock().install()
    _CLOCK["clock"] = clock
    try:
        rng = random.Random(seed)
        first = _run_sequence(ctx, rng, seed)
        if first is not None and seed % 2 == 0:
            _run_sequence(ctx, rng, seed, reuse=first)
    finally:
        clock.uninstall()


def run(ctx):
    try:
        asyncio.get_event_loop_policy().get_event_loop()
    except Exception:
        asyncio.set_event_loop(asyncio.new_event_loop())
    n = ctx.pick(60, 3000)
    for i in range(n):
        if ctx.out_of_time():
            break
        run_sequence_with_clock(ctx, ctx.seed * 1_000_003 + ctx.shard * 10007 + i)
    for i in range(ctx.pick(1, 12)):
        sd = ctx.seed * 7919 + ctx.shard * 101 + i
        long_circuit(ctx, random.Random(sd), sd)


def replay(ctx, w):
    try:
        asyncio.get_event_loop_policy().get_event_loop()
    except Exception:
        asyncio.set_event_loop(asyncio.new_event_loop())
    if "long_circuit_seed" in w:
        long_circuit(ctx, random.Random(w["long_circuit_seed"]), w["long_circuit_seed"])
    if "sequence_seed" in w:
        run_sequence_with_clock(ctx, w["sequence_seed"])
