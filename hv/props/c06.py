"""C06 - UDP proxying is transparent: right peer, exactly once, content intact.

History checker over the fake DatagramTransport.sendto log underneath the REAL SOCKS5UDPTransport, for sequences
mixing valid template messages of every type (both directions, several associations / sessions / regions) with
garbage, truncated, mis-addressed, wrong-frag, banned and pre-session datagrams.  No addon is loaded.
"""
import struct

from .. import env

env.import_repo()

from hippolyzer.lib.base.message.message_dot_xml import MessageDotXML  # noqa: E402
from hippolyzer.lib.base.settings import Settings  # noqa: E402
from hippolyzer.lib.base.message.udpdeserializer import UDPMessageDeserializer  # noqa: E402
from hippolyzer.lib.proxy.settings import ProxySettings  # noqa: E402

from .. import gen_msg  # noqa: E402
from ..refs import wire  # noqa: E402
from ..harness_proxy import Rig, socks_wrap, socks_unwrap_ref  # noqa: E402

LEVEL = "exploration"
SHARDS = {"quick": 8, "thorough": 16}
TIMEOUT_S = {"quick": 600, "thorough": 3000}
BUDGET_S = {"quick": 120, "thorough": 1500}
RULE = ("Round 8: before its session is claimed an association also gets datagrams from the simulator side (a UseCircuitCode naming either pending session included) - discarded, "
        "nothing left behind; a third of the sequences run with USE_VIEWER_OBJECT_CACHE on and a viewer cache directory in one of 11 states (healthy, .slc cut mid-entry / "
        "in a header / empty / missing / negative count, index cut / garbage / empty, region not listed) and each region's RegionHandshake must still be delivered. "
        "sequences of 120-300 datagrams through 2 associations x 2 sessions x up to 3 regions (distinct IPs and the "
        "everything-on-one-IP layout): valid messages of every template in both directions on open circuits, interleaved with "
        "random bytes, truncations, bad rsv/frag/address-type/short SOCKS headers, unknown hosts, unregistered circuits, "
        "pre-session traffic, UDP-banned names, duplicate UseCircuitCode, circuit close and re-open. quick 8 x 10 sequences, "
        "thorough 16 x 600. distinct_nontrivial = distinct (direction, message name, region slot, preceded-by-garbage) "
        "deliveries checked"
        ". Round-5 additions: 12% of the valid traffic are the messages whose content the proxy reads on the way through (owner-say chat with RLV-looking and near-RLV text incl. bare '@', leading whitespace, missing NUL, invalid UTF-8; region handshakes; agent data updates; chat commands); a template-conformant datagram (independent encoder) that the library's decoder refuses is a violation, not a harness failure"
        ". Round 7: one association sends to 1400 (thorough 5000) distinct unrelated addresses; every 64 the open circuit's traffic must still be delivered once in both directions; extras with isolated zeros"
        ". Round 9: 8% of the valid traffic carries the ACK flag with a trailer that counts no acks; associations opened through the real SOCKS5 control-connection handler (stand-in sockets) while other control connections come and go (logout, failed greetings, unsupported commands). Round 11: the viewer comes back on another UDP port of the same host between an earlier datagram to a simulator (circuit not open; not judged) and the UseCircuitCode that opens or re-opens the circuit; the circuit then belongs to the new port")
ASSUMPTIONS = [
    "an open circuit = UseCircuitCode seen from the viewer for a region the session knows, not (yet) closed by "
    "CloseCircuit/DisableSimulator; nothing is demanded for closed circuits until a new UseCircuitCode",
    "chat on the proxy's command channel (524) is a claim by the proxy and kept out (C07)",
    "exceptions escaping datagram_received are tolerated for garbage (asyncio logs and continues) but are a loss for a "
    "valid datagram",
    "content intact = same message name, blocks/values, flags, packet id and acks after decoding both sides",
]
MUST_REACH = {"circuits_opened_from_another_viewer_port": 30, "refused_datagrams_before_the_viewer_moved": 20, "control_connection_events": 20, "deliveries_through_served_associations": 100, "delivered_with_ack_flag_and_empty_trailer": 50, "region_handshakes_with_viewer_object_cache_enabled": 20, "viewer_object_cache_consulted_at_region_hello": 20, "valid_out_delivered": 300, "valid_in_delivered": 300, "garbage_datagrams": 300, "templates_covered": 300,
              "discard_random": 20, "discard_truncated": 20, "discard_unknown_host": 10, "discard_unregistered_circuit": 10,
              "discard_banned": 5, "discard_bad_socks": 20, "discard_presession": 5, "reopened_circuits": 3, "closing_messages_checked": 3, "sessions_claimed_out_of_login_order": 2, "sequences_deferred_parsing": 5, "sequences_eager_parsing": 5,
              "same_ip_sequences": 2, "multi_region_deliveries": 50,
              "distinct_destinations_seen": 1200, "deliveries_after_many_destinations": 30}

_es = Settings()
_es.ENABLE_DEFERRED_PACKET_PARSING = False
_deser = UDPMessageDeserializer(settings=_es)
_xml = MessageDotXML()
SIDE_EFFECT = {"UseCircuitCode", "CloseCircuit", "DisableSimulator"}


def banned_inbound(name):
    return not _xml.validate_udp_msg(name)


class Circ:
    def __init__(self, sess_idx, slot, addr):
        self.sess_idx = sess_idx
        self.slot = slot
        self.addr = addr
        self.open = False
        self.ever_opened = False
        self.out_id = 1
        self.in_id = 1


DISPATCHED = []


def snapshot(rig, assocs):
    snap = [("dispatched-to-handlers", len(DISPATCHED))]
    for s in rig.session_manager.sessions:
        regs = []
        for r in s.regions:
            regs.append((r.circuit_addr, id(r.circuit) if r.circuit else None, bool(r.circuit and r.circuit.is_alive),
                         r.handle, r._name, repr(r.circuit.in_injections) if r.circuit else None,
                         repr(r.circuit.out_injections) if r.circuit else None))
        snap.append((str(s.id), s.pending, tuple(regs), s.main_region.circuit_addr if s.main_region else None,
                     str(s.active_group)))
    for a in assocs:
        snap.append((a.name, str(a.protocol.session.id) if a.protocol.session else None))
    return snap


def decode(data):
    return _deser.deserialize(data)


def same_message(a, b):
    # (the flag announcing appended acks is framing for the ack list, which is compared below)
    if a.name != b.name or int(a.send_flags) & ~0x10 != int(b.send_flags) & ~0x10 or a.packet_id != b.packet_id:
        return False
    if tuple(a.acks) != tuple(b.acks):
        return False
    return a.to_dict() == b.to_dict()


# Messages whose *content* the proxy itself looks at on the way through (no addon involved): owner-say chat is scanned for
# RLV-style "@command" text, region handshakes for the region name, agent data updates for the active group.  None of that
# makes the proxy the owner of the datagram - whatever the text is, it still has to arrive.
OWNER_SAY_TEXTS = ["@version=1234", "@detach=n", " @detach=n", "\n@version=1", "\t@sit:00000000-0000-0000-0000-000000000001=force ",
                   "@", "@@", "@,", "@,,", "@=", "@:", "@:=", "@a:b;c=d,e=f", "@ a = b ", "hello @you", "", " ", "@" * 40,
                   "@clear", "@getstatus=2222", "@\x00", "@versi\u00e9n=1", "@a=b,", ",@a=b"]
OWNER_SAY_BYTES = [b"@version=1234", b"@", b"@\xff\xfe=n", b"@a=b\x00\x00", b" @x=n", b"@,"]


def _inspected_content(rng, name, spec):
    if name == "ChatFromSimulator" and rng.random() < 0.8:
        for (bn, ents) in spec["blocks"]:
            for e in ents or ():
                if "ChatType" in e:
                    e["ChatType"] = ["i", rng.choice([8, 8, 8, 0, 1, 9])]
                    if rng.random() < 0.75:
                        e["Message"] = ["s", rng.choice(OWNER_SAY_TEXTS)]
                    else:
                        e["Message"] = ["b", rng.choice(OWNER_SAY_BYTES)]
    elif name == "ChatFromViewer" and rng.random() < 0.5:
        for (bn, ents) in spec["blocks"]:
            for e in ents or ():
                if "Message" in e:
                    e["Message"] = ["s", rng.choice(["/524 help", "@version=1", "/me waves", "", "/524", "/1 x"])]


def make_valid(rng, templates, direction_in, packet_id, ctx=None, only=None):
    """A template-conformant datagram (reference-encoded) that the proxy has no reason to claim."""
    by_name = {t.name: t for t in templates}
    for _ in range(50):
        tmpl = rng.choice(templates)
        if only:
            tmpl = by_name[only]
        elif rng.random() < 0.12:
            # the handful of messages the proxy reads on the way through get their share of the traffic
            tmpl = by_name.get(rng.choice(["ChatFromSimulator", "RegionHandshake", "AgentDataUpdate", "AgentMovementComplete"]
                                          if direction_in else ["ChatFromViewer", "AgentUpdate", "CompleteAgentMovement"]), tmpl)
        if tmpl.name in SIDE_EFFECT or tmpl.name in ("PacketAck",):
            continue
        if direction_in and banned_inbound(tmpl.name):
            continue
        spec = gen_msg.limit_for_zerocode(rng, tmpl, {"max_var_len": 120, "small_block": 6, "p_extra": 0.12})
        spec["packet_id"] = packet_id
        # endpoints only ack ids they saw; keep appended acks out of this property (C05 covers them)
        spec["acks"] = []
        spec["flags"] &= ~0x10
        if rng.random() < 0.08:
            # legal framing that ordinary traffic rarely has: the flag that announces appended acks, and a trailer that counts none
            spec["flags"] |= 0x10
        if tmpl.name == "ChatFromViewer":
            for (bn, ents) in spec["blocks"]:
                for e in ents or ():
                    if "Channel" in e and e["Channel"][1] == 524:
                        e["Channel"] = ["i", 0]
        _inspected_content(rng, tmpl.name, spec)
        try:
            data = wire.ref_encode(tmpl, spec)
        except Exception:
            continue
        try:
            msg = decode(data)
        except Exception as e:
            # the datagram is valid by construction (independent encoder, in-domain values): a decoder that refuses it
            # would make the proxy discard it
            if ctx is not None:
                ctx.violation("valid-datagram-undecodable:" + _msgclass(tmpl.name), "a template-conformant datagram does not decode",
                              {"message": tmpl.name, "datagram": data[:300], "exc": repr(e)[:300]})
            continue
        return tmpl.name, data, msg
    raise RuntimeError("could not build a valid datagram")


VOCACHE_VARIANTS = ["healthy", "slc-cut-mid-entry", "slc-cut-in-entry-header", "slc-cut-in-file-header", "slc-empty", "slc-missing",
                    "index-cut", "index-garbage", "index-empty", "slc-count-negative", "region-not-listed"]
_VOCACHE_HOMES = {}


def vocache_home(variant):
    """A home directory with one viewer's object cache for the grid squares the sequences' regions live in - in good shape or
    damaged in one way (viewers crash while writing these files). Written once per process from the format description
    (hv/vocache_fs.py), removed at exit."""
    if variant not in _VOCACHE_HOMES:
        import atexit
        import os
        import shutil
        import tempfile
        import uuid
        from ..vocache_fs import write_viewer_dir, slc_bytes
        home = tempfile.mkdtemp(prefix="hvc06_")
        atexit.register(shutil.rmtree, home, ignore_errors=True)
        handles = [(1000 << 32) | 1000, (1001 << 32) | 1000, (2000 << 32) | 1001, (2000 << 32) | 1002, (2001 << 32) | 1001]
        entries = [(5, 77, b"x" * 40), (6, 78, b"y" * 300), (7, 79, b"z" * 17)]
        cid = uuid.UUID(int=0xC0FFEE)
        vdir = os.path.join(home, ".secondlife")
        listed = handles if variant != "region-not-listed" else [(9000 * 256) << 32 | (9000 * 256)]
        write_viewer_dir(vdir, {h: (cid, entries) for h in listed})
        oc = os.path.join(vdir, "objectcache")
        whole = slc_bytes(cid, entries)
        slcs = [f for f in os.listdir(oc) if f.endswith(".slc")]
        if variant == "region-not-listed":
            for h in handles:
                with open(os.path.join(oc, "objects_%d_%d.slc" % ((h >> 32) // 256, (h & 0xFFFFFFFF) // 256)), "wb") as f:
                    f.write(whole[:33])
        cut = {"slc-cut-mid-entry": whole[:16 + 4 + 24 + 11], "slc-cut-in-entry-header": whole[:16 + 4 + 24 + 40 + 9],
               "slc-cut-in-file-header": whole[:9], "slc-empty": b"", "slc-count-negative": slc_bytes(cid, entries, declared=-3)}
        for fn in slcs:
            path = os.path.join(oc, fn)
            if variant in cut:
                with open(path, "wb") as f:
                    f.write(cut[variant])
            elif variant == "slc-missing":
                os.unlink(path)
        idx = os.path.join(oc, "object.cache")
        if variant == "index-cut":
            with open(idx, "rb") as f:
                data = f.read()
            with open(idx, "wb") as f:
                f.write(data[:8 + 16 * 3 + 5])
        elif variant == "index-garbage":
            with open(idx, "wb") as f:
                f.write(b"\x0f\x00\x00\x00\x40\x00\x00\x00" + bytes(range(256)) * 9)
        elif variant == "index-empty":
            with open(idx, "wb") as f:
                f.write(b"")
        _VOCACHE_HOMES[variant] = home
    return _VOCACHE_HOMES[variant]


def use_circuit_code(session, packet_id):
    from hippolyzer.lib.base.message.message import Message, Block
    from hippolyzer.lib.base.message.udpserializer import UDPMessageSerializer
    m = Message("UseCircuitCode", Block("CircuitCode", Code=session.circuit_code, SessionID=session.id, ID=session.agent_id),
                packet_id=packet_id, flags=0x40)
    return bytes(UDPMessageSerializer().serialize(m))


def simple_msg(name, packet_id):
    from hippolyzer.lib.base.message.message import Message
    from hippolyzer.lib.base.message.udpserializer import UDPMessageSerializer
    m = Message(name, packet_id=packet_id, flags=0)
    return bytes(UDPMessageSerializer().serialize(m))


def run_sequence(ctx, seq_seed, same_ip):
    import random
    rng = random.Random(seq_seed)
    settings = ProxySettings()
    settings.ALLOW_AUTO_REQUEST_OBJECTS = False
    # both parsing configurations of the proxy's deserializer: bodies parsed on demand (default) or eagerly
    settings.ENABLE_DEFERRED_PACKET_PARSING = bool(seq_seed % 2)
    ctx.count("sequences_deferred_parsing" if seq_seed % 2 else "sequences_eager_parsing")
    # the proxy may be told to consult the viewers' on-disk object caches when a region says hello (off by default): whatever
    # state those files are in, that is the proxy's business and not a reason to lose the simulator's datagram
    import os
    old_home = os.environ.get("HOME")
    variant = None
    if (seq_seed // 2) % 3 == 0:
        variant = VOCACHE_VARIANTS[(seq_seed // 6) % len(VOCACHE_VARIANTS)]
        settings.USE_VIEWER_OBJECT_CACHE = True
        os.environ["HOME"] = vocache_home(variant)
        ctx.count("sequences_with_viewer_object_cache")
        ctx.cover("viewer_object_cache_states", variant)
    rig = Rig(settings=settings)
    try:
        _run_sequence(ctx, rng, rig, seq_seed, same_ip, variant)
    finally:
        rig.close()
        if variant is not None:
            if old_home is None:
                os.environ.pop("HOME", None)
            else:
                os.environ["HOME"] = old_home


def _run_sequence(ctx, rng, rig, seq_seed, same_ip, vocache=None):
    templates = gen_msg.all_templates()
    if same_ip:
        ctx.count("same_ip_sequences")
        ip = "127.0.0.1"
        clients = [(ip, 40001), (ip, 40002)]
        sim_addrs = [[(ip, 13001), (ip, 13002), (ip, 13003)], [(ip, 13011), (ip, 13012)]]
        stranger = ("192.0.2.77", 999)
    else:
        clients = [("10.0.0.1", 40001), ("10.0.0.2", 40002)]
        sim_addrs = [[("10.1.0.1", 13001), ("10.1.0.2", 13002), ("10.1.0.3", 13003)], [("10.2.0.1", 13001), ("10.2.0.2", 13002)]]
        stranger = ("192.0.2.77", 999)
    sessions = []
    circuits = []
    for si in range(2):
        sess = rig.add_session(sim_addrs[si][0], handle_xy=(1000 + si, 1000))
        sessions.append(sess)
        for slot, addr in enumerate(sim_addrs[si]):
            if slot > 0:
                sess.register_region(circuit_addr=addr, seed_url=f"https://sim.example.invalid/cap/{si}{slot}",
                                     handle=((2000 + si) << 32) | (1000 + slot))
            c = Circ(si, slot, addr)
            # packet ids whose big-endian bytes (after a zero flags byte) look like a SOCKS5 UDP header are legal too
            c.out_id = rng.choice([1, 1, 0, 200, 250, 700, 760, 65000, 2 ** 24 - 5])
            c.in_id = rng.choice([1, 1, 0, 200, 250, 700, 760, 65000, 2 ** 24 - 5])
            circuits.append(c)
    assocs = [rig.add_association(clients[0]), rig.add_association(clients[1])]
    # witnesses: state-keeping code hangs off these handlers, a discarded datagram must never get that far
    del DISPATCHED[:]
    for sess in sessions:
        sess.message_handler.subscribe("*", lambda m: DISPATCHED.append(m.name) and None)
        for r in sess.regions:
            r.message_handler.subscribe("*", lambda m: DISPATCHED.append(m.name) and None)
    wit_base = {"sequence_seed": seq_seed, "same_ip": same_ip, "viewer_object_cache": vocache}
    history = []
    last_was_garbage = False
    n_events = rng.randint(120, 300)

    def deliver_valid(assoc_idx, circ, direction_in, prepared_name=None, only=None):
        nonlocal last_was_garbage
        a = assocs[assoc_idx]
        pid = circ.in_id if direction_in else circ.out_id
        if prepared_name is None:
            name, data, msg = make_valid(rng, templates, direction_in, pid, ctx, only=only)
            if name == "RegionHandshake" and vocache:
                ctx.count("region_handshakes_with_viewer_object_cache_enabled")
        else:
            # a message with a side effect on the circuit (CloseCircuit / DisableSimulator): the circuit is open when it
            # arrives, so it has to be forwarded like any other datagram
            name, data = prepared_name, simple_msg(prepared_name, pid)
            try:
                msg = decode(data)
            except Exception as e:
                ctx.violation("valid-datagram-undecodable:" + _msgclass(name), "a template-conformant datagram does not decode",
                              {"message": name, "datagram": data[:300], "exc": repr(e)[:300]})
                return
            ctx.count("closing_messages_checked")
        if direction_in:
            circ.in_id += 1
        else:
            circ.out_id += 1
        before = len(rig.sendlog)
        v_addr = getattr(circ, "viewer_addr", a.client_addr)
        exc = a.from_sim(circ.addr, data) if direction_in else a.raw(socks_wrap(circ.addr, data), v_addr)
        new = rig.sendlog[before:]
        history.append(("in" if direction_in else "out", name, circ.sess_idx, circ.slot))
        wit = dict(wit_base, direction="in" if direction_in else "out", message=name, datagram=data[:300],
                   region_slot=circ.slot, session=circ.sess_idx, history_tail=history[-6:])
        tag = ("in:" if direction_in else "out:")
        if exc is not None:
            ctx.violation("valid-datagram-raised:" + type(exc).__name__ + ":" + _msgclass(name),
                          "an exception escaped datagram_received for a valid datagram on an open circuit (datagram lost)",
                          dict(wit, exc=repr(exc)[:300]))
            return
        if len(new) != 1:
            ctx.violation(tag + ("not-forwarded" if not new else "forwarded-more-than-once"),
                          "a valid datagram on an open circuit was not forwarded exactly once",
                          dict(wit, sends=[(n, d[:60], ad) for n, d, ad in new]))
            return
        via, out, addr = new[0]
        if via != a.name:
            ctx.violation(tag + "wrong-association", "forwarded through another association's socket", dict(wit, via=via))
            return
        expect_addr = v_addr if direction_in else circ.addr
        if addr != expect_addr:
            ctx.violation(tag + "wrong-peer", "forwarded to the wrong address", dict(wit, got=addr, want=expect_addr))
            return
        payload = out
        if direction_in:
            ref = socks_unwrap_ref(out)
            real = a.protocol._parse_socks_datagram(out)
            if ref is None or real is None or ref[0] != circ.addr or real[0] != circ.addr or ref[1] != real[1]:
                ctx.violation("in:socks-framing", "the SOCKS5 UDP header added for the viewer is not what the parser strips",
                              dict(wit, out=out[:80], ref=repr(ref)[:100], real=repr(real)[:100]))
                return
            payload = ref[1]
        try:
            got = decode(payload)
            same = same_message(got, msg)
        except Exception as e:
            ctx.violation(tag + "forwarded-undecodable", "the forwarded datagram does not decode", dict(wit, out=payload[:200],
                                                                                                  exc=repr(e)[:200]))
            return
        if not same:
            ctx.violation(tag + "content-changed", "the forwarded datagram decodes to a different message",
                          dict(wit, out=payload[:300]))
            return
        if payload == data:
            ctx.count("byte_identical")
        if data[0] & 0x10:
            ctx.count("delivered_with_ack_flag_and_empty_trailer")
        ctx.count("valid_in_delivered" if direction_in else "valid_out_delivered")
        if vocache and name == "RegionHandshake":
            for r in sessions[circ.sess_idx].regions:
                if r.circuit_addr == circ.addr and r.objects.cache_loaded:
                    ctx.count("viewer_object_cache_consulted_at_region_hello")
        if circ.slot > 0:
            ctx.count("multi_region_deliveries")
        ctx.cover("templates", name)
        ctx.nontrivial(("in" if direction_in else "out", name, circ.slot, last_was_garbage))
        last_was_garbage = False

    def garbage(kind):
        nonlocal last_was_garbage
        ai = rng.randrange(2)
        a = assocs[ai]
        my = [c for c in circuits if c.sess_idx == ai]
        circ = rng.choice(my)
        snap_before = snapshot(rig, assocs)
        before = len(rig.sendlog)
        desc = kind
        if kind == "random":
            data = bytes(rng.getrandbits(8) for _ in range(rng.choice([0, 1, 3, 6, 7, 20, 200])))
            exc = a.from_sim(circ.addr, data) if rng.random() < 0.5 else a.from_viewer(circ.addr, data)
        elif kind == "truncated":
            _, data, _ = make_valid(rng, templates, False, 7)
            data = data[:rng.randint(1, max(1, min(len(data) - 1, 9)))]
            exc = a.from_sim(circ.addr, data) if rng.random() < 0.5 else a.from_viewer(circ.addr, data)
        elif kind == "bad_socks":
            _, data, _ = make_valid(rng, templates, False, 7)
            variant = rng.choice(["rsv", "frag", "atype", "short", "domain", "empty"])
            desc += ":" + variant
            hdr = bytearray(socks_wrap(circ.addr, b"")[:10])
            if variant == "rsv":
                hdr[0:2] = b"\x00\x01"
            elif variant == "frag":
                hdr[2] = rng.randint(1, 255)
            elif variant == "atype":
                hdr[3] = rng.choice([0, 2, 4, 5, 255])
            if variant == "short":
                raw = bytes(hdr[:rng.randint(0, 9)])
            elif variant == "empty":
                raw = b""
            elif variant == "domain":
                raw = b"\x00\x00\x00\x03" + bytes([9]) + b"localhost" + struct.pack(">H", circ.addr[1]) + data
            else:
                raw = bytes(hdr) + data
            exc = a.raw(raw, a.client_addr)
        elif kind == "unknown_host":
            _, data, _ = make_valid(rng, templates, True, 7)
            exc = a.raw(data, stranger)
        elif kind == "unregistered_circuit":
            _, data, _ = make_valid(rng, templates, False, 7)
            exc = a.from_viewer(("10.9.9.9", 4242), data)
        elif kind == "banned":
            names = [t for t in templates if banned_inbound(t.name)]
            tmpl = rng.choice(names)
            spec = gen_msg.limit_for_zerocode(rng, tmpl, {"max_var_len": 60, "small_block": 4, "p_extra": 0})
            spec["acks"] = []
            spec["flags"] &= ~0x10
            exc = a.from_sim(circ.addr, wire.ref_encode(tmpl, spec))
        elif kind == "unknown_msgnum":
            data = b"\x00" + struct.pack(">I", 5) + b"\x00" + rng.choice([b"\xff\xff\xff\x77", b"\xff\xff\x7f\xff", b"\xfe"]) + b"abc"
            exc = a.from_sim(circ.addr, data) if rng.random() < 0.5 else a.from_viewer(circ.addr, data)
        else:
            raise ValueError(kind)
        new = rig.sendlog[before:]
        history.append(("garbage", desc, ai, circ.slot))
        if kind in ("random", "truncated", "unknown_msgnum"):
            # "cannot be decoded" = the header parser rejects it; bytes that happen to carry a valid header are
            # ordinary (if odd) traffic and are passed through like any datagram whose body the proxy cannot parse
            try:
                UDPMessageDeserializer().deserialize(data)
                ctx.count("garbage_with_valid_header")
                last_was_garbage = True
                return
            except Exception:
                pass
        ctx.count("garbage_datagrams")
        ctx.count("discard_" + kind)
        if exc is not None:
            ctx.count("garbage_exceptions_escaped")
            ctx.cover("garbage_exception_types", type(exc).__name__)
        wit = dict(wit_base, garbage=desc, history_tail=history[-6:])
        if new and circ.open is False and kind in ("random", "truncated", "unknown_msgnum"):
            pass
        if new and kind in ("bad_socks", "unknown_host", "unregistered_circuit", "banned", "truncated", "unknown_msgnum") \
                or (new and kind == "random"):
            ctx.violation("garbage-forwarded:" + kind, "a datagram that must be discarded produced a send",
                          dict(wit, sends=[(n, d[:60], ad) for n, d, ad in new]))
        snap_after = snapshot(rig, assocs)
        if snap_after != snap_before:
            ctx.violation("garbage-changed-state:" + kind, "a discarded datagram changed session / region / circuit state",
                          dict(wit, before=repr(snap_before)[:400], after=repr(snap_after)[:400]))
        last_was_garbage = True

    # pre-session traffic on association 1 (no UseCircuitCode yet)
    for _ in range(rng.randint(1, 3)):
        a = assocs[1]
        snap_before = snapshot(rig, assocs)
        before = len(rig.sendlog)
        _, data, _ = make_valid(rng, templates, False, 1)
        a.from_viewer(circuits[3].addr, data)
        ctx.count("discard_presession")
        ctx.count("garbage_datagrams")
        if rig.sendlog[before:]:
            ctx.violation("garbage-forwarded:presession", "traffic before the circuit was opened was forwarded",
                          dict(wit_base))
        if snapshot(rig, assocs) != snap_before:
            ctx.violation("garbage-changed-state:presession", "pre-session traffic changed state", dict(wit_base))

    # ... and from the other side: the simulator address is known to that association by now (the viewer has sent to it), so
    # datagrams from it are attributed to the association - which still has no session. Whatever they say (including a
    # UseCircuitCode naming either pending session) they are discarded and leave nothing behind: the owner claims it below.
    for _ in range(rng.randint(0, 3)):
        a = assocs[1]
        snap_before = snapshot(rig, assocs)
        before = len(rig.sendlog)
        what = rng.choice(["ucc0", "ucc1", "ucc1", "valid", "unknown-session"])
        if what == "valid":
            _, data, _ = make_valid(rng, templates, True, 1)
        elif what == "unknown-session":
            data = use_circuit_code(sessions[1], 1)
            data = data.replace(sessions[1].id.bytes, bytes(rng.getrandbits(8) for _ in range(16)))
        else:
            data = use_circuit_code(sessions[int(what[-1])], 1)
        a.from_sim(circuits[3].addr, data)
        ctx.count("discard_presession_from_sim_side")
        ctx.count("discard_presession_from_sim_side:" + what)
        ctx.count("garbage_datagrams")
        if rig.sendlog[before:]:
            ctx.violation("garbage-forwarded:presession", "traffic before the circuit was opened was forwarded",
                          dict(wit_base, side="sim", what=what))
        if snapshot(rig, assocs) != snap_before:
            ctx.violation("garbage-changed-state:presession", "pre-session traffic changed state",
                          dict(wit_base, side="sim", what=what, before=repr(snap_before)[:300], after=repr(snapshot(rig, assocs))[:300]))
            return

    port_seq = [0]

    def open_circuit(circ):
        a = assocs[circ.sess_idx]
        # Round 11: a viewer's UDP socket may come back on another port (same host) between its earlier datagrams to a simulator
        # and the UseCircuitCode that opens (or opens again) the circuit: the circuit belongs to the socket that opened it
        if not circ.open and rng.random() < 0.35:
            old_addr = getattr(circ, "viewer_addr", a.client_addr)
            if rng.random() < 0.7:
                # something for this simulator from the old port first (what becomes of it is not judged here)
                b4 = len(rig.sendlog)
                _, early, _ = make_valid(rng, templates, False, circ.out_id)
                a.raw(socks_wrap(circ.addr, early), old_addr)
                ctx.count("refused_datagrams_before_the_viewer_moved" if not rig.sendlog[b4:] else "datagrams_let_through_before_the_viewer_moved")
            port_seq[0] += 1
            circ.viewer_addr = (a.client_addr[0], 50000 + port_seq[0])
            ctx.count("circuits_opened_from_another_viewer_port")
        elif not hasattr(circ, "viewer_addr"):
            circ.viewer_addr = a.client_addr
        data = use_circuit_code(sessions[circ.sess_idx], circ.out_id)
        circ.out_id += 1
        before = len(rig.sendlog)
        exc = a.raw(socks_wrap(circ.addr, data), circ.viewer_addr)
        new = rig.sendlog[before:]
        history.append(("out", "UseCircuitCode", circ.sess_idx, circ.slot))
        wit = dict(wit_base, message="UseCircuitCode", region_slot=circ.slot, session=circ.sess_idx, reopened=circ.ever_opened,
                   history_tail=history[-6:])
        if exc is not None or len(new) != 1 or new[0][2] != circ.addr or new[0][1] != data:
            ctx.violation("use-circuit-code-not-forwarded" + (":reopen" if circ.ever_opened else ""),
                          "UseCircuitCode for a known region was not forwarded exactly once, unchanged",
                          dict(wit, exc=repr(exc)[:200], sends=[(n, d[:60], ad) for n, d, ad in new]))
            return
        if circ.ever_opened and not circ.open:
            ctx.count("reopened_circuits")
        circ.open = True
        circ.ever_opened = True

    # open the first circuits - in either order: the second login's viewer may well connect first
    first_two = [circuits[0], circuits[3]]
    if rng.random() < 0.5:
        first_two.reverse()
        ctx.count("sessions_claimed_out_of_login_order")
    for c0 in first_two:
        open_circuit(c0)
    kinds = ["random", "truncated", "bad_socks", "unknown_host", "unregistered_circuit", "banned", "unknown_msgnum"]
    for ev in range(n_events):
        r = rng.random()
        if r < 0.06:
            c = rng.choice(circuits)
            open_circuit(c)            # new region, duplicate, or re-open after close
        elif r < 0.09:
            c = rng.choice([c for c in circuits if c.open] or circuits[:1])
            if c.open and sum(1 for x in circuits if x.open and x.sess_idx == c.sess_idx) > 1 or rng.random() < 0.3:
                name = rng.choice(["CloseCircuit", "DisableSimulator"])
                a = assocs[c.sess_idx]
                from_viewer = name == "CloseCircuit" and rng.random() < 0.5
                if c.open:
                    deliver_valid(c.sess_idx, c, not from_viewer, prepared_name=name)
                elif from_viewer:
                    a.from_viewer(c.addr, simple_msg(name, c.out_id))
                    c.out_id += 1
                else:
                    a.from_sim(c.addr, simple_msg(name, c.in_id))
                    c.in_id += 1
                if c.open:
                    c.open = False
                    history.append(("close", name, c.sess_idx, c.slot))
        elif r < 0.35:
            garbage(rng.choice(kinds))
        else:
            opened = [c for c in circuits if c.open]
            if not opened:
                open_circuit(circuits[0])
                continue
            c = rng.choice(opened)
            if vocache and not getattr(c, "said_hello", False) and rng.random() < 0.3:
                # the region's hello (the first one is what makes the proxy look at the cache files)
                c.said_hello = True
                deliver_valid(c.sess_idx, c, True, only="RegionHandshake")
                continue
            deliver_valid(c.sess_idx, c, rng.random() < 0.5)
        # the liveness of every circuit the model holds open / closed must match (other regions undisturbed)
        for c in circuits:
            if not c.ever_opened:
                continue
            region = None
            for r in sessions[c.sess_idx].regions:
                if r.circuit_addr == c.addr:
                    region = r
            alive = bool(region and region.circuit and region.circuit.is_alive)
            if alive != c.open:
                ctx.violation("circuit-liveness-disturbed", "a region's circuit liveness changed without a message for that circuit",
                              dict(wit_base, region_slot=c.slot, session=c.sess_idx, model_open=c.open, real_alive=alive,
                                   history_tail=history[-6:]))
                c.open = alive   # resynchronise so one defect is reported once per occurrence
        if ctx.out_of_time():
            break
    ctx.ev()
    if len(ctx.samples) < 2:
        ctx.sample({"sequence_seed": seq_seed, "same_ip": same_ip, "events": len(history), "history_head": history[:14]})


def _msgclass(name):
    return name if name in ("ChatFromSimulator", "RegionHandshake", "AgentMovementComplete", "ObjectUpdate") else "other"


def many_destinations(ctx, rng):
    """A long session: through one association the viewer sends datagrams to well over a thousand different addresses that have
    nothing to do with its session (discarded one by one).  Its own simulator stays its simulator: traffic in both directions
    keeps being delivered exactly once all along."""
    rig = Rig(settings=ProxySettings())
    try:
        sim, client = ("10.1.0.1", 13001), ("10.0.0.1", 40001)
        sess = rig.add_session(sim)
        a = rig.add_association(client)
        exc = a.from_viewer(sim, use_circuit_code(sess, 1))
        if exc is not None:
            ctx.inconclusive_because(f"could not open the circuit: {exc!r}"[:200])
            return
        out_id, in_id = 2, 1
        total = ctx.pick(1400, 5000)
        for k in range(total):
            far = (f"10.{50 + (k >> 16) % 100}.{(k >> 8) & 0xFF}.{k & 0xFF}", 20000 + k % 1000)
            before = len(rig.sendlog)
            exc = a.from_viewer(far, simple_msg("CloseCircuit", 7))
            if len(rig.sendlog) != before:
                ctx.violation("garbage-forwarded:unknown_host", "a datagram for an address without a circuit was forwarded",
                              {"k": k, "far": far})
                return
            ctx.count("distinct_destinations_seen")
            if k % 64 == 63 or k == total - 1:
                for direction_in in (True, False):
                    name = "AlertMessage" if direction_in else "AgentPause"
                    from hippolyzer.lib.base.message.message import Message, Block
                    from hippolyzer.lib.base.message.udpserializer import UDPMessageSerializer
                    if direction_in:
                        m = Message(name, Block("AlertData", Message=f"still here {k}"), packet_id=in_id, flags=0)
                        in_id += 1
                    else:
                        m = Message(name, Block("AgentData", AgentID=sess.agent_id, SessionID=sess.id, SerialNum=k & 0xFFFF), packet_id=out_id,
                                    flags=0)
                        out_id += 1
                    data = bytes(UDPMessageSerializer().serialize(m))
                    before = len(rig.sendlog)
                    exc = a.from_sim(sim, data) if direction_in else a.from_viewer(sim, data)
                    new = rig.sendlog[before:]
                    ctx.ev()
                    if exc is not None or len(new) != 1:
                        ctx.violation(("in:" if direction_in else "out:") + "not-forwarded:after-many-destinations",
                                      "after the association had sent to many unrelated addresses, a valid datagram on the open "
                                      "circuit was not forwarded exactly once", {"destinations_so_far": k + 1, "exc": repr(exc)[:200],
                                                                                  "sends": len(new)})
                        return
                    ctx.count("deliveries_after_many_destinations")
        ctx.nontrivial(("many-destinations", total))
    finally:
        rig.close()


def control_connections(ctx, rng):
    """The associations are opened the way viewers open them: each over its own SOCKS5 control connection, served by the real
    SLSOCKS5Server.handle_connection (only the sockets are stand-ins). Control connections come and go - another viewer logs out,
    a stray client fails the greeting, a client asks for an unsupported command - and that is nobody else's business: the
    remaining viewers' datagrams keep being delivered exactly once both ways and their sessions stay."""
    import asyncio
    import struct as _struct
    from hippolyzer.lib.proxy.lludp_proxy import SLSOCKS5Server
    from ..harness_proxy import FakeDatagramTransport

    class Writer:
        def __init__(self, peer):
            self.peer, self.out, self.closed = peer, bytearray(), False

        def get_extra_info(self, name, default=None):
            return self.peer if name == "peername" else default

        def write(self, data):
            self.out += data

        async def drain(self):
            return None

        def close(self):
            self.closed = True

        def is_closing(self):
            return self.closed

    rig = Rig(settings=ProxySettings())
    loop = rig.loop if hasattr(rig, "loop") else asyncio.get_event_loop_policy().get_event_loop()
    real_cde = loop.create_datagram_endpoint
    made = []

    async def fake_cde(factory, local_addr=None, **kw):
        proto = factory()
        tr = FakeDatagramTransport(rig.sendlog, f"served{len(made)}")
        proto.connection_made(tr)
        try:
            proto.resend_task.cancel()
        except Exception:
            pass
        made.append(proto)
        return tr, proto
    loop.create_datagram_endpoint = fake_cde
    server = SLSOCKS5Server(rig.session_manager)
    tasks = []
    try:
        n_viewers = rng.choice([2, 3])
        viewers = []
        for v in range(n_viewers):
            client = (f"10.0.0.{v + 1}", 40001 + v)
            sim = (f"10.1.0.{v + 1}", 13001)
            sess = rig.add_session(sim, handle_xy=(1000 + 300 * v, 1000))
            reader, writer = asyncio.StreamReader(), Writer(client)
            reader.feed_data(b"\x05\x01\x00" + b"\x05\x03\x00\x01" + bytes(4) + _struct.pack("!H", 0))
            tasks.append(loop.create_task(server.handle_connection(reader, writer)))
            for _ in range(6):
                rig.run_loop_once()
            if len(made) != v + 1:
                ctx.inconclusive_because("the SOCKS5 server did not open a UDP association for a well-formed request")
                return
            viewers.append({"client": client, "sim": sim, "sess": sess, "reader": reader, "writer": writer, "proto": made[-1],
                            "out_id": 2, "in_id": 1, "alive": True})
            exc = None
            try:
                made[-1].datagram_received(socks_wrap(sim, use_circuit_code(sess, 1)), client)
            except Exception as e:
                exc = e
            if exc is not None:
                ctx.violation("use-circuit-code-not-forwarded", "UseCircuitCode through a served association raised", {"exc": repr(exc)[:200]})
                return
        history = []

        def traffic(tag):
            from hippolyzer.lib.base.message.message import Message, Block
            from hippolyzer.lib.base.message.udpserializer import UDPMessageSerializer
            for vi, v in enumerate(viewers):
                if not v["alive"]:
                    continue
                for direction_in in (False, True):
                    if direction_in:
                        m = Message("AlertMessage", Block("AlertData", Message=f"{tag} {vi}"), packet_id=v["in_id"], flags=0)
                        v["in_id"] += 1
                    else:
                        m = Message("AgentPause", Block("AgentData", AgentID=v["sess"].agent_id, SessionID=v["sess"].id, SerialNum=v["out_id"]),
                                    packet_id=v["out_id"], flags=0)
                        v["out_id"] += 1
                    data = bytes(UDPMessageSerializer().serialize(m))
                    before = len(rig.sendlog)
                    exc = None
                    try:
                        if direction_in:
                            v["proto"].datagram_received(data, v["sim"])
                        else:
                            v["proto"].datagram_received(socks_wrap(v["sim"], data), v["client"])
                    except Exception as e:
                        exc = e
                    new = rig.sendlog[before:]
                    ctx.ev()
                    want_addr = v["client"] if direction_in else v["sim"]
                    if exc is not None or len(new) != 1 or new[0][2] != want_addr:
                        ctx.violation(("in:" if direction_in else "out:") + "not-forwarded:after-control-connection-event",
                                      "a viewer's traffic on its open circuit was not delivered exactly once after something happened on "
                                      "ANOTHER client's control connection", {"history": list(history), "viewer": vi, "exc": repr(exc)[:200],
                                                                             "sends": [(n, ad) for n, _, ad in new]})
                        return False
                    ctx.count("deliveries_through_served_associations")
                if v["sess"] not in rig.session_manager.sessions:
                    ctx.violation("session-gone:after-control-connection-event", "a viewer's session disappeared after something "
                                  "happened on another client's control connection", {"history": list(history), "viewer": vi})
                    return False
            return True
        if not traffic("start"):
            return
        for step in range(rng.randint(2, 5)):
            ev = rng.choice(["stray-bad-version", "stray-no-methods", "stray-auth-only", "stray-tcp-connect", "viewer-logs-out",
                             "stray-bad-command-version"])
            if ev == "viewer-logs-out":
                alive = [v for v in viewers if v["alive"]]
                if len(alive) < 2:
                    continue
                v = rng.choice(alive)
                v["reader"].feed_eof()
                v["alive"] = False
            else:
                reader, writer = asyncio.StreamReader(), Writer(("10.0.9.9", 50000 + step))
                reader.feed_data({"stray-bad-version": b"\x04\x01\x00", "stray-no-methods": b"\x05\x00",
                                  "stray-auth-only": b"\x05\x01\x02", "stray-tcp-connect": b"\x05\x01\x00\x05\x01\x00\x01" + bytes(6),
                                  "stray-bad-command-version": b"\x05\x01\x00\x04\x03\x00\x01" + bytes(6)}[ev])
                tasks.append(loop.create_task(server.handle_connection(reader, writer)))
            history.append(ev)
            for _ in range(8):
                rig.run_loop_once()
            ctx.count("control_connection_events")
            ctx.cover("control_connection_event_kinds", ev)
            if not traffic(f"after {ev}"):
                return
        ctx.nontrivial(("control", tuple(history)))
    finally:
        loop.create_datagram_endpoint = real_cde
        for t in tasks:
            t.cancel()
        try:
            rig.run_loop_once()
        except Exception:
            pass
        rig.close()


def run(ctx):
    for _ in range(ctx.pick(3, 40)):
        control_connections(ctx, ctx.rng)
    if ctx.shard == 1 % max(ctx.nshards, 1):
        many_destinations(ctx, ctx.rng)
    n = ctx.pick(10, 600)
    for i in range(n):
        if ctx.out_of_time():
            break
        run_sequence(ctx, ctx.seed * 100003 + ctx.shard * 1009 + i, same_ip=(i % 3 == 2))


def replay(ctx, w):
    if "sequence_seed" in w:
        run_sequence(ctx, w["sequence_seed"], w.get("same_ip", False))
