"""C12 - LLSD forms are faithful: messages over LLSD and the LLSD codecs round-trip.

(a) template-generated messages -> LLSDMessageSerializer dict / XML form -> back, compared by value;
(b) generated LLSD trees through the library's binary (with/without header, zipped), notation and XML codecs,
    compared by value AND LLSD type class, dates as instants.  Shards run under three process time zones.
"""
import datetime
import math
import os
import time
import uuid as uuidlib

from .. import env

env.import_repo()

import hippolyzer.lib.base.llsd as llsd  # noqa: E402
import hippolyzer.lib.base.serialization as se  # noqa: E402
from hippolyzer.lib.base.datatypes import UUID, Vector2, Vector3, Vector4, Quaternion, TupleCoord  # noqa: E402
from hippolyzer.lib.base.message.llsd_msg_serializer import LLSDMessageSerializer  # noqa: E402
from hippolyzer.lib.base.message.msgtypes import MsgType  # noqa: E402
from hippolyzer.lib.base.settings import Settings  # noqa: E402
from hippolyzer.lib.base.message.udpserializer import UDPMessageSerializer  # noqa: E402
from hippolyzer.lib.base.message.udpdeserializer import UDPMessageDeserializer  # noqa: E402

from .. import gen_msg  # noqa: E402
from ..refs import wire  # noqa: E402

LEVEL = "exploration"
SHARDS = {"quick": 9, "thorough": 18}
TIMEOUT_S = {"quick": 600, "thorough": 3000}
BUDGET_S = {"quick": 120, "thorough": 1500}
TZS = ["UTC", "America/Los_Angeles", "Asia/Kolkata"]
RULE = ("messages: every template (quick 3, thorough 24 per template per zone), XML-legal text and finite floats, "
        "through the dict form and the XML form, both as built and as decoded from the wire; LLSD trees to depth 4 "
        "(quick 9 x 3000, thorough 18 x 40000) with all scalar types, awkward strings, uris, binaries, naive/aware dates, "
        "vector types, through binary (+/- header), zipped, notation and XML. distinct_nontrivial = distinct (codec, tree "
        "shape) pairs and distinct (message, block-count vector) pairs that round-tripped"
        ". Round-5 addition: every third case is repeated through a second LLSDMessageSerializer built on a caller-supplied template (other wire types), living next to the stock one, then the stock one again"
        ". Rounds 6-7: a long-lived serializer whose template dictionary is reloaded in place with a revised template, compared with a fresh one; LLSD codecs and the message serializer from four threads; stock-dictionary fingerprint"
        ". Round 8: EventQueueManager.inject_message with Message objects that are edited or injected again before the poll, plain events in between - one event per injection, in order, converting back to the message as injected. Round 11: every xml / binary / notation document - and a few leaves as documents of their own, among them ones that end in a whitespace byte - also through the content-sniffing llsd.parse()")
ASSUMPTIONS = [
    "LLSD has no vector type: the library's vector types compare as their component arrays",
    "naive datetimes follow the LLSD convention (UTC); dates compare as instants; dates are drawn from 1970..2100",
    "floats are finite (LLSD reals can carry non-finite values but equality is undefined for NaN)",
    "XML is only asked to carry XML-legal text; binary LLSD strings that are not valid UTF-8 are out of scope",
    "LLSD integers are S32; wider template integers travel as the binary blobs the message serializer defines",
    "date microseconds are restricted to values llbase's text date parser does not truncate (int(float('0.x')*1e6), "
    "third-party code)",
]
MUST_REACH = {"documents_sniffed_that_end_in_a_whitespace_byte": 100, "eq_events_converted_back": 40, "eq_messages_edited_between_injection_and_poll": 5, "msg_roundtrips_after_template_reload": 50, "calls_from_concurrent_threads": 1000, "msg_roundtrips_custom_template": 300, "msg_dict_roundtrips": 400, "msg_xml_roundtrips": 400, "templates_covered": 481, "tree_roundtrips": 2000,
              "codec_binary": 300, "codec_binary_noheader": 300, "codec_zipped": 300, "codec_notation": 300, "codec_xml": 300,
              "dates_checked": 100, "aware_dates_checked": 20, "uris_checked": 50, "newline_strings_checked": 50,
              "quaternion_messages": 5, "tz_covered": 3, "u64_messages": 10, "ip_messages": 5}

_llsd_ser = LLSDMessageSerializer()
_udp_ser = UDPMessageSerializer()
_es = Settings()
_es.ENABLE_DEFERRED_PACKET_PARSING = False
_udp_deser = UDPMessageDeserializer(settings=_es)

UTC = datetime.timezone.utc

from ..custom_template import custom_template_file, check_stock_unchanged  # noqa: E402
from hippolyzer.lib.base.message.template_dict import TemplateDictionary  # noqa: E402

_CUSTOM_TD = TemplateDictionary(message_template=custom_template_file())
CONFIGS = {
    "stock": (_llsd_ser, _udp_deser),
    "custom": (LLSDMessageSerializer(message_template=custom_template_file()),
               UDPMessageDeserializer(settings=_es)),
}
CONFIGS["custom"][1].template_dict = _CUSTOM_TD      # (the deserializer takes its template dictionary as an attribute)


# ------------------------------------------------------------------ typed canonical form

def tagged(v, depth=0):
    """Value + LLSD type class. Dates -> instants (microseconds since the epoch, naive = UTC)."""
    if v is None:
        return ("undef",)
    if isinstance(v, bool):
        return ("bool", v)
    if isinstance(v, int):
        return ("int", int(v))
    if isinstance(v, float):
        return ("real", "nan" if v != v else v)
    if isinstance(v, llsd.uri):
        return ("uri", str(v))
    if isinstance(v, str):
        return ("str", str(v))
    if isinstance(v, (bytes, bytearray)):
        return ("bin", bytes(v))
    if isinstance(v, uuidlib.UUID):
        return ("uuid", str(v))
    if isinstance(v, datetime.datetime):
        if v.tzinfo is None:
            v = v.replace(tzinfo=UTC)
        delta = v - datetime.datetime(1970, 1, 1, tzinfo=UTC)
        return ("date", delta // datetime.timedelta(microseconds=1))
    if isinstance(v, datetime.date):
        return ("date", (datetime.datetime(v.year, v.month, v.day, tzinfo=UTC) -
                         datetime.datetime(1970, 1, 1, tzinfo=UTC)) // datetime.timedelta(microseconds=1))
    if isinstance(v, TupleCoord):
        return ("array", [tagged(float(c), depth + 1) for c in v.data()])
    if isinstance(v, (list, tuple)):
        return ("array", [tagged(x, depth + 1) for x in v])
    if isinstance(v, dict):
        return ("map", {str(k): tagged(x, depth + 1) for k, x in v.items()})
    return ("other", repr(v))


def shape(t):
    if t[0] == "array":
        return ("array", tuple(shape(x) for x in t[1][:6]))
    if t[0] == "map":
        return ("map", tuple(sorted(((k[:4], shape(x)) for k, x in list(t[1].items())[:6]), key=repr)))
    return t[0]


def type_diffs(a, b, path="", out=None):
    if out is None:
        out = []
    if len(out) > 8:
        return out
    if a[0] != b[0]:
        out.append((path, a[0] + ":" + repr(a[1:])[:60], b[0] + ":" + repr(b[1:])[:60]))
        return out
    if a[0] == "array":
        if len(a[1]) != len(b[1]):
            out.append((path, f"array[{len(a[1])}]", f"array[{len(b[1])}]"))
            return out
        for i, (x, y) in enumerate(zip(a[1], b[1])):
            type_diffs(x, y, f"{path}[{i}]", out)
        return out
    if a[0] == "map":
        if set(a[1]) != set(b[1]):
            out.append((path, "keys " + repr(sorted(a[1]))[:80], "keys " + repr(sorted(b[1]))[:80]))
            return out
        for k in a[1]:
            type_diffs(a[1][k], b[1][k], f"{path}/{k}", out)
        return out
    if a != b:
        out.append((path, a[0] + ":" + repr(a[1:])[:60], b[0] + ":" + repr(b[1:])[:60]))
    return out


# ------------------------------------------------------------------ LLSD tree generator

AWKWARD = ["", "a", "line1\nline2", "trailing newline\n", "\n", "quote ' and \" here", "back\\slash", "back\\",
           "\\n literal", "tab\there", "unicode é中\U0001f600", "<xml> & entities", "]]>", "  spaces  ", "'", "\\'",
           "r1.5", "i42", "true", "!", "d\"2020-01-01T00:00:00Z\"", "\r\n", "\x7f"]


def gen_string(rng, xml_safe):
    r = rng.random()
    if r < 0.5:
        s = rng.choice(AWKWARD)
    else:
        alphabet = "abcXYZ 019_-.,:;!?/\\'\"\n\t#<>=[]{}$|&é中"
        s = "".join(rng.choice(alphabet) for _ in range(rng.randint(0, 20)))
    if xml_safe:
        s = "".join(c for c in s if c in "\n\t" or (ord(c) >= 0x20 and ord(c) != 0x7f)).replace("\r", "")
    return s


def gen_date(rng):
    r = rng.random()
    base = rng.choice([0, 86400, 946684800, 1583056800, 1604221200, 1604217600, 1615716000, 1700000000, 2 ** 31 - 1,
                       4102444800])
    secs = base + rng.randint(-86400, 86400)
    if secs < 0:
        secs = rng.randint(0, 10 ** 9)
    micro = rng.choice([0, 0, 500000, 123000, 999999, rng.randint(0, 999999)])
    # llbase's text date parser computes int(float("0.xxxxxx") * 1e6), which truncates some values by 1us
    # (third-party code, not the repository's): keep to microsecond values that survive that expression
    while int(float("0.%06d" % micro) * 1e6) != micro:
        micro = rng.randint(0, 999999)
    dt = datetime.datetime(1970, 1, 1) + datetime.timedelta(seconds=secs, microseconds=micro)
    if r < 0.6:
        return dt, False                         # naive, UTC convention
    if r < 0.8:
        return dt.replace(tzinfo=UTC), True
    off = rng.choice([-8, -7, 5.5, 1, 14, -12])
    tz = datetime.timezone(datetime.timedelta(hours=off))
    return dt.replace(tzinfo=UTC).astimezone(tz), True


def gen_tree(rng, depth, ctx, xml_safe):
    kinds = ["undef", "bool", "int", "real", "str", "str", "uuid", "date", "uri", "bin", "vec"]
    if depth > 0:
        kinds += ["array", "map", "array", "map"]
    k = rng.choice(kinds)
    if k == "undef":
        return None
    if k == "bool":
        return rng.random() < 0.5
    if k == "int":
        return rng.choice([0, 1, -1, 2 ** 31 - 1, -2 ** 31, rng.randint(-2 ** 31, 2 ** 31 - 1), rng.randint(-300, 300)])
    if k == "real":
        return rng.choice([0.0, -0.0, 1.5, -1e300, 5e-324, 1 / 3, rng.uniform(-1e6, 1e6), 1e16, 123456789.125])
    if k == "str":
        s = gen_string(rng, xml_safe)
        if "\n" in s:
            ctx.count("newline_strings_generated")
        return s
    if k == "uuid":
        return UUID(int=rng.getrandbits(128)) if rng.random() < 0.8 else uuidlib.UUID(int=rng.getrandbits(128))
    if k == "date":
        return gen_date(rng)[0]
    if k == "uri":
        return llsd.uri(rng.choice(["http://example.com/", "", "https://a.b/c?d=e&f=\"g\"", "secondlife:///app/agent/x",
                                    "http://exämple.com/ü", "x\\y"]))
    if k == "bin":
        return bytes(rng.getrandbits(8) for _ in range(rng.choice([0, 1, 3, rng.randint(0, 40)])))
    if k == "vec":
        f = lambda: rng.choice([0.0, 1.0, -1.5, rng.uniform(-100, 100)])  # noqa: E731
        return rng.choice([lambda: Vector3(f(), f(), f()), lambda: Vector4(f(), f(), f(), f()),
                           lambda: Vector2(f(), f()), lambda: Quaternion(f(), f(), f(), f())])()
    if k == "array":
        return [gen_tree(rng, depth - 1, ctx, xml_safe) for _ in range(rng.choice([0, 1, 2, 3, 5]))]
    out = {}
    for _ in range(rng.choice([0, 1, 2, 3, 5])):
        key = rng.choice(["k", "key with space", "é", "", "a'b", "a\\b", "x\ny" if not xml_safe else "xy",
                          "".join(rng.choice("abcdefgh") for _ in range(rng.randint(1, 6)))])
        out[key] = gen_tree(rng, depth - 1, ctx, xml_safe)
    return out


def has(t, kind):
    if t[0] == kind:
        return True
    if t[0] == "array":
        return any(has(x, kind) for x in t[1])
    if t[0] == "map":
        return any(has(x, kind) for x in t[1].values())
    return False


def has_newline_string(t):
    if t[0] == "str":
        return "\n" in t[1]
    if t[0] == "array":
        return any(has_newline_string(x) for x in t[1])
    if t[0] == "map":
        return any("\n" in k or has_newline_string(x) for k, x in t[1].items())
    return False


def has_aware(v):
    if isinstance(v, datetime.datetime):
        return v.tzinfo is not None
    if isinstance(v, (list, tuple)):
        return any(has_aware(x) for x in v)
    if isinstance(v, dict):
        return any(has_aware(x) for x in v.values())
    return False


CODECS = {
    "binary": (lambda v: llsd.format_binary(v), llsd.parse_binary),
    "binary_noheader": (lambda v: llsd.format_binary(v, with_header=False), llsd.parse_binary),
    "zipped": (llsd.zip_llsd, llsd.unzip_llsd),
    "notation": (llsd.format_notation, llsd.parse_notation),
    "xml": (llsd.format_xml, llsd.parse_xml),
    "binary_spec": (None, None),    # se.BinaryLLSD through BufferWriter/BufferReader
}


def check_tree(ctx, tree, seed_info):
    want = tagged(tree)
    aware = has_aware(tree)
    for name, (fmt, parse) in CODECS.items():
        ctx.ev()
        wit = {"codec": name, "tree": repr(tree)[:500], "tz": os.environ.get("TZ"), "seed": seed_info}
        try:
            if name == "binary_spec":
                w = se.BufferWriter("<")
                w.write(se.BinaryLLSD, tree)
                data = w.copy_buffer() + b"TRAIL"
                r = se.BufferReader("<", data)
                back = r.read(se.BinaryLLSD)
                if r.tell() != len(data) - 5:
                    ctx.violation("binary-spec-framing", "BinaryLLSD did not consume exactly its own encoding",
                                  dict(wit, consumed=r.tell(), written=len(data) - 5))
                    continue
            else:
                data = fmt(tree)
        except Exception as e:
            ctx.violation(f"format-raises:{name}" + _date_tag(tree, aware), "formatting an LLSD value raised",
                          dict(wit, exc=repr(e)[:300]))
            continue
        if name == "notation" and b"\n" in data:
            ctx.violation("notation-raw-newline", "notation output contains a raw newline", dict(wit, data=data[:300]))
            continue
        if name != "binary_spec":
            try:
                back = parse(data)
            except Exception as e:
                ctx.violation(f"parse-raises:{name}" + _date_tag(tree, aware), "the library cannot parse what it formatted",
                              dict(wit, data=data[:300], exc=repr(e)[:300]))
                continue
        got = tagged(back)
        if got != want:
            diffs = type_diffs(want, got)
            kinds = sorted({d[1].split(":")[0] + "->" + d[2].split(":")[0] for d in diffs})
            ctx.violation(f"tree-differs:{name}:" + ",".join(kinds[:3]), "an LLSD value came back different",
                          dict(wit, diffs=diffs[:5], data=data[:200]))
            continue
        # Round 11: the same document through the content-sniffing entry point (what the HTTP side and
        # LLSDMessageSerializer.deserialize(bytes) use) - for the whole tree and for a few of its leaves as documents of their own
        if name in ("binary", "xml", "notation"):
            docs = [(tree, data)]
            for leaf in _leaves(tree)[:4]:
                try:
                    docs.append((leaf, fmt(leaf)))
                except Exception:
                    continue
            for sub, doc in docs:
                ctx.count("documents_sniffed")
                if doc[-1:] in b" \t\r\n\x0b\x0c":
                    ctx.count("documents_sniffed_that_end_in_a_whitespace_byte")
                try:
                    direct = tagged(parse(doc))
                except Exception:
                    continue        # (judged above for the whole tree; a leaf the specific parser refuses is not this check's business)
                try:
                    sniffed = tagged(llsd.parse(doc))
                except Exception as e:
                    ctx.violation(f"sniffing-parse-raises:{name}", "llsd.parse() refuses a document the format's own parser reads",
                                  dict(wit, document=doc[:200], value=repr(sub)[:200], exc=repr(e)[:200]))
                    break
                if sniffed != direct:
                    ctx.violation(f"sniffing-parse-differs:{name}", "llsd.parse() reads a document differently from the format's own parser",
                                  dict(wit, document=doc[:200], value=repr(sub)[:200]))
                    break
        ctx.count("tree_roundtrips")
        ctx.count("codec_" + name)
        ctx.nontrivial((name, shape(want)))
    if has(want, "date"):
        ctx.count("dates_checked")
        if aware:
            ctx.count("aware_dates_checked")
    if has(want, "uri"):
        ctx.count("uris_checked")
    if has_newline_string(want):
        ctx.count("newline_strings_checked")


def _leaves(v):
    if isinstance(v, dict):
        return [x for c in v.values() for x in _leaves(c)]
    if isinstance(v, (list, tuple)):
        return [x for c in v for x in _leaves(c)]
    return [v]


def _date_tag(tree, aware):
    return ":aware-date" if aware else ""


# ------------------------------------------------------------------ messages

def msg_problem(a, b):
    if a.name != b.name:
        return "name"
    da, db = a.to_dict(), b.to_dict()
    if da == db:
        return None
    for bn in da["body"]:
        if bn not in db["body"] or len(da["body"][bn]) != len(db["body"][bn]):
            return f"block list {bn}"
        for x, y in zip(da["body"][bn], db["body"][bn]):
            for k in x:
                if not (k in y and x[k] == y[k]):
                    return f"{bn}.{k}: {x[k]!r} -> {y.get(k)!r}"
    return "block lists"


def finite_spec(spec):
    for (_, entries) in spec["blocks"]:
        for ent in entries or ():
            for vs in ent.values():
                if vs[0] == "f" and not math.isfinite(vs[1]):
                    return False
                if vs[0] in ("v3", "v4", "q") and not all(math.isfinite(c) for c in vs[1]):
                    return False
    return True


def check_message(ctx, tmpl, spec, config="stock"):
    _llsd_ser, _udp_deser = CONFIGS[config]
    msg = gen_msg.build_message(spec)
    types = {v.type for b in tmpl.blocks for v in b.variables}
    variants = [("built", msg)]
    try:
        variants.append(("wire-decoded", _udp_deser.deserialize(wire.ref_encode(tmpl, spec))))
    except Exception:
        pass
    for vname, m in variants:
        for form in ("dict", "xml"):
            ctx.ev()
            wit = {"spec": spec, "form": form, "variant": vname, "tz": os.environ.get("TZ"), "template_config": config}
            try:
                packed = _llsd_ser.serialize(m, as_dict=(form == "dict"))
            except Exception as e:
                ctx.violation(f"msg-serialize-raises:{_typeclass(types, e)}", "converting a message to its LLSD form raised",
                              dict(wit, exc=repr(e)[:300]))
                continue
            try:
                back = _llsd_ser.deserialize(packed)
            except Exception as e:
                ctx.violation("msg-deserialize-raises", "converting the LLSD form back to a message raised",
                              dict(wit, exc=repr(e)[:300], packed=repr(packed)[:300]))
                continue
            prob = msg_problem(m, back)
            if not prob and form == "dict":
                # the in-memory form is handed on (e.g. to the viewer's event queue): converting it back must be
                # repeatable, i.e. must not have consumed / rewritten the form it was given
                try:
                    again = _llsd_ser.deserialize(packed)
                    prob2 = msg_problem(m, again)
                except Exception as e:
                    prob2 = "second conversion raised " + repr(e)[:200]
                if prob2:
                    ctx.violation("msg-llsd-form-consumed", "converting the same in-memory LLSD form back a second time "
                                  "fails or gives a different message", dict(wit, problem=prob2[:300]))
                    continue
            if prob:
                ctx.violation(f"msg-differs:{form}:{vname}", "message differs after the LLSD round trip",
                              dict(wit, problem=prob[:300]))
                continue
            ctx.count(f"msg_{form}_roundtrips")
            if config != "stock":
                ctx.count("msg_roundtrips_custom_template")
                continue
            ctx.cover("templates", tmpl.name)
            ctx.nontrivial(("msg", tmpl.name, tuple(len(e or ()) for _, e in spec["blocks"]), form, vname))
    if MsgType.MVT_LLQuaternion in types:
        ctx.count("quaternion_messages")
    if MsgType.MVT_U64 in types:
        ctx.count("u64_messages")
    if MsgType.MVT_IP_ADDR in types:
        ctx.count("ip_messages")


def _typeclass(types, e):
    if MsgType.MVT_LLQuaternion in types and "data" in repr(e):
        return "quaternion"
    return type(e).__name__


def threads_phase(ctx, rng):
    """LLSD codecs and the message serializer, the same calls from several threads at once."""
    from ..threads import run_concurrently
    jobs = []
    for _ in range(40):
        tree = gen_tree(rng, 3, ctx, xml_safe=True)
        for name, (fmt, parse) in list(CODECS.items())[:4]:
            try:
                enc = fmt(tree)
                back = repr(tagged(parse(enc)))
            except Exception:
                continue
            jobs.append((lambda fmt=fmt, t=tree: fmt(t), enc))
            jobs.append((lambda parse=parse, enc=enc: repr(tagged(parse(enc))), back))
    templates = gen_msg.all_templates()
    for _ in range(30):
        tmpl = rng.choice(templates)
        spec = gen_msg.gen_spec(rng, tmpl, {"xml_safe": True, "flags": 0, "p_extra": 0, "max_var_len": 100, "small_block": 6})
        if not (finite_spec(spec) and _xml_ok(spec)):
            continue
        try:
            msg = gen_msg.build_message(spec)
            packed = _llsd_ser.serialize(msg, as_dict=False)
            d = _llsd_ser.deserialize(packed).to_dict()
        except Exception:
            continue
        jobs.append((lambda m=msg: _llsd_ser.serialize(m, as_dict=False), packed))
        jobs.append((lambda b=packed: _llsd_ser.deserialize(b).to_dict(), d))
    run_concurrently(ctx, "llsd", jobs, reps=ctx.pick(3, 20))


def template_reload(ctx, rng):
    """A long-lived serializer whose template dictionary is reloaded in place with a revised template (what the library does for
    its stock dictionary when the template file changes): from then on it goes by the revised layout, like a serializer built
    on it from scratch."""
    import io
    from ..custom_template import custom_template_text
    from hippolyzer.lib.base.message.template_parser import MessageTemplateParser
    ser = LLSDMessageSerializer(message_template=io.StringIO(custom_template_text(0)))
    deser = UDPMessageDeserializer(settings=_es)
    deser.template_dict = ser.template_dict
    CONFIGS["reloaded"] = (ser, deser)
    names = [t.name for t in rng.sample(list(ser.template_dict), 60)]

    def some_messages(tag):
        for name in names:
            tmpl = ser.template_dict[name]
            for _ in range(2):
                spec = gen_msg.gen_spec(rng, tmpl, {"xml_safe": True, "flags": 0, "p_extra": 0, "max_var_len": 100, "small_block": 6})
                if finite_spec(spec) and _xml_ok(spec):
                    spec["acks"] = []
                    check_message(ctx, tmpl, spec, config="reloaded")
                    ctx.count("msg_roundtrips_" + tag)
    some_messages("before_template_reload")
    ser.template_dict.load_templates(MessageTemplateParser(io.StringIO(custom_template_text(1))).message_templates)
    fresh = LLSDMessageSerializer(message_template=io.StringIO(custom_template_text(1)))
    some_messages("after_template_reload")
    # and the same in-memory form as a serializer that never knew the first revision
    for name in names:
        tmpl = ser.template_dict[name]
        spec = gen_msg.gen_spec(rng, tmpl, {"xml_safe": True, "flags": 0, "p_extra": 0, "max_var_len": 60, "small_block": 4})
        if not (finite_spec(spec) and _xml_ok(spec)):
            continue
        try:
            msg = gen_msg.build_message(spec)
            a = repr(tagged(ser.serialize(msg, as_dict=True)))
            b = repr(tagged(fresh.serialize(msg, as_dict=True)))
        except Exception as e:
            ctx.violation("msg-serialize-raises:after-template-reload", "converting a message raised after the serializer's template "
                          "dictionary was reloaded", {"spec": spec, "exc": repr(e)[:200]})
            continue
        if a != b:
            ctx.violation("msg-llsd-form-stale-after-template-reload", "after its template dictionary was reloaded a serializer "
                          "converts a message differently from a serializer built on the revised template", {"spec": spec, "form": a[:300], "fresh": b[:300]})
    del CONFIGS["reloaded"]


def eq_injection(ctx, rng):
    """The consumer named in the property: EventQueueManager.inject_message() puts a templated message's LLSD form on a region's
    event queue. What the viewer is then handed must convert back to the message as it was WHEN IT WAS INJECTED, one event per
    injection, in injection order - also when the caller goes on using (editing, re-injecting) its Message object afterwards, and
    when plain events are queued in between."""
    import copy
    from ..harness_proxy import Rig
    from .c05 import RecTransport
    from hippolyzer.lib.proxy.settings import ProxySettings
    templates = [t for t in gen_msg.all_templates()]
    rig = Rig(settings=ProxySettings())
    try:
        sess = rig.add_session(("10.1.0.1", 13001))
        region = sess.regions[0]
        sess.open_circuit(("10.0.0.1", 40001), region.circuit_addr, RecTransport())
        eq = region.eq_manager
        ser = LLSDMessageSerializer()
        for rnd in range(ctx.pick(25, 400)):
            expected = []       # ("msg", independent copy) / ("event", dict)
            held = []
            for k in range(rng.randint(1, 5)):
                what = rng.choice(["new", "new", "same-again", "edited-again", "plain"])
                if what == "plain":
                    ev = {"message": "HVPlain", "body": {"serial": rnd * 10 + k}}
                    eq.inject_event(ev)
                    expected.append(("event", copy.deepcopy(ev)))
                    continue
                if what == "new" or not held:
                    tmpl = rng.choice(templates)
                    spec = None
                    for _ in range(8):
                        cand = gen_msg.gen_spec(rng, tmpl, {"xml_safe": True, "flags": 0, "p_extra": 0, "max_var_len": 60, "small_block": 3})
                        if finite_spec(cand) and _xml_ok(cand):
                            spec = cand
                            break
                    if spec is None:
                        continue
                    spec["acks"] = []
                    m = gen_msg.build_message(spec)
                    held.append([m, tmpl, spec])
                else:
                    ent = rng.choice(held)
                    m, tmpl, spec = ent
                    if what == "edited-again":
                        # the caller edits its object in place (another value of the right type for every field) and sends it again
                        for _ in range(8):
                            cand = gen_msg.gen_spec(rng, tmpl, {"xml_safe": True, "flags": 0, "p_extra": 0, "max_var_len": 60, "small_block": 3})
                            if finite_spec(cand) and _xml_ok(cand):
                                break
                        else:
                            continue
                        cand["acks"] = []
                        other = gen_msg.build_message(cand)
                        for bn, blks in other.blocks.items():
                            mine = m.blocks.get(bn, [])
                            for mb, ob in zip(mine, blks):
                                for vn, val in ob.vars.items():
                                    mb[vn] = val
                        ctx.count("eq_messages_edited_between_injection_and_poll")
                # what the message is now, taken by an independent conversion of an independent copy
                try:
                    snap = ser.deserialize(copy.deepcopy(ser.serialize(m, True)))
                    eq.inject_message(m)
                except Exception as e:
                    ctx.violation("eq-inject-raises:" + type(e).__name__, "injecting a templated message into the event queue raised",
                                  {"message": m.name, "exc": repr(e)[:300], "kind": "eq"})
                    return
                expected.append(("msg", snap))
                ctx.count("eq_messages_injected")
            # the caller's objects go on living: scribble on all of them before the viewer polls
            for m, tmpl, spec in held:
                for blks in m.blocks.values():
                    for b in blks:
                        for vn in list(b.vars):
                            v = b.vars[vn]
                            if isinstance(v, int) and not isinstance(v, bool) and 0 <= v < 100:
                                b[vn] = v + 1
                            elif isinstance(v, str):
                                b[vn] = v + "~"
            try:
                events = eq.take_injected_events()
            except Exception as e:
                ctx.violation("eq-take-raises:" + type(e).__name__, "taking the queued events raised", {"exc": repr(e)[:300], "kind": "eq"})
                return
            ctx.ev()
            wit = {"kind": "eq", "round": rnd, "queued": [(k, (v.name if k == "msg" else v)) for k, v in expected]}
            if len(events) != len(expected):
                ctx.violation("eq-event-count", "the number of events handed to the poll differs from the number injected",
                              dict(wit, got=len(events)))
                return
            for i, ((kind, want), ev) in enumerate(zip(expected, events)):
                if kind == "event":
                    if ev != want:
                        ctx.violation("eq-plain-event-changed", "a plain injected event changed on the queue", dict(wit, index=i, got=repr(ev)[:200]))
                        return
                    continue
                try:
                    back = ser.deserialize(copy.deepcopy(ev))
                    prob = msg_problem(want, back)
                except Exception as e:
                    prob = "converting the queued event back raised " + repr(e)[:200]
                if prob:
                    ctx.violation("eq-event-not-the-injected-message", "an event taken from the queue does not convert back to the "
                                  "message that was injected (as it was at injection)", dict(wit, index=i, problem=prob[:300]))
                    return
                ctx.count("eq_events_converted_back")
            ctx.nontrivial(("eq", tuple(k for k, _ in expected)))
            if eq.take_injected_events():
                ctx.violation("eq-events-handed-out-twice", "events were still queued after they had been taken", wit)
                return
    finally:
        rig.close()


def run(ctx):
    if ctx.shard == 2 % max(ctx.nshards, 1) or not ctx.quick:
        eq_injection(ctx, ctx.rng)
    threads_phase(ctx, ctx.rng)      # (thread timing is a matter of chance: every shard has a go)
    if ctx.shard == 1 % max(ctx.nshards, 1):
        template_reload(ctx, ctx.rng)
    tz = TZS[ctx.shard % len(TZS)]
    os.environ["TZ"] = tz
    time.tzset()
    ctx.cover("tz", tz)
    rng = ctx.rng
    # trees
    n_trees = ctx.pick(3000, 40000)
    for i in range(n_trees):
        if ctx.out_of_time():
            break
        tree = gen_tree(rng, rng.choice([0, 1, 2, 3, 4]), ctx, xml_safe=True)
        check_tree(ctx, tree, [ctx.seed, ctx.shard, i])
        if i < 2:
            ctx.sample({"tree": repr(tree)[:300], "tz": tz})
    # directed: one value of every scalar kind at top level and inside a map
    for v in (gen_date(rng)[0], llsd.uri("http://x/"), "a\nb", {"when": datetime.datetime(2020, 11, 1, 8, 30, tzinfo=UTC)},
              {"when": datetime.datetime(2020, 11, 1, 1, 30)}, [llsd.uri("http://é/")], b"", "", None):
        check_tree(ctx, v, "directed")
    # messages: every template, split over the shard groups (all three zones see every template in thorough)
    templates = gen_msg.all_templates()
    per_template = ctx.pick(3, 24)
    groups = max(1, ctx.nshards // len(TZS))
    gi = ctx.shard // len(TZS)
    for ti, tmpl in enumerate(templates):
        if ctx.quick and (ti % ctx.nshards) != ctx.shard and not _wants(tmpl):
            continue
        if not ctx.quick and (ti % groups) != gi:
            continue
        for k in range(per_template):
            if ctx.out_of_time():
                ctx.inconclusive_because("work budget exhausted before all templates were visited")
                return
            for _ in range(5):
                spec = gen_msg.gen_spec(rng, tmpl, {"xml_safe": True, "flags": 0, "p_extra": 0, "max_var_len": 200,
                                                   "small_block": 8})
                if finite_spec(spec) and _xml_ok(spec):
                    break
            else:
                continue
            spec["acks"] = []
            check_message(ctx, tmpl, spec)
            if k == 0 and ti % 40 == 0:
                check_stock_unchanged(ctx)
            # the same message name under a caller-supplied template (other wire types for many variables), by a second
            # serializer living in the same process - and then the stock one again
            if k % 3 == 0:
                ctmpl = _CUSTOM_TD[tmpl.name]
                for _ in range(5):
                    cspec = gen_msg.gen_spec(rng, ctmpl, {"xml_safe": True, "flags": 0, "p_extra": 0, "max_var_len": 200,
                                                        "small_block": 8})
                    if finite_spec(cspec) and _xml_ok(cspec):
                        cspec["acks"] = []
                        check_message(ctx, ctmpl, cspec, config="custom")
                        check_message(ctx, tmpl, spec)
                        break


def _wants(tmpl):
    types = {v.type for b in tmpl.blocks for v in b.variables}
    return MsgType.MVT_LLQuaternion in types or MsgType.MVT_IP_ADDR in types


def _xml_ok(spec):
    for (_, entries) in spec["blocks"]:
        for ent in entries or ():
            for vs in ent.values():
                if vs[0] == "s" and any((ord(c) < 0x20 and c not in "\n\t") or ord(c) == 0x7f for c in vs[1]):
                    return False
    return True


def replay(ctx, w):
    if w.get("kind") == "eq":
        return eq_injection(ctx, ctx.rng)
    if "spec" in w:
        if w.get("tz"):
            os.environ["TZ"] = w["tz"]
            time.tzset()
        check_message(ctx, gen_msg.DEFAULT_TEMPLATE_DICT[w["spec"]["name"]], w["spec"])
