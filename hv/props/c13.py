"""C13 - the hand-optimised compressed-object decoder agrees with the declarative template.

Differential monitor: payloads are generated from the declarative template's domain (every combination of the 11
section flags x every object kind x generated contents), encoded with the template, and decoded by both the
struct-based fast reader and the template; byte-level mutants are compared whenever the template still accepts them.
"""
import random

from .. import env

env.import_repo()

import hippolyzer.lib.base.serialization as se  # noqa: E402
import hippolyzer.lib.base.templates as T  # noqa: E402
from hippolyzer.lib.base.objects import FastObjectUpdateCompressedDataDeserializer as Fast  # noqa: E402
from hippolyzer.lib.base.objects import normalize_object_update_compressed_data  # noqa: E402
from hippolyzer.lib.base.message.message import Block  # noqa: E402

from .. import gen_spec  # noqa: E402

LEVEL = "exploration"
SHARDS = {"quick": 8, "thorough": 16}
TIMEOUT_S = {"quick": 600, "thorough": 3000}
BUDGET_S = {"quick": 120, "thorough": 1500}
RULE = ("all 2^11 section-flag combinations x every PCode member (exhaustive for one content seed per pair in quick, "
        "8 in thorough) with section contents generated from the declarative template, + 3 byte mutants per payload "
        "(compared only when the template still accepts them). distinct_nontrivial = distinct (flag combination, PCode) "
        "pairs on which both decoders were compared and agreed"
        ". Round-5 additions: the template's plain-data form must re-encode to the payload too; generated payloads are written into viewer object cache files (independent writer hv/vocache_fs.py) together with entries at the format's size limits (1, 9999, 10000 valid; 0 and 10001 dataless) and read back through RegionViewerObjectCache: every valid entry byte-for-byte, then through both decoders"
        ". Rounds 6-7: rotations with particular geometry (exact half turns, over-long vector parts); NameValue text with line-break-like characters"
        ". Round 10: one-byte-counted collections of small fixed-size entries filled to exactly 255 entries (every 25th; shared deriver). Round 11: before every other good re-encode, an encode that is refused part-way through one of the length-prefixed sections (its last leaf made unwritable)")
ASSUMPTIONS = [
    "well-formed = encodable by the declarative template with an object kind from the PCode enum; payloads whose kind byte "
    "is outside the enum are counted separately (the fast path deliberately builds the enum member)",
    "comparison after the object tracker's normalisation: lazy proxies unwrapped, enums/flags by integer value, "
    "coordinates by components; NaN compared as NaN",
    "a NameValue section that is flagged present is non-empty (an empty flagged section is not self-delimiting by "
    "design of the terminated wrapper)",
]
MUST_REACH = {"refused_encodes_before_good_ones": 200, "namevalue_collections_repeating_their_first_entry": 50, "flag_pcode_pairs_covered": 2048, "compared": 3000, "reencoded_identical": 3000, "mutants_compared": 300,
              "pcodes_covered": 4, "te_face_bitfields_checked": 100, "fast_results_scribbled": 100,
              "reencoded_identical_plain_data_form": 3000, "cache_files_read": 5, "cache_entries_at_size_limits": 5,
              "compared_from_cache_file": 50, "special_rotations": 300}

SER = T.ObjectUpdateCompressedDataSerializer
TEMPLATE = SER.TEMPLATE
_BLOCK = Block("ObjectData")
_BLOCK.message_name = "ObjectUpdateCompressed"


def compare(ctx, payload: bytes, origin, wit_extra, generated_value=None):
    """Returns True when both decoders accepted and agreed."""
    ctx.ev()
    wit = dict(wit_extra, payload=payload[:600], payload_len=len(payload), origin=origin)
    try:
        tv = SER.deserialize(_BLOCK, payload, pod=False)
        tcanon = gen_spec.canon(tv)
    except Exception as e:
        if origin == "generated":
            ctx.violation("template-rejects-own-payload", "the template cannot decode a payload it encoded",
                          dict(wit, exc=repr(e)[:300]))
        else:
            ctx.count("mutants_rejected_by_template")
        return False
    pcode = tcanon.get("PCode")
    if pcode not in [int(m) for m in T.PCode]:
        ctx.count("kind_outside_enum_skipped")
        try:
            Fast.read(payload)
            ctx.count("kind_outside_enum_fast_accepts")
        except Exception:
            ctx.count("kind_outside_enum_fast_raises")
        return False
    try:
        fv = Fast.read(payload)
        fcanon = gen_spec.canon(fv)
    except Exception as e:
        ctx.violation("fast-raises" + ("" if origin == "generated" else ":mutant"),
                      "the fast reader raised on a payload the template decodes", dict(wit, exc=repr(e)[:300]))
        return False
    if fcanon != tcanon:
        diffs = gen_spec.diff_paths(tcanon, fcanon)
        fields = sorted({p.strip("/").split("/")[0].split("[")[0] for p, _, _ in diffs})
        ctx.violation("decoders-disagree:" + ",".join(fields[:4]) + ("" if origin == "generated" else ":mutant"),
                      "fast reader and template decode different field values",
                      dict(wit, diffs=[(p, repr(a)[:80], repr(b)[:80]) for p, a, b in diffs[:6]]))
        return False
    # decoding is a function of the payload alone: what a caller did to an earlier result (the tracker and addons edit decoded
    # texture entries, extra params, ... in place) must not leak into the next decode of the same bytes
    if origin == "generated" and ctx.counters.get("compared", 0) % 3 == 0:
        try:
            from .c09 import _scribble
            scribbled = False
            for k in ("TextureEntry", "ExtraParams", "NameValue", "PSBlock", "TextureAnim"):
                v = fv.get(k) if isinstance(fv, dict) else None
                if v is None:
                    continue
                if _scribble(v):
                    scribbled = True
            if scribbled:
                ctx.count("fast_results_scribbled")
                f2 = gen_spec.canon(Fast.read(payload))
                if f2 != tcanon:
                    diffs = gen_spec.diff_paths(tcanon, f2)
                    fields = sorted({p.strip("/").split("/")[0].split("[")[0] for p, _, _ in diffs})
                    ctx.violation("fast-decode-depends-on-history:" + ",".join(fields[:3]), "decoding the same payload again after a "
                                  "caller edited the first result gives values that differ from the template's",
                                  dict(wit, diffs=[(p, repr(a)[:80], repr(b)[:80]) for p, a, b in diffs[:6]]))
                    return False
        except Exception as e:
            ctx.violation("fast-raises:repeat", "decoding the same payload a second time raised", dict(wit, exc=repr(e)[:300]))
            return False
    # normalisation used by the object tracker must accept both results identically
    try:
        n1 = gen_spec.canon(normalize_object_update_compressed_data(payload))
    except Exception as e:
        ctx.violation("normalize-raises" + ("" if origin == "generated" else ":mutant"),
                      "normalize_object_update_compressed_data raised on an accepted payload", dict(wit, exc=repr(e)[:300]))
        return False
    ctx.count("normalized", 1 if n1 else 0)
    if origin == "cache-file":
        ctx.count("compared_from_cache_file")
        return True
    if origin == "generated":
        ctx.count("compared")
        if generated_value is not None and gen_spec.canon(generated_value) != tcanon:
            ctx.violation("template-value-differs", "template decode(encode(v)) != v",
                          dict(wit, diffs=[(p, repr(a)[:80], repr(b)[:80]) for p, a, b in
                                           gen_spec.diff_paths(gen_spec.canon(generated_value), tcanon)[:6]]))
            return False
        # Round 11: the serializer is a long-lived object; every other time a refused encode goes first - the decoded value with the
        # last leaf of one of its length-prefixed sections replaced by something that cannot be written, so the refusal comes
        # when part of the section is already written - and the good re-encode that follows must not know about it
        _COUNT[0] += 1
        if _COUNT[0] % 2 == 0:
            _refused_encode_first(ctx, payload)
        try:
            back = bytes(SER.serialize(_BLOCK, tv))
        except Exception as e:
            ctx.violation("reencode-raises", "re-encoding the decoded value through the template raised",
                          dict(wit, exc=repr(e)[:300]))
            return False
        if back != payload:
            ctx.violation("reencode-differs", "re-encoding through the template does not reproduce the payload",
                          dict(wit, back=back[:600]))
            return False
        ctx.count("reencoded_identical")
        # the template's other face, the plain-data form it shows in the message text: what it decodes there re-encodes to
        # the payload as well
        try:
            pv = SER.deserialize(_BLOCK, payload, pod=True)
            backp = bytes(SER.serialize(_BLOCK, pv))
        except Exception as e:
            ctx.violation("reencode-raises:plain-data-form", "decoding to / re-encoding from the template's plain-data form raised",
                          dict(wit, exc=repr(e)[:300]))
            return False
        if backp != payload:
            ctx.violation("reencode-differs:plain-data-form", "re-encoding the template's plain-data form does not reproduce the "
                          "payload", dict(wit, back=backp[:600], value=repr(pv)[:400]))
            return False
        ctx.count("reencoded_identical_plain_data_form")
        if len(_KEPT) < 400 and len(payload) <= 10000:
            _KEPT.append(payload)
    else:
        ctx.count("mutants_compared")
    return True


_KEPT = []
_COUNT = [0]
_SECTIONS = ("TextureEntry", "ExtraParams", "TextureAnim", "PSBlock", "NameValue", "Text", "MediaURL")


class _Unwritable:
    def __repr__(self):
        return "<unwritable>"


def _spoil_last_leaf(v, depth=0):
    """Replace the last leaf reachable inside v (dicts, lists, objects with attributes) by an unwritable object."""
    if depth > 6:
        return False
    if isinstance(v, dict):
        keys = list(v.keys())
        for k in reversed(keys):
            if isinstance(v[k], (dict, list)) or _is_record(v[k]):
                if _spoil_last_leaf(v[k], depth + 1):
                    return True
            else:
                v[k] = _Unwritable()
                return True
        return False
    if isinstance(v, list):
        for i in range(len(v) - 1, -1, -1):
            if isinstance(v[i], (dict, list)) or _is_record(v[i]):
                if _spoil_last_leaf(v[i], depth + 1):
                    return True
            else:
                v[i] = _Unwritable()
                return True
        return False
    if _is_record(v):
        return _spoil_last_leaf(v.__dict__, depth + 1)
    return False


def _is_record(x):
    import dataclasses
    return dataclasses.is_dataclass(x) and not isinstance(x, type) and hasattr(x, "__dict__")


def _refused_encode_first(ctx, payload):
    import copy
    try:
        bad = SER.deserialize(_BLOCK, payload, pod=False)
        present = [k for k in _SECTIONS if k in bad and bad[k] is not None and not isinstance(bad[k], (bytes, str, int, float))]
        if not present:
            ctx.count("refusals_not_attempted_no_section")
            return
        k = present[_COUNT[0] // 2 % len(present)]
        sec = copy.deepcopy(bad[k])
        if not _spoil_last_leaf(sec if not isinstance(sec, tuple) else list(sec)):
            ctx.count("refusals_not_attempted_nothing_to_spoil")
            return
        bad[k] = sec
    except Exception:
        ctx.count("refusals_not_attempted_harness")
        return
    try:
        SER.serialize(_BLOCK, bad)
    except Exception:
        ctx.count("refused_encodes_before_good_ones")
        ctx.cover("sections_refused", k)
    else:
        ctx.count("spoiled_values_accepted")


def cache_file_route(ctx, rng):
    """The object tracker also gets payloads out of the viewer's on-disk object cache.  A cache file is written (independent
    writer) with generated payloads, among them entries at the size limits of the format (1, 9999 and 10000 bytes of data are
    valid; 0 and 10001 are recorded without data); every valid entry must come back byte-for-byte and decode like any other."""
    import os
    import shutil
    import tempfile
    import uuid
    from ..vocache_fs import slc_bytes
    from hippolyzer.lib.proxy.vocache import RegionViewerObjectCache
    if not _KEPT:
        return
    tmp = tempfile.mkdtemp(prefix="hvc13_")
    try:
        for round_ in range(ctx.pick(6, 40)):
            payloads = [rng.choice(_KEPT) for _ in range(rng.randint(3, 25))]
            entries = []
            specials = [b"\x01", bytes(rng.getrandbits(8) for _ in range(9999)), bytes(rng.getrandbits(8) for _ in range(10000)),
                        b"", bytes(10001)]
            rng.shuffle(specials)
            for i, pl in enumerate(payloads):
                entries.append((1000 + i, rng.getrandbits(32), pl))
                if specials and rng.random() < 0.4:
                    entries.append((5000 + len(specials), rng.getrandbits(32), specials.pop()))
            cache_id = uuid.UUID(int=rng.getrandbits(128))
            path = os.path.join(tmp, f"objects_{round_}.slc")
            with open(path, "wb") as f:
                f.write(slc_bytes(cache_id, entries, declared=len(entries) + rng.choice([0, 0, 3])))
            wit = {"entries": [(l, c, len(d)) for l, c, d in entries]}
            try:
                cache = RegionViewerObjectCache.from_file(path)
            except Exception as e:
                ctx.violation("cache-file-raises", "reading a well-formed object cache file raised", dict(wit, exc=repr(e)[:300]))
                return
            ctx.count("cache_files_read")
            if str(cache.cache_id) != str(cache_id):
                ctx.violation("cache-file-id", "cache id read from the file differs", dict(wit, got=str(cache.cache_id)))
                return
            for (local, crc, data) in entries:
                got = cache.lookup_object_data(local, crc)
                valid = 0 < len(data) <= 10000
                if valid and (got is None or bytes(got) != data):
                    ctx.violation("cache-entry-lost:size-" + ("limit" if len(data) in (1, 9999, 10000) else "ordinary"),
                                  "a valid entry of an object cache file does not come back byte-for-byte",
                                  dict(wit, local=local, size=len(data), got=None if got is None else len(got)))
                    return
                if not valid and got:
                    ctx.violation("cache-entry-invented", "an invalid (dataless) cache entry came back with data",
                                  dict(wit, local=local, size=len(data)))
                    return
                if valid:
                    ctx.count("cache_entries_read_back")
                    if len(data) in (1, 9999, 10000):
                        ctx.count("cache_entries_at_size_limits")
                    if cache.lookup_object_data(local, crc ^ 1) is not None:
                        ctx.violation("cache-entry-wrong-crc", "a cache entry was returned for another CRC", dict(wit, local=local))
                        return
                    if 1000 <= local < 5000:
                        compare(ctx, bytes(got), "cache-file", {"local": local})
    finally:
        shutil.rmtree(tmp, ignore_errors=True)


def mutate(rng, p: bytes):
    b = bytearray(p)
    r = rng.random()
    if r < 0.7:
        i = rng.randrange(len(b))
        b[i] = rng.choice([0, 1, 0x7f, 0x80, 0xff, b[i] ^ (1 << rng.randrange(8)), rng.getrandbits(8)])
    elif r < 0.85:
        # within the fixed header / prim params region
        i = rng.randrange(min(len(b), 96))
        b[i] = rng.getrandbits(8)
    else:
        i = rng.randrange(len(b))
        b[i:i + 1] = bytes([b[i], rng.getrandbits(8)]) if rng.random() < 0.5 else b""
    return bytes(b)


# rotations with particular geometry: exact half turns (the rebuilt fourth component is exactly zero), a vector part that is
# slightly over-long, identity, negative components
SPECIAL_ROTATIONS = [(0.0, 0.0, 1.0), (1.0, 0.0, 0.0), (0.0, 1.0, 0.0), (0.6, 0.8, 0.0), (0.0, 0.0, 0.0), (0.0, 0.0, -1.0),
                     (0.7071067690849304, 0.7071067690849304, 0.0), (0.6, 0.8, 0.1), (-0.5, -0.5, -0.5)]


def one_case(ctx, flags, pcode, cseed):
    overrides = {"Flags": T.CompressedFlags(flags), "PCode": pcode}
    d = gen_spec.Deriver(random.Random(cseed), size_budget=16, top_overrides=overrides)
    wit = {"flags": flags, "pcode": int(pcode), "content_seed": cseed}
    for attempt in range(6):
        try:
            v = d.gen(TEMPLATE)
            break
        except gen_spec.Unsupported:
            ctx.count("unsupported_values")
            d = gen_spec.Deriver(random.Random(cseed * 31 + attempt + 1), size_budget=16, top_overrides=overrides)
    else:
        return
    if cseed % 4 == 0:
        from hippolyzer.lib.base.datatypes import Quaternion
        v["Rotation"] = Quaternion(*(gen_spec.f32(c) for c in SPECIAL_ROTATIONS[(cseed // 4) % len(SPECIAL_ROTATIONS)]))
        ctx.count("special_rotations")
    try:
        payload = bytes(SER.serialize(_BLOCK, v))
    except Exception as e:
        ctx.violation("template-encode-raises", "the template raised while encoding a value from its own domain",
                      dict(wit, exc=repr(e)[:300], value=repr(gen_spec.canon(v))[:400]))
        return
    if compare(ctx, payload, "generated", wit, generated_value=v):
        ctx.cover("flag_pcode_pairs", f"{flags & 0x7ff}:{int(pcode)}")
        ctx.cover("pcodes", int(pcode))
        ctx.nontrivial((flags & 0x7ff, int(pcode)))
        if len(ctx.samples) < 3 and flags in (0x7ff, 0x155, 0):
            ctx.sample({"flags": flags, "pcode": int(pcode), "payload_len": len(payload), "payload_head": payload[:48]})
    rng = random.Random(cseed ^ 0x5bd1e995)
    for _ in range(3):
        compare(ctx, mutate(rng, payload), "mutant", wit)


def ref_face_bits(faces):
    """Independent reference for the texture-entry face bitfield: 7 faces per byte, most significant group first, every byte
    but the last carries the continuation bit, no redundant leading group (what any other implementation emits)."""
    packed = 0
    for f in set(faces):
        packed |= 1 << f
    groups = []
    while packed:
        groups.append(packed & 0x7F)
        packed >>= 7
    groups.reverse()
    return bytes((g | 0x80) if i < len(groups) - 1 else g for i, g in enumerate(groups))


def te_face_bitfield(ctx):
    """The payloads above are produced by the template itself, so a change to how the template WRITES a section is invisible
    to them. The face bitfield inside the TextureEntry section therefore gets an independent reference."""
    import hippolyzer.lib.base.serialization as se
    rng = ctx.rng
    sets = [(h,) for h in range(0, 45)]
    for h in range(0, 45):
        for _ in range(3):
            lower = [f for f in range(h) if rng.random() < 0.3]
            sets.append(tuple(lower + [h]))
    sets.append(tuple(range(0, 7)))
    sets.append(tuple(range(0, 14)))
    for faces in sets:
        ctx.ev()
        ctx.count("te_face_bitfields_checked")
        w = se.BufferWriter("<")
        try:
            w.write(T.TEFaceBitfield, faces)
            got = bytes(w.copy_buffer())
            back = se.BufferReader("<", ref_face_bits(faces)).read(T.TEFaceBitfield)
        except Exception as e:
            ctx.violation("te-face-bitfield-raises", "the texture-entry face bitfield codec raised", {"faces": list(faces), "exc": repr(e)[:200]})
            continue
        if got != ref_face_bits(faces):
            ctx.violation("te-face-bitfield-not-canonical", "the face bitfield is not written in the format's (minimal) form, so "
                          "re-encoding a payload that carries such an exception does not reproduce it",
                          {"faces": list(faces), "written": got, "reference": ref_face_bits(faces)})
        if tuple(back) != tuple(sorted(set(faces))):
            ctx.violation("te-face-bitfield-decodes-wrong", "the reference encoding of a face set decodes to another set",
                          {"faces": list(faces), "decoded": list(back)})
        ctx.nontrivial(("te-faces", max(faces), len(faces)))


def run(ctx):
    if ctx.shard == 0:
        te_face_bitfield(ctx)
    pcodes = list(T.PCode)
    n_content = ctx.pick(1, 8)
    idx = 0
    for flags in range(0, 1 << 11):
        for pi, pcode in enumerate(pcodes):
            idx += 1
            if not ctx.mine(idx):
                continue
            # quick: every flag combination with 2 rotating kinds; thorough: every kind
            if ctx.quick and (flags + pi) % len(pcodes) >= 2:
                # still cover the pair set requirement through the rotating choice
                continue
            if ctx.out_of_time():
                ctx.inconclusive_because("work budget exhausted before the flag x kind space was covered")
                return
            for c in range(n_content):
                one_case(ctx, flags, pcode, (ctx.seed * 1_000_003 + flags * 131 + pi * 17 + c) & 0x7fffffff)
    # unknown high flag bits and kinds outside the enum (observed, not judged)
    rng = ctx.rng
    for _ in range(ctx.pick(40, 400)):
        flags = rng.getrandbits(32)
        one_case(ctx, flags, rng.choice(pcodes), rng.getrandbits(31))
    cache_file_route(ctx, rng)
    for k, v in gen_spec.STATS.items():
        ctx.count(k, v)
    ctx.flag("exhaustive", True)


def replay(ctx, w):
    if "content_seed" in w:
        one_case(ctx, w["flags"], T.PCode(w["pcode"]), w["content_seed"])
