"""Writer for a viewer's on-disk object cache (the format hippolyzer.lib.proxy.vocache reads): an `object.cache` index of 128
region slots and one `objects_<x>_<y>.slc` file per region.  Written from the format description only (module docstring of
vocache.py / the viewer's VOCache), independent of the parser under test."""
import os
import struct
import uuid


def slc_bytes(cache_id: uuid.UUID, entries, declared=None):
    """entries: (local_id, crc, data) - data of an invalid size (0 or > 10000) is recorded with its size but, as the viewer does,
    without any data bytes following."""
    out = [cache_id.bytes, struct.pack("<i", len(entries) if declared is None else declared)]
    for i, (local_id, crc, data) in enumerate(entries):
        size = len(data)
        out.append(struct.pack("<IIiiii", local_id, crc, i % 7, 0, i % 3, size))
        if 0 < size <= 10000:
            out.append(bytes(data))
    return b"".join(out)


def index_bytes(regions, aligned8=False, address_size=64):
    """regions: list of (handle, time) for the used slots; the rest of the 128 slots are empty."""
    out = [struct.pack("<II", 15, address_size)]
    for i in range(128):
        handle, t = regions[i] if i < len(regions) else (0, 0)
        if aligned8:
            out.append(struct.pack("<iIQII", i, 0xCDCDCDCD if i else 0, handle, t, 0xCDCDCDCD))
        else:
            out.append(struct.pack("<iQI", i, handle, t))
    return b"".join(out)


def write_viewer_dir(viewer_dir, regions, aligned8=False):
    """regions: {handle: (cache_id, entries)}.  Creates <viewer_dir>/avatar_name_cache.xml (what marks a viewer data dir) and
    <viewer_dir>/objectcache/{object.cache, objects_X_Y.slc}."""
    oc = os.path.join(viewer_dir, "objectcache")
    os.makedirs(oc, exist_ok=True)
    with open(os.path.join(viewer_dir, "avatar_name_cache.xml"), "w") as f:
        f.write("<llsd><map /></llsd>")
    with open(os.path.join(oc, "object.cache"), "wb") as f:
        f.write(index_bytes([(h, 1_600_000_000 + k) for k, h in enumerate(regions)], aligned8=aligned8))
    for handle, (cache_id, entries) in regions.items():
        gx, gy = (handle >> 32) // 256, (handle & 0xFFFFFFFF) // 256
        with open(os.path.join(oc, f"objects_{gx}_{gy}.slc"), "wb") as f:
            f.write(slc_bytes(cache_id, entries))
