"""Independent references for the LLUDP wire format (struct-based, template-driven).

Nothing here calls the repository's serializer, packers or zero-coder; only the parsed template
objects (names, types, sizes, block kinds, message numbers) are shared.
"""
import socket
import struct
import uuid

STRUCT_FMT = {
    "MVT_S8": "<b", "MVT_U8": "<B", "MVT_BOOL": "<B", "MVT_U16": "<H", "MVT_U32": "<I", "MVT_U64": "<Q",
    "MVT_S16": "<h", "MVT_S32": "<i", "MVT_S64": "<q", "MVT_F32": "<f", "MVT_F64": "<d", "MVT_IP_PORT": ">H",
}
FIXED_SIZES = {"MVT_S8": 1, "MVT_U8": 1, "MVT_BOOL": 1, "MVT_U16": 2, "MVT_U32": 4, "MVT_U64": 8, "MVT_S16": 2,
               "MVT_S32": 4, "MVT_S64": 8, "MVT_F32": 4, "MVT_F64": 8, "MVT_IP_PORT": 2, "MVT_LLVector3": 12,
               "MVT_LLVector3d": 24, "MVT_LLVector4": 16, "MVT_LLQuaternion": 12, "MVT_LLUUID": 16,
               "MVT_IP_ADDR": 4}


def ref_zero_compress(data: bytes) -> bytes:
    out = bytearray()
    i = 0
    n = len(data)
    while i < n:
        if data[i] != 0:
            out.append(data[i])
            i += 1
            continue
        j = i
        while j < n and data[j] == 0:
            j += 1
        run = j - i
        while run > 0:
            chunk = min(run, 255)
            out += bytes((0, chunk))
            run -= chunk
        i = j
    return bytes(out)


def ref_zero_expand(data: bytes) -> bytes:
    """Reference semantics: 00 N -> N zeros; every extra 00 before the count adds 256;
    a run of k zero bytes that ends the input without a count is 1 + 256*(k-1) zeros."""
    out = bytearray()
    i = 0
    n = len(data)
    while i < n:
        c = data[i]
        if c != 0:
            out.append(c)
            i += 1
            continue
        k = 0
        while i < n and data[i] == 0:
            k += 1
            i += 1
        if i < n:
            out += b"\x00" * (256 * (k - 1) + data[i])
            i += 1
        else:
            out += b"\x00" * (1 + 256 * (k - 1))
    return bytes(out)


def ref_expanded_len(data: bytes) -> int:
    total = 0
    i = 0
    n = len(data)
    while i < n:
        if data[i] != 0:
            total += 1
            i += 1
            continue
        k = 0
        while i < n and data[i] == 0:
            k += 1
            i += 1
        if i < n:
            total += 256 * (k - 1) + data[i]
            i += 1
        else:
            total += 1 + 256 * (k - 1)
    return total


def follows_stated_form(data: bytes) -> bool:
    """The property's wording: every 00 is immediately followed by a count 1..255
    (so no 00 00 - the wrap form - and no trailing lone 00)."""
    i = 0
    n = len(data)
    while i < n:
        if data[i] == 0:
            if i + 1 >= n or data[i + 1] == 0:
                return False
            i += 2
        else:
            i += 1
    return True


def is_canonical_zerocoding(data: bytes) -> bool:
    """Canonical = exactly what a maximal-run encoder emits for the expansion of `data`."""
    return follows_stated_form(data) and ref_zero_compress(ref_zero_expand(data)) == bytes(data)


def _pack_value(var, vs) -> bytes:
    """var: template variable; vs: value spec from gen_msg."""
    t = var.type.name
    kind = vs[0]
    if kind == "unset":
        if t == "MVT_VARIABLE":
            return b"\x00" * var.size  # zero length prefix
        if t == "MVT_FIXED":
            return b"\x00" * var.size
        return b"\x00" * FIXED_SIZES[t]
    if t in STRUCT_FMT:
        return struct.pack(STRUCT_FMT[t], vs[1])
    if t == "MVT_LLVector3":
        return struct.pack("<3f", *vs[1])
    if t == "MVT_LLVector3d":
        return struct.pack("<3d", *vs[1])
    if t == "MVT_LLVector4":
        return struct.pack("<4f", *vs[1])
    if t == "MVT_LLQuaternion":
        return struct.pack("<3f", *vs[1][:3])
    if t == "MVT_LLUUID":
        return uuid.UUID(vs[1]).bytes
    if t == "MVT_IP_ADDR":
        return socket.inet_aton(vs[1])
    if t in ("MVT_FIXED", "MVT_VARIABLE"):
        if kind == "s":
            raw = vs[1].encode("utf8") + b"\x00"
        else:
            raw = bytes(vs[1])
        if t == "MVT_VARIABLE":
            return len(raw).to_bytes(var.size, "little") + raw
        return raw
    raise ValueError(t)


def msg_num_bytes(tmpl) -> bytes:
    freq = tmpl.frequency.name
    if freq == "FIXED":
        return b"\xff\xff\xff" + bytes([tmpl.num & 0xff])
    if freq == "LOW":
        return b"\xff\xff" + struct.pack(">H", tmpl.num)
    if freq == "MEDIUM":
        return b"\xff" + bytes([tmpl.num])
    return bytes([tmpl.num])


def ref_encode_body(tmpl, spec) -> bytes:
    body = bytearray(msg_num_bytes(tmpl))
    body += spec["extra"]
    for (bname, entries) in spec["blocks"]:
        if entries is None:
            continue
        tb = tmpl.get_block(bname)
        if tb.block_type == 2:
            body.append(len(entries))
        for ent in entries:
            for var in tb.variables:
                body += _pack_value(var, ent[var.name])
    return bytes(body)


def ref_encode(tmpl, spec) -> bytes:
    out = bytearray()
    out.append(spec["flags"] & 0xff)
    out += struct.pack(">I", spec["packet_id"])
    out.append(len(spec["extra"]))
    body = ref_encode_body(tmpl, spec)
    if spec["flags"] & 0x80:
        body = ref_zero_compress(body)
    out += body
    if spec["flags"] & 0x10:
        for ack in reversed(spec["acks"]):
            out += struct.pack(">I", ack)
        out.append(len(spec["acks"]))
    return bytes(out)


def ref_walk_body(tmpl, body: bytes, offset: int):
    """Walk an (expanded) body by the template; returns (blocks, end_pos) where blocks is
    [(block_name, [ {var: raw_bytes} ])]; raises ValueError when the body is not walkable."""
    pos = len(msg_num_bytes(tmpl)) + offset
    blocks = []
    n = len(body)
    for tb in tmpl.blocks:
        if pos >= n:
            break
        if tb.block_type == 0:
            count = 1
        elif tb.block_type == 1:
            count = tb.number
        else:
            count = body[pos]
            pos += 1
        entries = []
        for _ in range(count):
            ent = {}
            for var in tb.variables:
                t = var.type.name
                if t == "MVT_VARIABLE":
                    if pos + var.size > n:
                        raise ValueError("truncated length prefix")
                    ln = int.from_bytes(body[pos:pos + var.size], "little")
                    pos += var.size
                elif t == "MVT_FIXED":
                    ln = var.size
                else:
                    ln = FIXED_SIZES[t]
                if pos + ln > n:
                    raise ValueError(f"truncated {tb.name}.{var.name}")
                ent[var.name] = bytes(body[pos:pos + ln])
                pos += ln
            entries.append(ent)
        blocks.append((tb.name, entries))
    return blocks, pos


def ref_rebuild_body(tmpl, walked, prefix: bytes) -> bytes:
    """Inverse of ref_walk_body: prefix (message number + extra) + blocks from raw field bytes."""
    body = bytearray(prefix)
    for (bname, entries) in walked:
        tb = tmpl.get_block(bname)
        if tb.block_type == 2:
            body.append(len(entries))
        for ent in entries:
            for var in tb.variables:
                raw = ent[var.name]
                if var.type.name == "MVT_VARIABLE":
                    body += len(raw).to_bytes(var.size, "little")
                body += raw
    return bytes(body)
