"""Spec-directed value generation for the serialization combinators, plus a random spec-tree ("program")
generator over the combinator grammar.

`Deriver.gen(spec, ctx)` walks any REAL spec object (generated here, or found in templates.py / llanim.py /
namevalue.py / the subfield registry) by structural recursion over the spec classes and produces a value in
that spec's domain (rich-object form).  `kind(spec)` tells whether a spec is self-delimiting or consumes the
rest of its byte window.  `canon(value)` is the one normaliser used for comparisons.
"""
import dataclasses
import enum
import struct

import numpy as np
import lazy_object_proxy

from . import env

env.import_repo()

import hippolyzer.lib.base.serialization as se  # noqa: E402
import hippolyzer.lib.base.datatypes as dtypes  # noqa: E402
from hippolyzer.lib.base.multidict import OrderedMultiDict  # noqa: E402


class Unsupported(Exception):
    """The deriver does not know how to make a value for this spec (counted, never a verdict)."""


class Poisoned(Exception):
    pass


def f32(x):
    try:
        return struct.unpack("<f", struct.pack("<f", x))[0]
    except OverflowError:
        return float("inf") if x > 0 else float("-inf")


PRIMS = None


def prim_table():
    global PRIMS
    if PRIMS is None:
        PRIMS = {id(p): n for n, p in (("U8", se.U8), ("S8", se.S8), ("U16", se.U16), ("S16", se.S16), ("U32", se.U32),
                                       ("S32", se.S32), ("U64", se.U64), ("S64", se.S64), ("F32", se.F32), ("F64", se.F64))}
    return PRIMS


def is_float_prim(p):
    return p._struct_fmt.lstrip("<>!=") in ("f", "d")


# ------------------------------------------------------------------ canonical form for comparison

def canon(v, depth=0):
    if depth > 60:
        return repr(v)
    while isinstance(v, lazy_object_proxy.Proxy):
        v = v.__wrapped__
    if v is None or isinstance(v, (bool, str)):
        return v
    if isinstance(v, enum.Enum):
        if isinstance(v, int):
            return int(v)
        return v.value
    if isinstance(v, int):
        return int(v)
    if isinstance(v, float):
        return "nan" if v != v else v
    if isinstance(v, (bytes, bytearray, memoryview)):
        return bytes(v)
    if isinstance(v, np.ndarray):
        return ("ndarray", v.shape, v.tolist())
    if isinstance(v, np.generic):
        return v.item()
    if isinstance(v, dtypes.TaggedUnion):
        return ("tagged", canon(v.tag, depth + 1), canon(v.value, depth + 1))
    if isinstance(v, dtypes.TupleCoord):
        return tuple(canon(c, depth + 1) for c in v.data())
    if isinstance(v, dtypes.UUID) or type(v).__name__ == "UUID":
        return str(v)
    if isinstance(v, OrderedMultiDict):
        return ("multidict", [(canon(k, depth + 1), canon(x, depth + 1)) for k, x in v.items(multi=True)])
    if dataclasses.is_dataclass(v) and not isinstance(v, type):
        return {f.name: canon(getattr(v, f.name), depth + 1) for f in dataclasses.fields(v)}
    if isinstance(v, dict):
        return {_hashable(canon(k, depth + 1)): canon(x, depth + 1) for k, x in v.items()}
    if isinstance(v, (list, tuple)):
        return [canon(x, depth + 1) for x in v]
    if hasattr(v, "__dict__"):
        return {k: canon(x, depth + 1) for k, x in vars(v).items()}
    return repr(v)


def _hashable(x):
    if isinstance(x, list):
        return tuple(_hashable(i) for i in x)
    if isinstance(x, dict):
        return tuple(sorted((k, _hashable(v)) for k, v in x.items()))
    return x


def diff_paths(a, b, path="", out=None, limit=20):
    """Leaf-level differences between two canonical values: [(path, a_leaf, b_leaf)]."""
    if out is None:
        out = []
    if len(out) >= limit:
        return out
    if isinstance(a, dict) and isinstance(b, dict):
        for k in list(a.keys()) + [k for k in b.keys() if k not in a]:
            if k not in a or k not in b:
                out.append((f"{path}/{k}", a.get(k, "<absent>"), b.get(k, "<absent>")))
            else:
                diff_paths(a[k], b[k], f"{path}/{k}", out, limit)
        return out
    if isinstance(a, (list, tuple)) and isinstance(b, (list, tuple)) and len(a) == len(b):
        for i, (x, y) in enumerate(zip(a, b)):
            diff_paths(x, y, f"{path}[{i}]", out, limit)
        return out
    if a != b:
        out.append((path, a, b))
    return out


def canon_equal(a, b):
    return canon(a) == canon(b)


# ------------------------------------------------------------------ kind inference

def unwrap(spec):
    if isinstance(spec, se.ForwardSerializable):
        spec._ensure_evaled()
        return object.__getattribute__(spec, "_wrapped")
    return spec


def is_greedy(spec, _depth=0) -> bool:
    """True when the spec consumes the rest of its byte window (must be last in its window)."""
    spec = unwrap(spec)
    if _depth > 40:
        return False
    if isinstance(spec, type):
        return False
    if isinstance(spec, se.BytesGreedy):
        return True
    if isinstance(spec, (se.IfPresent, se.LengthSwitch, se.TypedBytesGreedy)):
        return True
    if isinstance(spec, se.BytesTerminated):
        return not spec.write_terminator
    if isinstance(spec, se.CStr):
        return not spec._bytes_tmpl.write_terminator
    if isinstance(spec, se.Collection):
        if spec._len_spec is None and not spec._length:
            return True
        return False
    if isinstance(spec, se.Template):
        items = list(spec._template_spec.values())
        return bool(items) and is_greedy(items[-1], _depth + 1)
    if isinstance(spec, se.Tuple):
        return bool(spec._prim_seq) and is_greedy(spec._prim_seq[-1], _depth + 1)
    if isinstance(spec, se.Dataclass):
        return is_greedy(spec.template, _depth + 1)
    if isinstance(spec, (se.OptionalPrefixed, se.OptionalFlagged)):
        return is_greedy(spec._ser_spec, _depth + 1)
    if isinstance(spec, se.EnumSwitch):
        return any(is_greedy(s, _depth + 1) for s in spec._choice_specs.values())
    if isinstance(spec, se.FlagSwitch):
        return any(is_greedy(s, _depth + 1) for s in spec._choice_specs.values())
    if isinstance(spec, se.ContextSwitch):
        return any(is_greedy(s, _depth + 1) for s in spec._options.values())
    if isinstance(spec, se.TypedBytesBase):
        return is_greedy(spec._bytes_tmpl, _depth + 1)
    if isinstance(spec, se.Adapter):
        child = spec._child_spec
        return child is not None and is_greedy(child, _depth + 1)
    if type(spec).__name__ in ("NameValuesSerializer",) or getattr(spec, "__name__", "") == "NameValuesSerializer":
        return True
    return False


# ------------------------------------------------------------------ value derivation

# (the tail: characters that some line-oriented string helpers treat as line breaks or white space although the formats here
# only give that meaning to "\n" / " ": CR, VT, FF, FS-RS, NEL, LS, PS, no-break space, BOM)
TEXT_ALPHABET = "abcXYZ 019_-.,;:!?/\\'\"#<>=[]{}$|é中" + "\r\x0b\x0c\x1c\x1d\x1e\x85\u2028\u2029\xa0\ufeff\t"


RAW_NOT_REPRODUCED = []      # filled by the deriver (see _value_of_raw), drained by the checks that build payloads from derived values
RAW_TRIED = [0]
STATS = {}
_FULL = [0]


class Deriver:
    """Generates values for real spec objects. poison_at: index of the poisonable leaf that receives an
    out-of-domain value (None = never)."""

    def __init__(self, rng, size_budget=40, poison_at=None, top_overrides=None):
        self.rng = rng
        self.top_overrides = top_overrides or {}   # forced member values of the top-level template
        self.size_budget = size_budget
        self.poison_at = poison_at
        self.poisonable_seen = 0
        self.poison_desc = None
        self.classes = set()

    # -- helpers
    def _poison_here(self):
        idx = self.poisonable_seen
        self.poisonable_seen += 1
        return self.poison_at is not None and idx == self.poison_at

    def rand_bytes(self, n, avoid=()):
        rng = self.rng
        out = bytearray()
        while len(out) < n:
            b = rng.choice([0, 1, 0xff, rng.getrandbits(8), 0x41])
            if bytes([b]) in avoid:
                continue
            out.append(b)
        return bytes(out)

    def rand_text(self, max_bytes, avoid=(), allow_nul=False):
        rng = self.rng
        n = rng.choice([0, 1, 2, rng.randint(0, 12)])
        s = ""
        for _ in range(n):
            c = rng.choice(TEXT_ALPHABET)
            if any(t in c.encode("utf8") for t in avoid if len(t) == 1):
                continue
            if len((s + c).encode("utf8")) > max_bytes:
                break
            s += c
        return s.rstrip("\x00")

    def rand_int(self, lo, hi):
        rng = self.rng
        r = rng.random()
        if r < 0.3:
            return rng.choice([lo, hi, max(lo, min(hi, 0)), max(lo, min(hi, 1)), max(lo, min(hi, -1)),
                               max(lo, min(hi, 255)), max(lo, min(hi, 256))])
        if r < 0.6:
            return rng.randint(max(lo, -200), min(hi, 200))
        return rng.randint(lo, hi)

    def rand_float(self, fmt):
        rng = self.rng
        r = rng.random()
        if fmt == "f":
            if r < 0.3:
                return f32(rng.choice([0.0, -0.0, 1.0, -1.0, 0.5, 1e-45, 3.4028234663852886e+38, float("inf")]))
            return f32(rng.uniform(-1000, 1000))
        if r < 0.3:
            return rng.choice([0.0, -0.0, 1.0, -1.0, 5e-324, 1.7976931348623157e308, float("-inf")])
        if r < 0.5:
            # a single-precision value widened to double (what a viewer that computes in floats puts into a double field):
            # its shortest decimal form as a float and as a double differ
            return f32(rng.choice([0.1, 1 / 3, 123456.789, rng.uniform(-256, 256), rng.uniform(-1e6, 1e6)]))
        return rng.uniform(-1e9, 1e9)

    # -- dispatch
    def gen(self, spec, ctx=None, avoid=()):
        spec0 = spec
        spec = unwrap(spec)
        if spec0 is not spec:
            self.classes.add("ForwardSerializable")
        name = spec.__name__ if isinstance(spec, type) else type(spec).__name__
        self.classes.add(name)
        meth = None
        klass = spec if isinstance(spec, type) else type(spec)
        for k in klass.__mro__:
            meth = getattr(self, "g_" + k.__name__, None)
            if meth is not None:
                break
        if meth is None:
            raise Unsupported(name)
        return meth(spec, ctx, avoid)

    # ---- primitives
    def g_SerializablePrimitive(self, spec, ctx, avoid):
        if is_float_prim(spec):
            return self.rand_float(spec._struct_fmt.lstrip("<>!="))
        if self._poison_here():
            self.poison_desc = f"int out of range for {spec._struct_fmt}"
            return self.rng.choice([spec.max_val + 1, spec.min_val - 1])
        return self.rand_int(spec.min_val, spec.max_val)

    def g_Struct(self, spec, ctx, avoid):
        out = []
        for ch in spec._struct_fmt.lstrip("<>!="):
            p = {"B": se.U8, "b": se.S8, "H": se.U16, "h": se.S16, "I": se.U32, "i": se.S32, "Q": se.U64, "q": se.S64,
                 "f": se.F32, "d": se.F64}.get(ch)
            if p is None:
                raise Unsupported(f"Struct fmt {spec._struct_fmt}")
            out.append(self.g_SerializablePrimitive(p, ctx, avoid))
        return tuple(out)

    def g_Null(self, spec, ctx, avoid):
        return None

    def g_UUID(self, spec, ctx, avoid):
        return dtypes.UUID(int=self.rng.getrandbits(128))

    # ---- bytes / strings
    def g_ByteArray(self, spec, ctx, avoid):
        max_len = spec._len_spec.max_val
        if self._poison_here() and max_len < (1 << 17):
            self.poison_desc = "byte array longer than its length prefix allows"
            return b"\x01" * (max_len + 1)
        n = self.rng.choice([0, 1, 2, self.rng.randint(0, min(max_len, self.size_budget))])
        if max_len <= 255 and self.rng.random() < 0.05:
            n = max_len
        return self.rand_bytes(n, avoid)

    def g_BytesFixed(self, spec, ctx, avoid):
        if self._poison_here():
            self.poison_desc = "fixed bytes of the wrong length"
            return b"\x01" * (spec._size + self.rng.choice([1, -1]) if spec._size else 1)
        return self.rand_bytes(spec._size, avoid)

    def g_BytesGreedy(self, spec, ctx, avoid):
        return self.rand_bytes(self.rng.choice([0, 1, 3, self.rng.randint(0, self.size_budget)]), avoid)

    def g_BytesTerminated(self, spec, ctx, avoid):
        av = tuple(avoid) + tuple(spec.terminators)
        return self.rand_bytes(self.rng.choice([0, 1, 3, self.rng.randint(0, 16)]), av)

    def g_Str(self, spec, ctx, avoid):
        max_len = spec._bytes_tmpl._len_spec.max_val
        if self._poison_here() and max_len < (1 << 17):
            self.poison_desc = "string longer than its length prefix allows"
            return "x" * (max_len + 1)
        budget = max_len - (1 if spec._null_term else 0)
        return self.rand_text(min(budget, self.size_budget), avoid)

    def g_StrFixed(self, spec, ctx, avoid):
        if self._poison_here():
            if spec._length >= 2 and self.rng.random() < 0.5:
                # few enough characters, too many bytes once encoded
                self.poison_desc = "string whose UTF-8 encoding is longer than the fixed field"
                return "\u00e9" * spec._length
            self.poison_desc = "string longer than the fixed field"
            return "y" * (spec._length + 1)
        return self.rand_text(spec._length, avoid)

    def g_CStr(self, spec, ctx, avoid):
        av = tuple(avoid) + tuple(spec._bytes_tmpl.terminators)
        if spec._encoding != "utf8":
            raise Unsupported("CStr encoding")
        return self.rand_text(self.size_budget, av)

    # ---- coordinates
    def g_TupleCoord(self, spec, ctx, avoid):
        elem = spec.ELEM_SPEC
        vals = [self.g_SerializablePrimitive(elem, ctx, avoid) for _ in range(spec.NUM_ELEMS)]
        return spec.COORD_CLS(*vals)

    def g_EncodedTupleCoord(self, spec, ctx, avoid):
        vals = [self.gen(s, ctx, avoid) for s in spec._elem_specs]
        return spec.COORD_CLS(*vals)

    def g_PackedQuat(self, spec, ctx, avoid):
        child = spec._child_spec
        if isinstance(child, type):
            comps = [f32(self.rng.uniform(-0.57, 0.57)) for _ in range(3)]
        else:
            v = self.gen(child, ctx, avoid)
            comps = list(v.data())   # 3 components: W derived; 4 components: W is on the wire too
        return dtypes.Quaternion(*comps)

    # ---- quantised
    def _quantised_raw(self, prim):
        # raws next to the ends and next to the middle of the raw domain (where 0.0 lives for ranges centred on zero) get their share
        lo, hi = prim.min_val, prim.max_val
        if self.rng.random() < 0.25:
            mid = (lo + hi) // 2
            return self.rng.choice([lo, lo + 1, hi, hi - 1, mid - 1, mid, mid + 1, mid + 2, max(lo, -1), max(lo, 0), 1, 2])
        return self.rand_int(lo, hi)

    def _value_of_raw(self, spec, raw, ctx):
        """The value a payload holding `raw` in this field stands for. The payload is built from the value, so the value has to
        lead back to the raw it came from - otherwise a payload with that raw in it cannot be reproduced at all, which is noted
        for the caller (RAW_NOT_REPRODUCED) instead of silently generating the payload of another raw."""
        val = spec.decode(raw, ctx)
        try:
            back = spec.encode(val, ctx)
        except Exception as e:
            back = repr(e)[:100]
        RAW_TRIED[0] += 1
        if back != raw:
            RAW_NOT_REPRODUCED.append({"spec": type(spec).__name__, "prim": repr(spec._child_spec)[:60], "raw": raw, "decoded": val,
                                       "encodes_as": back, "lower": getattr(spec, "lower", None), "upper": getattr(spec, "upper", None)})
        return val

    def g_QuantizedFloat(self, spec, ctx, avoid):
        prim = spec._child_spec
        raw = self._quantised_raw(prim)
        if type(spec) is not se.QuantizedFloat and raw == prim.min_val:
            # specially stepped subclasses (texture rotation): the lowest raw is C10's known finding, keep it there
            raw += 1
        return self._value_of_raw(spec, raw, ctx)

    def g_QuantizedFloatBase(self, spec, ctx, avoid):
        prim = spec._child_spec
        raw = self._quantised_raw(prim)
        return self._value_of_raw(spec, raw, ctx)

    def g_FixedPoint(self, spec, ctx, avoid):
        prim = spec._ser_spec
        raw = self.rand_int(prim.min_val, prim.max_val)
        val = float(raw) / (1 << spec._frac_bits)
        if spec._signed:
            val -= spec._max_val
        return val

    # ---- composites
    def g_Tuple(self, spec, ctx, avoid):
        vals = []
        sub = se.ParseContext(vals, parent=ctx)
        for p in spec._prim_seq:
            vals.append(self.gen(p, sub, avoid))
        return vals

    def g_Template(self, spec, ctx, avoid):
        vals = {}
        sub = se.ParseContext(vals, parent=ctx)
        for name, field in spec._template_spec.items():
            if ctx is None and name in self.top_overrides:
                v = self.top_overrides[name]
            else:
                v = self.gen(field, sub, avoid)
            fu = unwrap(field)
            # the real Template looks at the field object itself (a ForwardSerializable wrapper is not OPTIONAL)
            if v is None and getattr(field, "OPTIONAL", False) and spec._skip_missing:
                continue
            vals[name] = v
        return vals

    def g_Collection(self, spec, ctx, avoid):
        entries = []
        sub = se.ParseContext(entries, parent=ctx)
        if spec._len_spec is not None:
            max_len = getattr(spec._len_spec, "max_val", 255)
            if self._poison_here() and max_len <= 255:
                self.poison_desc = "more entries than the count prefix allows"
                n = max_len + 1
            else:
                n = self.rng.choice([0, 1, 2, 3, self.rng.randint(0, 6)])
                n = min(n, max_len)
                # exactly as many entries as the count prefix can announce (every 25th one-byte-counted collection of small
                # fixed-size entries): the largest legitimate value of the count, not one more
                if max_len <= 255:
                    _FULL[0] += 1
                    try:
                        small = (spec._entry_ser.calc_size() or 99) <= 20
                    except Exception:
                        small = False
                    if small and _FULL[0] % 25 == 0:
                        n = max_len
                        STATS["collections_filled_to_their_count_limit"] = STATS.get("collections_filled_to_their_count_limit", 0) + 1
        elif spec._length:
            n = spec._length
            if self._poison_here():
                self.poison_desc = "wrong number of entries for a fixed-length collection"
                n = spec._length + self.rng.choice([1, -1])
        else:
            n = self.rng.choice([0, 1, 2, 3, self.rng.randint(0, 6)])
        for i in range(n):
            entries.append(self.gen(spec._entry_ser, sub, avoid))
        return entries

    def g_OptionalPrefixed(self, spec, ctx, avoid):
        if self.rng.random() < 0.35:
            return None
        return self.gen(spec._ser_spec, ctx, avoid)

    def g_OptionalFlagged(self, spec, ctx, avoid):
        if spec._normalize_flag_val(ctx) & spec._flag_val:
            return self.gen(spec._ser_spec, ctx, avoid)
        return None

    def g_IfPresent(self, spec, ctx, avoid):
        if self.rng.random() < 0.35:
            return None
        return self.gen(spec._ser_spec, ctx, avoid)

    def g_LengthSwitch(self, spec, ctx, avoid):
        keys = list(spec._choice_specs.keys())
        k = self.rng.choice(keys)
        inner = spec._choice_specs[k]
        for _ in range(20):
            v = self.gen(inner, ctx, avoid)
            w = se.BufferWriter("<")
            w.write(inner, v, ctx=ctx)
            n = len(w)
            if k is None:
                if n not in spec._choice_specs:
                    return dtypes.TaggedUnion(n, v)
            elif n == k:
                return dtypes.TaggedUnion(n, v)
        raise Unsupported("LengthSwitch: could not make a value whose size selects its own branch")

    def g_IntEnum(self, spec, ctx, avoid):
        prim = spec._child_spec
        members = [m for m in spec.enum_cls if prim is None or prim.min_val <= int(m) <= prim.max_val]
        r = self.rng.random()
        if members and (r < 0.7 or spec._strict or prim is None):
            return self.rng.choice(members)
        v = self.rand_int(prim.min_val, prim.max_val)
        # (membership decided here by value: enum classes may define their own idea of what an unknown value turns into)
        for m in spec.enum_cls:
            if int(m) == v:
                return m
        if spec.enum_cls is HVShape:
            STATS["unknown_values_under_catch_all_enum"] = STATS.get("unknown_values_under_catch_all_enum", 0) + 1
        return v

    def g_IntFlag(self, spec, ctx, avoid):
        prim = spec._child_spec
        members = list(spec.flag_cls)
        hi = prim.max_val if prim is not None else 0xFFFFFFFF
        r = self.rng.random()
        v = 0
        if members and r < 0.7:
            for m in members:
                if self.rng.random() < 0.4:
                    v |= int(m)
            v &= (hi if prim is None or not prim.is_signed else prim.max_val)
        else:
            v = self.rand_int(0, hi)
        return spec.flag_cls(v)

    def g_EnumSwitch(self, spec, ctx, avoid):
        flag = self.rng.choice(list(spec._choice_specs.keys()))
        return dtypes.TaggedUnion(flag, self.gen(spec._choice_specs[flag], ctx, avoid))

    def g_FlagSwitch(self, spec, ctx, avoid):
        flags = [f for f in spec._choice_specs if self.rng.random() < 0.5]
        self.rng.shuffle(flags)     # dict insertion order must not matter
        out = {}
        for f in flags:
            out[f] = self.gen(spec._choice_specs[f], ctx, avoid)
        return out

    def g_ContextSwitch(self, spec, ctx, avoid):
        return self.gen(spec._choose_option(ctx), ctx, avoid)

    def g_ContextAdapter(self, spec, ctx, avoid):
        opt = spec._choose_option(ctx)
        return self._adapter_value(opt, spec._child_spec, ctx, avoid)

    def _adapter_value(self, adapter, child, ctx, avoid):
        """Value for an adapter = decode(child value) (the adapter's own image of the child's domain)."""
        save, self.poison_at = self.poison_at, None   # an adapter may map an out-of-range child value back into range
        try:
            cv = self.gen(child, ctx, avoid)
        finally:
            self.poison_at = save
        return adapter.decode(cv, ctx=ctx, pod=False)

    def g_BitField(self, spec, ctx, avoid):
        bf = spec._bitfield
        vals = {}
        cur = 0
        names = list(bf._schema.keys())
        poison_member = None
        if self._poison_here():
            poison_member = self.rng.choice(names)
        for name, bits in bf._schema.items():
            raw = self.rand_int(0, (1 << bits) - 1)
            if name == poison_member:
                self.poison_desc = f"bit-field member {name!r} wider than its {bits} bits"
                raw = (1 << bits) + self.rng.randint(0, 3)
                if not bf.shift:
                    if cur > 0 and self.rng.random() < 0.5:
                        # an in-range value with an extra bit BELOW the member's slot
                        raw = (self.rand_int(0, (1 << bits) - 1) << cur) | (1 << self.rng.randrange(0, cur))
                        self.poison_desc = f"un-shifted bit-field member {name!r} with a bit below its slot"
                    else:
                        raw = (1 << (cur + bits))   # a bit above the member's mask
                    vals[name] = raw
                    cur += bits
                    continue
            if not bf.shift:
                raw = raw << cur
            entry = spec._schema[name]
            vals[name] = entry.adapter.decode(raw, ctx=ctx, pod=False) if name != poison_member else raw
            cur += bits
        return vals

    def g_BitfieldDataclass(self, spec, ctx, avoid):
        vals = self.g_BitField(spec._bitfield_spec, ctx, avoid)
        return spec._data_cls(**vals)

    def g_Dataclass(self, spec, ctx, avoid):
        vals = self.g_Template(spec.template, ctx, avoid)
        return spec._data_cls(**vals)

    def g_DataclassAdapter(self, spec, ctx, avoid):
        vals = self.gen(spec._child_spec, ctx, avoid)
        return spec._data_cls(**vals)

    def g_TypedBytesBase(self, spec, ctx, avoid):
        inner = spec._spec
        terminated = isinstance(spec._bytes_tmpl, se.BytesTerminated)
        # (a None under a terminated wrapper writes no terminator at all: only meaningful at the end of a window)
        if spec._empty_is_none and not terminated and self.rng.random() < 0.3:
            return None
        inner_avoid = tuple(avoid)
        if terminated:
            inner_avoid += tuple(spec._bytes_tmpl.terminators)
        inner_ctx = None if spec._lazy else ctx
        fixed = spec._bytes_tmpl._size if isinstance(spec._bytes_tmpl, se.BytesFixed) else None
        for _ in range(60):
            v = self.gen(inner, inner_ctx, inner_avoid)
            if not inner_avoid and not spec._empty_is_none and fixed is None:
                return v
            w = se.BufferWriter("<")
            try:
                w.write(inner, v, ctx=inner_ctx)
            except Exception:
                return v     # poisoned on purpose
            buf = bytes(w.buffer)
            if fixed is not None and len(buf) != fixed and self.poison_at is None:
                continue
            if any(t in buf for t in inner_avoid):
                continue
            if spec._empty_is_none and not buf:
                continue
            return v
        raise Unsupported("TypedBytes: could not avoid the terminator")

    def g_DictAdapter(self, spec, ctx, avoid):
        pairs = self.gen(spec._child_spec, ctx, avoid)
        out = {}
        for k, v in pairs:
            out[k if not isinstance(k, list) else tuple(k)] = v
        if len(out) != len(pairs):
            raise Unsupported("DictAdapter duplicate keys")   # retried by the caller
        return out

    def g_MultiDictAdapter(self, spec, ctx, avoid):
        pairs = self.gen(spec._child_spec, ctx, avoid)
        return OrderedMultiDict([(k, v) for k, v in pairs])

    def g_StringEnumAdapter(self, spec, ctx, avoid):
        return self.rng.choice(list(spec._enum_cls))

    def g_BoolAdapter(self, spec, ctx, avoid):
        return self.rng.random() < 0.5

    def g_IdentityAdapter(self, spec, ctx, avoid):
        raise Unsupported("IdentityAdapter outside a bit-field")

    def g_ExprAdapter(self, spec, ctx, avoid):
        return self._adapter_value(spec, spec._child_spec, ctx, avoid)

    def g_NumPyArray(self, spec, ctx, avoid):
        child = unwrap(spec._child_spec)
        item = spec.dtype.itemsize * spec.elems
        if isinstance(child, se.BytesFixed):
            rows = child._size // item
        else:
            rows = self.rng.choice([0, 1, 2, self.rng.randint(0, 6)])
        n = rows * spec.elems
        if spec.dtype.kind in "ui":
            info = np.iinfo(spec.dtype)
            data = [self.rand_int(int(info.min), int(info.max)) for _ in range(n)]
        else:
            data = [f32(self.rng.uniform(-100, 100)) for _ in range(n)]
        return np.array(data, dtype=spec.dtype).reshape((rows, spec.elems))

    def g_QuantizedNumPyArray(self, spec, ctx, avoid):
        raw = self.g_NumPyArray(spec._child_spec, ctx, avoid)
        return spec.decode(raw, ctx)

    def g_BinaryLLSD(self, spec, ctx, avoid):
        for _ in range(20):
            v = self._llsd(2)
            if v is not None:     # a top-level undef is indistinguishable from "absent" for optional wrappers
                return v
        return 0

    def _llsd(self, depth):
        rng = self.rng
        kinds = ["int", "str", "real", "bool", "uuid", "bin", "undef"]
        if depth > 0:
            kinds += ["list", "map"]
        k = rng.choice(kinds)
        if k == "int":
            return self.rand_int(-2 ** 31, 2 ** 31 - 1)
        if k == "str":
            return self.rand_text(20)
        if k == "real":
            return rng.uniform(-1e6, 1e6)
        if k == "bool":
            return rng.random() < 0.5
        if k == "uuid":
            return dtypes.UUID(int=rng.getrandbits(128))
        if k == "bin":
            return self.rand_bytes(rng.randint(0, 8))
        if k == "undef":
            return None
        if k == "list":
            return [self._llsd(depth - 1) for _ in range(rng.randint(0, 3))]
        return {self.rand_text(8) or "k": self._llsd(depth - 1) for _ in range(rng.randint(0, 3))}

    # ---- texture entries / name values (templates.py, namevalue.py)
    def g_TEFaceBitfield(self, spec, ctx, avoid):
        n = self.rng.choice([1, 1, 2, 3, self.rng.randint(1, 8)])
        # (the format has no upper limit on face numbers: around the 7-bit group boundaries, the viewer's maximum (45), and
        # beyond 64 where a fixed-width integer would stop)
        hi = self.rng.choice([6, 7, 13, 14, 20, 44, 45, 62, 63, 64, 65, 70, 127, 128])
        faces = sorted(self.rng.sample(range(0, hi + 1), min(n, hi + 1)))
        return tuple(faces)

    def g_TEExceptionField(self, spec, ctx, avoid):
        if spec._optional and self.rng.random() < 0.5:
            return None
        vals = {}
        sub = se.ParseContext(vals, parent=ctx)
        vals[None] = self.gen(spec._spec, sub, avoid)
        used = set()
        for _ in range(self.rng.choice([0, 0, 1, 2, 3])):
            faces = self.g_TEFaceBitfield(None, sub, avoid)
            if faces in vals or used & set(faces):
                continue
            used |= set(faces)
            vals[faces] = self.gen(spec._spec, sub, avoid)
        return vals

    def g_NameValuesSerializer(self, spec, ctx, avoid):
        import hippolyzer.lib.base.namevalue as nv
        n = self.rng.choice([1, 1, 2, 3])
        out = nv.NameValueCollection()
        for _ in range(n):
            out.append(self.gen(nv.NV_SERIALIZER, ctx, tuple(avoid) + (b"\n",)))
        # the same pair said twice is still a list of two (or three) entries: one collection in three repeats its first entry at
        # the end (decided from the content, so the random stream is the same with and without this)
        import copy as _copy
        import zlib as _zlib
        if _zlib.crc32(repr([str(x) for x in out]).encode("utf8", "replace")) % 3 == 0:
            out.append(_copy.deepcopy(out[0]))
            STATS["namevalue_collections_repeating_their_first_entry"] = STATS.get("namevalue_collections_repeating_their_first_entry", 0) + 1
        return out

    def g_Adapter(self, spec, ctx, avoid):
        # generic adapter: its domain is the image of its child's domain under decode()
        if spec._child_spec is None:
            raise Unsupported(type(spec).__name__)
        return self._adapter_value(spec, spec._child_spec, ctx, avoid)




# ------------------------------------------------------------------ random programs (spec trees)

class HVColor(dtypes.IntEnum):
    RED = 0
    GREEN = 1
    BLUE = 5
    WIDE = 200


class HVShape(dtypes.IntEnum):
    """An enum with a catch-all member for values its own constructor does not know (a common idiom): on the wire an unknown
    integer is still that integer."""
    BOX = 0
    BALL = 3
    UNKNOWN = 255

    @classmethod
    def _missing_(cls, value):
        return cls.UNKNOWN


class HVKind(dtypes.IntEnum):
    A = 0
    B = 1
    C = 2


class HVFlags(dtypes.IntFlag):
    ONE = 1
    TWO = 2
    FOUR = 4
    SIXTEEN = 16


class HVText(dtypes.StringEnum):
    ALPHA = "alpha"
    BETA = "b"
    GAMMA = "GAMMA"


def _ctx_kind(ctx):
    k = ctx.kind
    if isinstance(k, str):      # plain-data mode hands out member names
        k = HVKind[k]
    return k


def _ctx_first(ctx):
    k = ctx[0]
    if isinstance(k, str):      # plain-data mode hands out member names
        k = HVKind[k]
    return k


def _ctx_up_kind(ctx):
    """From a field of a template that is an entry of a collection that is a member of the template defining `kind`:
    entry template -> collection -> defining template."""
    return _ctx_kind(ctx._._)


def describe(spec, depth=0):
    """Human-readable S-expression of a spec tree (evidence / replay files)."""
    spec = unwrap(spec)
    if depth > 12:
        return "..."
    if isinstance(spec, type):
        return spec.__name__
    n = type(spec).__name__
    t = prim_table()
    if id(spec) in t:
        return t[id(spec)]
    d = depth + 1
    if isinstance(spec, se.Template):
        return "(Template " + " ".join(f"{k}:{describe(v, d)}" for k, v in spec._template_spec.items()) + ")"
    if isinstance(spec, se.Tuple):
        return "(Tuple " + " ".join(describe(v, d) for v in spec._prim_seq) + ")"
    if isinstance(spec, se.Collection):
        ln = describe(spec._len_spec, d) if spec._len_spec is not None else (spec._length or "greedy")
        return f"(Collection {ln} {describe(spec._entry_ser, d)})"
    if isinstance(spec, (se.OptionalPrefixed, se.IfPresent)):
        return f"({n} {describe(spec._ser_spec, d)})"
    if isinstance(spec, se.OptionalFlagged):
        return f"(OptionalFlagged {spec._flag_field}&{spec._flag_val} {describe(spec._ser_spec, d)})"
    if isinstance(spec, se.LengthSwitch):
        return "(LengthSwitch " + " ".join(f"{k}:{describe(v, d)}" for k, v in spec._choice_specs.items()) + ")"
    if isinstance(spec, (se.EnumSwitch, se.FlagSwitch)):
        return f"({n} " + " ".join(f"{getattr(k, 'name', k)}:{describe(v, d)}" for k, v in spec._choice_specs.items()) + ")"
    if isinstance(spec, se.ContextSwitch):
        return "(ContextSwitch " + " ".join(f"{getattr(k, 'name', k)}:{describe(v, d)}" for k, v in spec._options.items()) + ")"
    if isinstance(spec, se.TypedBytesBase):
        extra = ("" + (" lazy" if spec._lazy else "") + (" empty_is_none" if spec._empty_is_none else ""))
        return f"({n}{extra} {describe(spec._bytes_tmpl, d)} {describe(spec._spec, d)})"
    if isinstance(spec, se.Dataclass):
        return f"(Dataclass {describe(spec.template, d)})"
    if isinstance(spec, se.BitfieldDataclass):
        return f"(BitfieldDataclass {describe(spec._bitfield_spec, d)})"
    if isinstance(spec, se.BitField):
        return f"(BitField {describe(spec._child_spec, d)} shift={spec._bitfield.shift} {dict(spec._bitfield._schema)})"
    if isinstance(spec, se.ByteArray):
        return f"(ByteArray {describe(spec._len_spec, d)})"
    if isinstance(spec, se.BytesFixed):
        return f"(BytesFixed {spec._size})"
    if isinstance(spec, se.Str):
        return f"(Str {describe(spec._bytes_tmpl._len_spec, d)} nul={spec._null_term})"
    if isinstance(spec, se.StrFixed):
        return f"(StrFixed {spec._length})"
    if isinstance(spec, se.BytesTerminated):
        return f"(BytesTerminated {list(spec.terminators)} write={spec.write_terminator})"
    if isinstance(spec, se.CStr):
        return f"(CStr {describe(spec._bytes_tmpl, d)})"
    if isinstance(spec, se.QuantizedFloat):
        return f"({n} {describe(spec._child_spec, d)} {spec.lower} {spec.upper})"
    if isinstance(spec, se.FixedPoint):
        return f"(FixedPoint {describe(spec._ser_spec, d)} frac={spec._frac_bits} signed={spec._signed})"
    if isinstance(spec, se.NumPyArray):
        return f"(NumPyArray {describe(spec._child_spec, d)} {spec.dtype} x{spec.elems})"
    if isinstance(spec, se.Adapter):
        return f"({n} {describe(spec._child_spec, d) if spec._child_spec is not None else ''})"
    return n


class ProgramGen:
    """Random spec trees from the combinator grammar, respecting the combinators' documented side-conditions."""

    def __init__(self, rng, max_depth=3):
        self.rng = rng
        self.max_depth = max_depth
        self._dc_counter = 0

    # ---- leaves
    def fixed_leaf(self):
        """(spec, size) self-delimiting with a fixed size > 0"""
        rng = self.rng
        options = [
            lambda: (rng.choice([se.U8, se.S8]), 1), lambda: (rng.choice([se.U16, se.S16]), 2),
            lambda: (rng.choice([se.U32, se.S32, se.F32]), 4), lambda: (rng.choice([se.U64, se.S64, se.F64]), 8),
            lambda: (se.UUID, 16), lambda: (se.Vector3, 12), lambda: (se.Vector4, 16), lambda: (se.Vector3D, 24),
            lambda: (se.Vector3U16(-rng.choice([1.0, 64.0, 256.0]), rng.choice([1.0, 64.0, 256.0])), 6),
            lambda: (se.Vector2U16(0.0, 1.0), 4), lambda: (se.Vector4U16(-1.0, 1.0), 8),
            lambda: (se.Vector3U8(0.0, 1.0), 3), lambda: (se.FixedPointVector3U16(8, 7, signed=True), 6),
            lambda: (se.QuantizedFloat(se.U8, 0.0, 1.0), 1), lambda: (se.QuantizedFloat(se.U16, -64.0, 64.0), 2),
            lambda: (se.QuantizedFloat(se.S16, -1.0, 1.0), 2), lambda: (se.QuantizedFloat(se.S8, -1.0, 1.0), 1),
            lambda: (se.QuantizedFloat(se.U16, 0.0, 3.5, False), 2),
            lambda: (se.FixedPoint(se.U16, 8, 8), 2), lambda: (se.FixedPoint(se.U8, 3, 5), 1),
            lambda: (se.FixedPoint(se.U16, 8, 7, signed=True), 2),
            lambda: self._bytes_fixed(), lambda: self._str_fixed(),
            lambda: (se.IntEnum(rng.choice([HVColor, HVShape]), rng.choice([se.U8, se.U16, se.U32])), None),
            lambda: (se.IntFlag(HVFlags, rng.choice([se.U8, se.U16, se.U32])), None),
            lambda: self._bitfield(), lambda: self._bitfield_dataclass(),
            lambda: (se.PackedQuat(se.Vector3), 12), lambda: (se.PackedQuat(se.Vector3U16(-1.0, 1.0)), 6),
            lambda: (se.BoolAdapter(se.U8), 1),
            lambda: (se.ExprAdapter(se.U16, lambda x: x + 3, lambda x: x - 3), 2),
            lambda: (se.Struct(rng.choice(["BH", "Ii", "bB"])), None),
        ]
        spec, size = rng.choice(options)()
        if size is None:
            size = spec.calc_size()
        return spec, size

    def _bytes_fixed(self):
        n = self.rng.choice([1, 2, 4, 7, 16])
        return se.BytesFixed(n), n

    def _str_fixed(self):
        n = self.rng.choice([1, 4, 16])
        return se.StrFixed(n), n

    def _bitfield(self):
        rng = self.rng
        prim = rng.choice([se.U8, se.U16, se.U32])
        total = prim.calc_size() * 8
        schema = {}
        left = total
        i = 0
        while left > 0 and i < 5:
            bits = rng.randint(1, min(left, 9))
            if i == 4 or rng.random() < 0.15:
                bits = left
            if rng.random() < 0.2 and bits >= 3:
                schema[f"m{i}"] = se.BitfieldEntry(bits=bits, adapter=se.IntEnum(HVKind))
            else:
                schema[f"m{i}"] = bits
            left -= bits
            i += 1
        return se.BitField(prim, schema, shift=rng.random() < 0.7), prim.calc_size()

    def _bitfield_dataclass(self):
        rng = self.rng
        prim = rng.choice([se.U8, se.U16])
        total = prim.calc_size() * 8
        a = rng.randint(1, total - 2)
        b = rng.randint(1, total - a - 1)
        c = total - a - b
        self._dc_counter += 1
        cls = dataclasses.make_dataclass(f"HVBits{self._dc_counter}", [
            ("a", int, se.bitfield_field(bits=a)), ("b", int, se.bitfield_field(bits=b)),
            ("c", int, se.bitfield_field(bits=c))])
        return se.BitfieldDataclass(cls, prim, shift=rng.random() < 0.7), prim.calc_size()

    def delimited_leaf(self):
        """self-delimiting leaf of variable size"""
        rng = self.rng
        options = [
            lambda: se.ByteArray(rng.choice([se.U8, se.U16, se.U32])),
            lambda: se.Str(rng.choice([se.U8, se.U16]), null_term=rng.random() < 0.6),
            lambda: se.BytesTerminated((b"\x00",)), lambda: se.BytesTerminated((b"\n", b";")),
            lambda: se.CStr(), lambda: se.CStr(terminators=(b" ", b"\t")),
            lambda: se.StringEnumAdapter(HVText, se.CStr()),
            lambda: se.BinaryLLSD, lambda: se.Null,
        ]
        return rng.choice(options)()

    def greedy_leaf(self):
        rng = self.rng
        options = [
            lambda: se.BytesGreedy(),
            lambda: se.BytesTerminated((b"\n",), write_terminator=False),
            lambda: se.CStr(terminators=(b"\n",), write_terminator=False),
            lambda: se.Collection(None, self.fixed_leaf()[0]),
            lambda: se.NumPyArray(se.BytesGreedy(), np.dtype(rng.choice(["<u2", "<f4", ">u4", "u1"])), rng.choice([1, 2, 3])),
            lambda: se.QuantizedNumPyArray(se.NumPyArray(se.BytesGreedy(), np.dtype("<u2"), rng.choice([2, 3])),
                                           rng.choice([0.0, -1.0]), 1.0),
        ]
        return rng.choice(options)()

    # ---- fixed-size composite
    def make_fixed(self, n, depth):
        """A self-delimiting spec whose every encoding has exactly n bytes (n >= 1)."""
        rng = self.rng
        if n in (1, 2, 4, 8) and rng.random() < 0.3:
            return {1: se.U8, 2: se.S16, 4: se.U32, 8: se.U64}[n]
        if rng.random() < 0.3:
            return se.BytesFixed(n)
        parts = []
        left = n
        while left > 0:
            k = rng.choice([x for x in (1, 2, 4, 8) if x <= left])
            parts.append({1: se.U8, 2: se.U16, 4: se.F32, 8: se.S64}[k])
            left -= k
        if rng.random() < 0.5:
            return se.Tuple(*parts)
        return se.Template({f"f{i}": p for i, p in enumerate(parts)})

    # ---- general
    def make(self, depth=0, allow_greedy=True, no_none=False, nonempty=False, hashable=False):
        rng = self.rng
        if hashable:
            return rng.choice([se.U8, se.U16, se.S32, se.UUID, se.CStr(), se.Str(se.U8), se.IntEnum(HVColor, se.U8), se.IntEnum(HVShape, se.U8)])
        leafy = depth >= self.max_depth or rng.random() < 0.25
        if leafy:
            r = rng.random()
            if allow_greedy and r < 0.25:
                return self.greedy_leaf()
            if r < 0.7:
                return self.fixed_leaf()[0]
            spec = self.delimited_leaf()
            if (no_none or nonempty) and spec is se.Null:
                return se.U8
            if nonempty and isinstance(spec, se.BytesTerminated):
                return spec  # always writes its terminator
            return spec
        d = depth + 1
        choices = ["tuple", "template", "collection_prefixed", "collection_fixed", "enum_switch", "flag_switch",
                   "typed_bytearray", "typed_fixed", "typed_terminated", "dict", "multidict", "dataclass", "forward",
                   "ctx_template", "adapter_dataclass", "ctx_tuple"]
        if not no_none:
            choices += ["optional_prefixed"]
        if allow_greedy:
            choices += ["collection_greedy", "length_switch", "typed_greedy", "numpy_prefixed"]
            if not no_none:
                choices += ["if_present"]
        c = rng.choice(choices)
        if c == "tuple":
            n = rng.randint(1, 4)
            members = [self.make(d, allow_greedy=False) for _ in range(n - 1)]
            members.append(self.make(d, allow_greedy=allow_greedy))
            return se.Tuple(*members)
        if c == "template":
            n = rng.randint(1, 4)
            members = {f"f{i}": self.make(d, allow_greedy=False) for i in range(n - 1)}
            members[f"f{n - 1}"] = self.make(d, allow_greedy=allow_greedy)
            return se.Template(members)
        if c == "ctx_template":
            return self.ctx_template(d, allow_greedy)
        if c == "ctx_tuple":
            # a tuple whose later members are chosen by its FIRST member (read through the tuple's own context level, by index)
            STATS["tuples_with_members_chosen_by_their_first_member"] = STATS.get("tuples_with_members_chosen_by_their_first_member", 0) + 1
            return se.Tuple(
                se.IntEnum(HVKind, se.U8, strict=True),
                se.ContextSwitch(_ctx_first, {HVKind.A: self.make(d, allow_greedy=False), HVKind.B: self.make(d, allow_greedy=False),
                                              se.MISSING: self.make(d, allow_greedy=False)}),
                se.ContextAdapter(_ctx_first, se.U16, {HVKind.A: se.ExprAdapter(None, lambda x: x + 1, lambda x: x - 1),
                                                        HVKind.B: se.BoolAdapter(), HVKind.C: se.ExprAdapter(None)}))
        if c == "collection_prefixed":
            return se.Collection(rng.choice([se.U8, se.U16, se.U32]), self.make(d, allow_greedy=False))
        if c == "collection_fixed":
            return se.Collection(rng.randint(1, 4), self.make(d, allow_greedy=False))
        if c == "collection_greedy":
            # greedy collections need entries of non-zero width
            entry = rng.choice([lambda: self.fixed_leaf()[0], lambda: se.ByteArray(se.U8), lambda: se.CStr(),
                                lambda: se.Tuple(self.fixed_leaf()[0], se.Str(se.U8))])()
            return se.Collection(None, entry)
        if c == "optional_prefixed":
            return se.OptionalPrefixed(self.make(d, allow_greedy=allow_greedy, no_none=True))
        if c == "if_present":
            inner = rng.choice([lambda: self.fixed_leaf()[0], lambda: se.ByteArray(se.U8),
                                lambda: se.Tuple(se.U8, self.make(d, allow_greedy=True, no_none=True))])()
            return se.IfPresent(inner)
        if c == "length_switch":
            sizes = rng.sample([1, 2, 3, 4, 6, 8, 12, 16], rng.randint(1, 3))
            choice_specs = {n: self.make_fixed(n, d) for n in sizes}
            if rng.random() < 0.6:
                choice_specs[None] = rng.choice([se.BytesGreedy(), se.Collection(None, se.U16)])
            return se.LengthSwitch(choice_specs)
        if c == "enum_switch":
            members = rng.sample(list(HVKind), rng.randint(1, 3))
            return se.EnumSwitch(se.IntEnum(HVKind, rng.choice([se.U8, se.U16])),
                                 {m: self.make(d, allow_greedy=allow_greedy) for m in members})
        if c == "flag_switch":
            flags = rng.sample(list(HVFlags), rng.randint(1, 4))
            flags.sort(key=lambda f: rng.random())
            return se.FlagSwitch(se.IntFlag(HVFlags, rng.choice([se.U8, se.U32])),
                                 {f: self.make(d, allow_greedy=False) for f in flags})
        if c == "typed_bytearray":
            inner = self.make(d, allow_greedy=True, no_none=True)
            lazy = rng.random() < 0.3
            ein = rng.random() < 0.25 and not is_greedy(inner) and self._never_empty(inner) and not no_none
            small = self._never_empty(inner) and (unwrap(inner).calc_size() or 999) < 200
            len_spec = rng.choice([se.U8, se.U16, se.U32]) if small else rng.choice([se.U16, se.U32])
            return se.TypedByteArray(len_spec, inner, empty_is_none=ein, lazy=lazy)
        if c == "typed_greedy":
            inner = self.make(d, allow_greedy=True, no_none=True)
            return se.TypedBytesGreedy(inner, lazy=rng.random() < 0.3)
        if c == "typed_fixed":
            n = rng.choice([1, 2, 4, 6, 8, 12])
            return se.TypedBytesFixed(n, self.make_fixed(n, d), lazy=rng.random() < 0.3)
        if c == "typed_terminated":
            inner = rng.choice([lambda: se.BytesGreedy(), lambda: se.CStr(terminators=(b"|",), write_terminator=False),
                                lambda: se.Tuple(se.CStr(terminators=(b" ",)), se.BytesGreedy()),
                                lambda: se.Collection(None, se.CStr(terminators=(b",",)))])()
            return se.TypedBytesTerminated(inner, terminators=(b"\n",) if rng.random() < 0.5 else (b"\x00", b"\n"))
        if c == "dict":
            return se.DictAdapter(se.Collection(se.U8, se.Tuple(self.make(d, hashable=True),
                                                               self.make(d, allow_greedy=False))))
        if c == "multidict":
            return se.MultiDictAdapter(se.Collection(se.U8, se.Tuple(self.make(d, hashable=True),
                                                                    self.make(d, allow_greedy=False))))
        if c == "dataclass":
            return self.dataclass(d, allow_greedy)
        if c == "adapter_dataclass":
            self._dc_counter += 1
            tmpl = se.Template({"x": self.make(d, allow_greedy=False), "y": self.make(d, allow_greedy=allow_greedy)})
            cls = dataclasses.make_dataclass(f"HVPlain{self._dc_counter}", [("x", object), ("y", object)])
            return se.DataclassAdapter(cls, tmpl)
        if c == "forward":
            inner = self.make(d, allow_greedy=allow_greedy, no_none=no_none)
            return se.ForwardSerializable(lambda: inner)
        if c == "numpy_prefixed":
            dt = np.dtype(rng.choice(["<u2", "<i4", "<f4", "u1"]))
            elems = rng.choice([1, 2, 3])
            if rng.random() < 0.5:
                return se.TypedByteArray(se.U16, se.NumPyArray(se.BytesGreedy(), dt, elems))
            rows = rng.randint(1, 3)
            return se.NumPyArray(se.BytesFixed(rows * elems * dt.itemsize), dt, elems)
        raise AssertionError(c)

    def _never_empty(self, spec):
        spec = unwrap(spec)
        try:
            size = spec.calc_size()
        except Exception:
            return False
        return bool(size)

    def dataclass(self, depth, allow_greedy):
        rng = self.rng
        self._dc_counter += 1
        n = rng.randint(1, 4)
        fields = []
        for i in range(n):
            last = i == n - 1
            spec = self.make(depth, allow_greedy=allow_greedy and last)
            fields.append((f"d{i}", object, se.dataclass_field(spec, default=None)))
        cls = dataclasses.make_dataclass(f"HVData{self._dc_counter}", fields)
        return se.Dataclass(cls)

    def ctx_template(self, depth, allow_greedy):
        """A template whose later members read earlier siblings: flags -> OptionalFlagged, enum -> ContextSwitch,
        enum -> ContextAdapter."""
        rng = self.rng
        members = {}
        flag_prim = rng.choice([se.U8, se.U32])
        use_adapter_flags = rng.random() < 0.5
        members["flags"] = se.IntFlag(HVFlags, flag_prim) if use_adapter_flags else flag_prim
        members["kind"] = se.IntEnum(HVKind, se.U8, strict=True)
        flag_spec = members["flags"]
        for i, fl in enumerate(rng.sample(list(HVFlags), rng.randint(1, 3))):
            if rng.random() < 0.35:
                # a member that is present when ANY of several bits is set
                fl = int(fl) | int(rng.choice(list(HVFlags)))
            members[f"opt{i}"] = se.OptionalFlagged("flags", flag_spec, fl, self.make(depth, allow_greedy=False, no_none=True))
        members["sw"] = se.ContextSwitch(_ctx_kind, {
            HVKind.A: self.make(depth, allow_greedy=False), HVKind.B: self.make(depth, allow_greedy=False),
            se.MISSING: self.make(depth, allow_greedy=False)})
        members["ad"] = se.ContextAdapter(_ctx_kind, se.U16, {
            HVKind.A: se.ExprAdapter(None, lambda x: x + 1, lambda x: x - 1),
            HVKind.B: se.BoolAdapter(), HVKind.C: se.ExprAdapter(None)})
        tail_greedy = allow_greedy and rng.random() < 0.4
        if rng.random() < 0.5:
            # entries that look two context levels up (entry template -> collection -> this template)
            row = se.Template({"n": se.U8, "v": se.ContextSwitch(_ctx_up_kind, {
                HVKind.A: se.U16, HVKind.B: se.CStr(), se.MISSING: se.Vector3})})
            form = rng.choice(["prefixed", "fixed", "greedy"] if tail_greedy else ["prefixed", "fixed"])
            if form == "greedy":
                members["rows"] = se.Collection(None, row)
                tail_greedy = False
            elif form == "fixed":
                members["rows"] = se.Collection(rng.randint(1, 3), row)
            else:
                members["rows"] = se.Collection(rng.choice([se.U8, se.U16]), row)
        if tail_greedy:
            members["tail"] = self.make(depth, allow_greedy=True)
        return se.Template(members, skip_missing=rng.random() < 0.5)
