"""Entry point: python -m hv.runner <Cnn> [--tier T] [--seed N] [--replay F]

Parent mode shards the work over fresh interpreter processes (subprocess, never multiprocessing),
merges what the monitors observed, classifies violations against known_findings.json, writes the
evidence file and prints the verdict lines.

Exit codes: 0 held (possibly with KNOWN-FINDING lines), 1 violation, 2 inconclusive.
"""
import argparse
import base64
import hashlib
import importlib
import json
import os
import pickle
import random
import shutil
import subprocess
import sys
import tempfile
import time
import traceback

from . import env

env.setup()

SAMPLES_PER_SHARD = 4
WITNESSES_PER_MECHANISM = 3


def _h64(key) -> int:
    return int.from_bytes(hashlib.blake2b(repr(key).encode("utf8", "replace"), digest_size=8).digest(), "big")


def jsonable(o, depth=0):
    """Best-effort conversion of a case to something json can hold (bytes -> {'b64': ...})."""
    if depth > 12:
        return repr(o)[:200]
    if o is None or isinstance(o, (bool, int, str)):
        return o
    if isinstance(o, float):
        if o != o or o in (float("inf"), float("-inf")):
            return {"float": repr(o)}
        return o
    if isinstance(o, (bytes, bytearray, memoryview)):
        return {"b64": base64.b64encode(bytes(o)).decode()}
    if isinstance(o, dict):
        return {str(k): jsonable(v, depth + 1) for k, v in o.items()}
    if isinstance(o, (list, tuple, set, frozenset)):
        return [jsonable(v, depth + 1) for v in o]
    return repr(o)[:400]


def unjson(o):
    if isinstance(o, dict):
        if set(o.keys()) == {"b64"}:
            return base64.b64decode(o["b64"])
        if set(o.keys()) == {"float"}:
            return float(o["float"])
        return {k: unjson(v) for k, v in o.items()}
    if isinstance(o, list):
        return [unjson(v) for v in o]
    return o


class CpuBudgetExceeded(BaseException):
    """Raised inside a guarded case when it burned more CPU time than any legitimate case can (a hang)."""


import contextlib
import signal


@contextlib.contextmanager
def cpu_guard(seconds):
    """Bound the CPU time (not wall-clock: immune to machine load) of one case."""
    def _handler(signum, frame):
        raise CpuBudgetExceeded(f"more than {seconds}s of CPU time")
    old = signal.signal(signal.SIGVTALRM, _handler)
    signal.setitimer(signal.ITIMER_VIRTUAL, seconds)
    try:
        yield
    finally:
        signal.setitimer(signal.ITIMER_VIRTUAL, 0)
        signal.signal(signal.SIGVTALRM, old)


class Ctx:
    """What a property module sees.  All observation goes through here."""

    def __init__(self, prop, tier, seed, shard=0, nshards=1, deadline=None):
        self.prop = prop
        self.tier = tier
        self.seed = seed
        self.shard = shard
        self.nshards = nshards
        self.rng = random.Random(f"{prop}:{seed}:{shard}")
        self.evaluations = 0
        self.counters = {}
        self.nontrivial_keys = set()
        self.samples = []
        self.violations = {}      # mechanism -> {"count": n, "witnesses": [...], "what": str}
        self.inconclusive = []    # reasons
        self.flags = {}           # e.g. exhaustive flags, extra coverage info
        self.covers = {}          # name -> set of items reached (merged by union across shards)
        self.t0 = time.time()
        self.deadline = deadline  # wall-clock soft budget (a cap on work, never a verdict)

    # --- bookkeeping
    @property
    def quick(self):
        return self.tier == "quick"

    def pick(self, quick, thorough):
        return quick if self.tier == "quick" else thorough

    def mine(self, index) -> bool:
        """Static partition of an enumerated space over shards."""
        return index % self.nshards == self.shard

    def ev(self, n=1):
        self.evaluations += n

    def count(self, name, n=1):
        self.counters[name] = self.counters.get(name, 0) + n

    def nontrivial(self, key):
        self.nontrivial_keys.add(_h64(key))

    def nontrivial_range(self, prefix, n):
        """n distinct cases that share a prefix (e.g. every raw value of one instance), counted exactly."""
        base = (_h64(prefix) >> 24) << 24
        self.nontrivial_keys.update(range(base, base + n))

    def cover(self, name, item):
        """Record that `item` of the finite class `name` was reached; the merged size becomes counter <name>_covered."""
        self.covers.setdefault(name, set()).add(item if isinstance(item, (str, int)) else repr(item))

    def sample(self, case, force=False):
        if force or len(self.samples) < SAMPLES_PER_SHARD:
            self.samples.append(jsonable(case))

    def flag(self, name, value):
        self.flags[name] = value

    def time_left(self):
        if self.deadline is None:
            return 1e9
        return self.deadline - time.time()

    def out_of_time(self):
        return self.time_left() <= 0

    def violation(self, mechanism, what, witness):
        """mechanism: stable classifier key (never a hash / random value). what: one-line text."""
        v = self.violations.setdefault(mechanism, {"count": 0, "witnesses": [], "what": what})
        v["count"] += 1
        if len(v["witnesses"]) < WITNESSES_PER_MECHANISM:
            v["witnesses"].append(jsonable(witness))

    def inconclusive_because(self, reason):
        if reason not in self.inconclusive:
            self.inconclusive.append(reason)

    def dump(self):
        return {
            "evaluations": self.evaluations, "counters": self.counters,
            "nontrivial": sorted(self.nontrivial_keys), "samples": _plain(self.samples),
            "violations": _plain(self.violations), "inconclusive": self.inconclusive,
            "flags": _plain(self.flags), "wall_s": time.time() - self.t0, "covers": self.covers,
        }


def _plain(v, depth=0):
    """Witnesses travel to the parent as plain data: objects of library classes (enum members of a module that was reloaded
    meanwhile, coordinates, ...) are replaced by their repr so that nothing depends on class identity."""
    if v is None or isinstance(v, (bool, str, bytes)) or type(v) in (int, float):
        return v
    if isinstance(v, int):
        return int(v)
    if isinstance(v, float):
        return float(v)
    if depth > 12:
        return repr(v)[:200]
    if isinstance(v, dict):
        return {(k if isinstance(k, (str, int, float, bool, bytes, type(None))) and type(k) in (str, int, float, bool, bytes, type(None))
                 else repr(k)): _plain(x, depth + 1) for k, x in v.items()}
    if isinstance(v, (list, tuple)):
        return [_plain(x, depth + 1) for x in v]
    if isinstance(v, (set, frozenset)):
        return sorted((_plain(x, depth + 1) for x in v), key=repr)
    return repr(v)[:400]


def load_module(prop):
    return importlib.import_module(f"hv.props.{prop.lower()}")


def load_findings():
    path = os.path.join(env.HV_ROOT, "known_findings.json")
    if not os.path.exists(path):
        return {"known": [], "fixed": []}
    with open(path) as f:
        return json.load(f)


def run_child(args):
    try:
        import resource
        limit = int(os.environ.get("HV_MEM_LIMIT_GB", "6")) << 30
        resource.setrlimit(resource.RLIMIT_AS, (limit, limit))
    except Exception:
        pass
    mod = load_module(args.prop)
    budget = getattr(mod, "BUDGET_S", {}).get(args.tier)
    deadline = time.time() + budget if budget else None
    ctx = Ctx(args.prop, args.tier, args.seed, args.shard, args.nshards, deadline)
    try:
        mod.run(ctx)
    except BaseException as e:  # harness bug or unexpected crash: never "held"
        ctx.inconclusive_because(f"harness-exception shard={args.shard}: {type(e).__name__}: {e}")
        ctx.flags["traceback"] = traceback.format_exc()[-3000:]
    with open(args.out, "wb") as f:
        pickle.dump(ctx.dump(), f)
    return 0


def merge(results):
    merged = {"evaluations": 0, "counters": {}, "nontrivial": set(), "samples": [], "violations": {},
              "inconclusive": [], "flags": {}, "covers": {}}
    for r in results:
        for k, v in r.get("covers", {}).items():
            merged["covers"].setdefault(k, set()).update(v)
        merged["evaluations"] += r["evaluations"]
        for k, v in r["counters"].items():
            merged["counters"][k] = merged["counters"].get(k, 0) + v
        merged["nontrivial"].update(r["nontrivial"])
        merged["samples"].extend(r["samples"])
        for k, v in r["violations"].items():
            m = merged["violations"].setdefault(k, {"count": 0, "witnesses": [], "what": v["what"]})
            m["count"] += v["count"]
            for w in v["witnesses"]:
                if len(m["witnesses"]) < WITNESSES_PER_MECHANISM:
                    m["witnesses"].append(w)
        for reason in r["inconclusive"]:
            if reason not in merged["inconclusive"]:
                merged["inconclusive"].append(reason)
        for k, v in r["flags"].items():
            if k not in merged["flags"]:
                merged["flags"][k] = v
            elif isinstance(v, bool) and isinstance(merged["flags"][k], bool):
                merged["flags"][k] = merged["flags"][k] and v
            elif isinstance(v, (int, float)) and not isinstance(v, bool) and isinstance(merged["flags"][k], (int, float)):
                merged["flags"][k] = max(merged["flags"][k], v)
            elif isinstance(v, list) and isinstance(merged["flags"][k], list):
                for item in v:
                    if item not in merged["flags"][k]:
                        merged["flags"][k].append(item)
    for k, v in merged["covers"].items():
        merged["counters"][k + "_covered"] = len(v)
    return merged


def run_parent(args):
    t0 = time.time()
    mod = load_module(args.prop)
    tier = args.tier
    nshards = args.shards or getattr(mod, "SHARDS", {}).get(tier, 1)
    timeout = getattr(mod, "TIMEOUT_S", {}).get(tier, 600 if tier == "quick" else 3600)
    workdir = tempfile.mkdtemp(prefix=f"{args.prop}_", dir=_workroot())
    procs = []
    results = []
    inconclusive = []
    try:
        max_par = int(os.environ.get("HV_JOBS", "16"))
        pending = list(range(nshards))
        running = []
        while pending or running:
            while pending and len(running) < max_par:
                i = pending.pop(0)
                out = os.path.join(workdir, f"shard{i}.pkl")
                # one shard in four runs the interpreter the way packaged applications often do (-O: asserts and `if __debug__`
                # blocks are stripped) - another part of the environment the code under test must not depend on
                opt = ["-O"] if (i % 4 == 3 and not getattr(mod, "NO_OPTIMIZED_SHARDS", False)) else []
                cmd = [sys.executable, *opt, "-X", "faulthandler", "-W", "ignore", "-m", "hv.runner", args.prop, "--child",
                       "--tier", tier, "--seed", str(args.seed), "--shard", str(i), "--nshards", str(nshards),
                       "--out", out]
                errf = open(os.path.join(workdir, f"shard{i}.err"), "wb")
                p = subprocess.Popen(cmd, cwd=env.HV_ROOT, stdout=errf, stderr=errf, env=_child_env(mod, i))
                running.append((i, p, out, time.time(), errf))
            still = []
            for (i, p, out, started, errf) in running:
                rc = p.poll()
                if rc is None:
                    if time.time() - started > timeout:
                        p.kill()
                        p.wait()
                        errf.close()
                        inconclusive.append(f"shard {i} watchdog fired after {timeout}s")
                    else:
                        still.append((i, p, out, started, errf))
                    continue
                errf.close()
                if rc != 0 or not os.path.exists(out):
                    tail = _tail(os.path.join(workdir, f"shard{i}.err"))
                    inconclusive.append(f"shard {i} died rc={rc}: {tail}")
                else:
                    with open(out, "rb") as f:
                        results.append(pickle.load(f))
            running = still
            if running:
                time.sleep(0.05)
    finally:
        for (i, p, out, started, errf) in procs:
            pass
        shutil.rmtree(workdir, ignore_errors=True)

    if not os.environ.get("HV_REPLAY_DIR"):
        shutil.rmtree(os.path.join(env.HV_ROOT, "replays", args.prop), ignore_errors=True)   # stale witnesses
    merged = merge(results)
    merged["inconclusive"].extend(inconclusive)
    # must-reach counters
    for name, floor in getattr(mod, "MUST_REACH", {}).items():
        if isinstance(floor, dict):
            floor = floor.get(tier, 1)
        if merged["counters"].get(name, 0) < floor:
            merged["inconclusive"].append(f"must-reach counter {name}={merged['counters'].get(name, 0)} < {floor}")
    if not merged["samples"]:
        merged["inconclusive"].append("no sample cases were recorded")
    if len(merged["nontrivial"]) < 2:
        merged["inconclusive"].append("fewer than 2 distinct non-trivial cases observed")
    return finish(args, mod, merged, time.time() - t0)


def _workroot():
    d = os.path.join(env.HV_ROOT, ".work")
    os.makedirs(d, exist_ok=True)
    return d


def _child_env(mod, shard=0):
    e = dict(os.environ)
    e["HV_ROOT"] = env.HV_ROOT
    e["HV_REPO"] = env.HV_REPO
    e["PYTHONDONTWRITEBYTECODE"] = "1"
    # string hashing (and with it the iteration order of sets / the collision pattern of dicts in the code under test) is part
    # of the environment: fixed per shard so that a run is reproducible, different between shards so that not only one order is
    # ever seen
    e["PYTHONHASHSEED"] = str(shard)
    e.update(getattr(mod, "CHILD_ENV", {}))
    return e


def _tail(path, n=600):
    try:
        with open(path, "rb") as f:
            data = f.read()
        return data[-n:].decode("utf8", "replace").replace("\n", " | ")
    except OSError:
        return ""


def finish(args, mod, merged, wall):
    prop = args.prop
    findings = load_findings()
    known = {e["key"]: e for e in findings.get("known", []) if e["property"] == prop}
    unlisted = {}
    listed = {}
    for mech, v in merged["violations"].items():
        (listed if mech in known else unlisted)[mech] = v

    verdict = "held"
    lines = []
    for mech, v in sorted(listed.items()):
        lines.append(f"KNOWN-FINDING: property={prop} {known[mech]['what']} [key={mech} witnesses={v['count']}]")
    replay_paths = []
    for mech, v in sorted(unlisted.items()):
        verdict = "violated"
        rdir = os.path.join(os.environ.get("HV_REPLAY_DIR") or os.path.join(env.HV_ROOT, "replays"), prop)
        os.makedirs(rdir, exist_ok=True)
        digest = hashlib.blake2b(json.dumps([mech, v["witnesses"][:1]], sort_keys=True, default=repr).encode(),
                                 digest_size=6).hexdigest()
        path = os.path.join(rdir, f"{digest}.json")
        with open(path, "w") as f:
            json.dump({"property": prop, "seed": args.seed, "tier": args.tier, "mechanism": mech,
                       "what": v["what"], "count": v["count"], "witnesses": v["witnesses"]}, f, indent=1, default=repr)
        replay_paths.append(path)
        lines.append(f"VIOLATION property={prop} replay={path}")
        lines.append(f"  mechanism={mech} count={v['count']} what={v['what']}")
    if verdict != "violated" and merged["inconclusive"]:
        verdict = "inconclusive"
    for reason in merged["inconclusive"]:
        lines.append(f"INCONCLUSIVE property={prop} reason={reason}")

    level = getattr(mod, "LEVEL", "exploration")
    coverage = {
        "evaluations": merged["evaluations"],
        "distinct_nontrivial": len(merged["nontrivial"]),
        "rule": getattr(mod, "RULE", ""),
        "samples": merged["samples"][:12],
        "counters": dict(sorted(merged["counters"].items())),
        "must_reach": {k: (v.get(args.tier, 1) if isinstance(v, dict) else v)
                       for k, v in getattr(mod, "MUST_REACH", {}).items()},
        "verdict": verdict,
        "known_findings_observed": sorted(listed.keys()),
        "unlisted_violation_mechanisms": sorted(unlisted.keys()),
        "inconclusive_reasons": merged["inconclusive"],
        "shards": args.shards or getattr(mod, "SHARDS", {}).get(args.tier, 1),
        "repo": env.HV_REPO,
    }
    for name in ("states", "transitions"):
        if name in merged["counters"]:
            coverage[name] = merged["counters"][name]
    coverage["covered_classes"] = {k: sorted(v, key=str)[:80] for k, v in merged.get("covers", {}).items()}
    for k, v in merged["flags"].items():
        if k == "traceback":
            coverage["harness_traceback"] = v
        else:
            coverage[k] = v
    evidence = {
        "property_id": prop, "tier": args.tier, "seed": args.seed, "level": level,
        "coverage": coverage,
        "assumptions": list(getattr(mod, "ASSUMPTIONS", [])),
        "wall_s": round(wall, 2),
        "violations": sum(v["count"] for v in unlisted.values()),
    }
    edir = os.path.join(env.HV_ROOT, "evidence")
    os.makedirs(edir, exist_ok=True)
    epath = os.environ.get("HV_EVIDENCE_OUT") or os.path.join(edir, f"{prop}.json")
    with open(epath, "w") as f:
        json.dump(evidence, f, indent=1, default=repr)
        f.write("\n")

    print(f"{prop} tier={args.tier} seed={args.seed} evaluations={merged['evaluations']} "
          f"distinct_nontrivial={len(merged['nontrivial'])} wall={wall:.1f}s verdict={verdict}")
    interesting = {k: v for k, v in sorted(merged["counters"].items())}
    print("  observed: " + ", ".join(f"{k}={v}" for k, v in interesting.items()))
    for line in lines:
        print(line)
    if "traceback" in merged["flags"]:
        print(merged["flags"]["traceback"])
    sys.stdout.flush()
    return {"held": 0, "violated": 1, "inconclusive": 2}[verdict]


def run_replay(args):
    """Re-run the monitor on the concrete witnesses stored in a replay file (no generator)."""
    with open(args.replay) as f:
        rep = json.load(f)
    prop = rep["property"]
    mod = load_module(prop)
    ctx = Ctx(prop, rep.get("tier", "quick"), rep.get("seed", 0))
    if not hasattr(mod, "replay"):
        print(f"{prop}: module has no replay()")
        return 2
    for w in rep["witnesses"]:
        mod.replay(ctx, unjson(w))
    args.prop = prop
    args.tier = rep.get("tier", "quick")
    args.seed = rep.get("seed", 0)
    os.environ["HV_EVIDENCE_OUT"] = os.path.join(_workroot(), f"replay_{prop}.json")
    merged = merge([ctx.dump()])
    merged["evaluations"] = max(merged["evaluations"], 1)
    return finish(args, mod, merged, 0.0)


def main(argv=None):
    ap = argparse.ArgumentParser()
    ap.add_argument("prop", nargs="?")
    ap.add_argument("--tier", default=os.environ.get("VERIF_TIER", "quick"), choices=["quick", "thorough"])
    ap.add_argument("--seed", type=int, default=int(os.environ.get("VERIF_SEED", "0") or 0))
    ap.add_argument("--replay")
    ap.add_argument("--shards", type=int, default=0)
    ap.add_argument("--child", action="store_true")
    ap.add_argument("--shard", type=int, default=0)
    ap.add_argument("--nshards", type=int, default=1)
    ap.add_argument("--out")
    args = ap.parse_args(argv)
    if args.replay:
        return run_replay(args)
    if not args.prop:
        ap.error("property id required")
    args.prop = args.prop.upper()
    if args.child:
        return run_child(args)
    return run_parent(args)


if __name__ == "__main__":
    sys.exit(main())
